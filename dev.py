"""Development driver: run the check machinery on an ad-hoc list of contracts.
usage: python3-vt dev.py <module[,module]> <contract> [<contract> ...]"""
import sys, importlib
import props
from dvc import check
mods = sys.argv[1].split(',')
PROP = 'C08'
base = dict(props.PROPS[PROP])
base.update(modules=mods, contracts=sys.argv[2:], lemmas=[], bounded={}, extra_obligations=None)
base.pop('selftests', None)
props.PROPS['DEV'] = base
sys.exit(check.main(['DEV']))
