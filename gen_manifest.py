"""Writes MANIFEST.json from props.py (single source of truth for what is claimed)."""
import json
import props

LEVEL_TEXT = {}
checks = []
for pid in sorted(props.PROPS):
    cfg = props.PROPS[pid]
    if cfg.get('claimed', True) is False:
        continue
    checks.append(dict(
        property_id=pid,
        quick_cmd='python3-vt -m dvc.check %s --tier quick' % pid,
        thorough_cmd='python3-vt -m dvc.check %s --tier thorough' % pid,
        evidence_file='evidence/%s.json' % pid,
        replay_cmd_template='python3-vt -m dvc.check %s --replay {path}' % pid,
        engine='dvc',
        level_claimed=dict(category=cfg.get('level', 'proof'), text=cfg['level_text'], design_ref=cfg.get('design_ref', 'DESIGN.md §6')),
        level_note=cfg['level_note'],
        technique=cfg.get('technique', 'contract-based deductive verification: sidecar contracts on the real functions, VCs generated from the AST, discharged by z3/cvc5'),
    ))
na = [dict(property_id=p, reason=r) for p, r in sorted(props.NOT_APPLICABLE.items())]
for pid, cfg in sorted(props.PROPS.items()):
    if cfg.get('claimed', True) is False:
        na.append(dict(property_id=pid, reason=cfg.get('reason', 'not decided yet: only a bounded stand-in exists')))
na.sort(key=lambda d: d['property_id'])
m = dict(
    version=1,
    setup_cmd='python3-vt setup_check.py',
    hooks=dict(guard='DTAIDISTANCE_VERIF', enable='none needed: contracts are sidecar files, /repo is read, not instrumented',
               baseline_off_cmd='cd /repo && /venv/bin/python -m pytest -ra -q -p no:cacheprovider --timeout=900 --continue-on-collection-errors',
               source_commits=[], add_only=True),
    engines=[dict(name='dvc', path='dvc/', serves_properties=[c['property_id'] for c in checks],
                  kind_free_text='own VC generator: Python ast / clang JSON AST of the real sources -> symbolic execution with loop invariants from sidecar contracts -> z3 (E-matching first), cvc5 second; replay on the real code')],
    checks=checks,
    not_applicable=na,
    notes='See DESIGN.md. Exit codes of every check: 0 held, 1 violation, 2 undecided, 3 checker error.',
)
json.dump(m, open('MANIFEST.json', 'w'), indent=1)
print('checks:', [c['property_id'] for c in checks], 'not_applicable:', len(na))
