"""setup_cmd: verify that the tools the checks need answer; builds nothing from /repo."""
import subprocess, sys, shutil
ok = True
for cmd in (['/venv/bin/python', '-c', 'import numpy'], ['clang', '--version'], ['/usr/bin/cvc5', '--version']):
    try:
        subprocess.run(cmd, check=True, capture_output=True, timeout=120)
    except Exception as e:
        print('MISSING', cmd, e)
        ok = False
import z3
print('z3', z3.get_version_string())
sys.exit(0 if ok else 1)
