"""setup_cmd: verify that the tools the checks need answer and check the Lean lemmas.
Pre-builds the extension of the current tree for the native sweeps (dvc/extbuild.py; every check re-verifies the source hash).  Writes build/lean_status.json with the
SHA-256 of every accepted Lean file; checks refuse to cite a lemma whose file hash differs."""
import hashlib
import json
import os
import subprocess
import sys
import time

HERE = os.path.dirname(os.path.abspath(__file__))
ok = True
for cmd in (['/venv/bin/python', '-c', 'import numpy'], ['clang', '--version'], ['gcc', '--version'],
            ['/usr/bin/cvc5', '--version']):
    try:
        subprocess.run(cmd, check=True, capture_output=True, timeout=120)
    except Exception as e:      # noqa
        print('MISSING', cmd, e)
        ok = False
import z3  # noqa: E402
print('z3', z3.get_version_string())
status = {}
ldir = os.path.join(HERE, 'specs', 'lean')
os.makedirs(os.path.join(HERE, 'build'), exist_ok=True)
for f in sorted(os.listdir(ldir)):
    if not f.endswith('.lean'):
        continue
    path = os.path.join(ldir, f)
    src = open(path, 'rb').read()
    t0 = time.time()
    p = subprocess.run(['lean', path], capture_output=True, text=True, timeout=3600, cwd=ldir)
    accepted = p.returncode == 0 and 'error' not in p.stdout and 'sorry' not in p.stdout and b'sorry' not in src
    status[f] = dict(sha256=hashlib.sha256(src).hexdigest(), accepted=accepted, seconds=round(time.time() - t0, 1),
                     output=(p.stdout + p.stderr)[-1500:])
    print('lean', f, 'accepted' if accepted else 'REJECTED', status[f]['seconds'], 's')
    ok = ok and accepted
json.dump(status, open(os.path.join(HERE, 'build', 'lean_status.json'), 'w'), indent=1)
# the extension of /repo's current tree for the native sweeps (rebuilt by every check whose source hash differs)
sys.path.insert(0, HERE)
try:
    from dvc import extbuild
    from dvc.program import REPO
    t0 = time.time()
    print('native package of the current tree:', extbuild.native_root(REPO), round(time.time() - t0, 1), 's')
except Exception as e:      # noqa
    print('BUILD FAILED', e)
    ok = False
sys.exit(0 if ok else 1)
