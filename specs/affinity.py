"""Specification of the affinity (local-concurrence) warping-paths matrix (C18).

Matrix coordinates as in specs/dtw.py (row / column 0 are the border).

    aff(i, j)      =  exp(-gamma * (s1[i] - s2[j]) ** 2)
    cell(i, j)     <=> band(i, j) and (not only_triu or j >= i)
    A(0, j)        =  0 if j <= psi_2b else -inf
    A(i, 0)        =  0 if i <= psi_1b else -inf                               (i >= 1)
    A(i+1, j+1)    =  -inf                                                    if not cell(i, j)
                      max(0, delta + delta_factor * prev)                     if aff(i, j) < tau
                      max(0, aff(i, j) + prev)                                otherwise
       where prev  =  max3(A(i, j), A(i, j+1) - pen, A(i+1, j) - pen)

pen is the penalty as given (0 when None: the documented default of the routine and the value
DTWSettings.c_kwargs hands to the C engine).  All float operations are the abstract rounded
operations of dvc.vals in the operand order of the code.
"""
import z3
from dvc.contracts import spec, THEORIES, fuel_function
from dvc.vals import (IntS, BoolS, Val, vadd, vsub, vmul, vneg, vexp, vpow, vlt, vninf, vzero, vlit, Opt)
from dvc.ops import zint, zbool
from dvc.state import Unsupported
from specs.bounds import AV, series_parts
from specs.dtw import band, opt_val, CtxValue

# a1 o1 r  a2 o2 c  w  pen  gamma tau delta dfac  psi_1b psi_2b  triu
ACTX_SORTS = [AV, IntS, IntS, AV, IntS, IntS, IntS, Val, Val, Val, Val, Val, IntS, IntS, BoolS]
NA = len(ACTX_SORTS)


def max2(a, b):
    """Python max(a, b): the first maximal argument wins"""
    return z3.If(vlt(a, b), b, a)


def max3(a, b, c):
    return max2(max2(a, b), c)


def aff_term(ctx, i, j, form='py'):
    a1, o1, r, a2, o2, c, w, pen, gamma, tau, delta, dfac, p1b, p2b, triu = ctx
    diff = vsub(z3.Select(a1, o1 + i), z3.Select(a2, o2 + j))
    return vexp(vmul(vneg(gamma), vpow(diff, vlit(2))))


def cell(ctx, i, j):
    a1, o1, r, a2, o2, c, w, pen, gamma, tau, delta, dfac, p1b, p2b, triu = ctx
    return z3.And(band(i, j, r, c, w), z3.Or(z3.Not(triu), j >= i))


def _a_body(rec, *args):
    ctx = args[:NA]
    i, j = args[NA], args[NA + 1]
    a1, o1, r, a2, o2, c, w, pen, gamma, tau, delta, dfac, p1b, p2b, triu = ctx
    d = aff_term(ctx, i - 1, j - 1)
    prev = max3(rec(*ctx, i - 1, j - 1), vsub(rec(*ctx, i - 1, j), pen), vsub(rec(*ctx, i, j - 1), pen))
    inner = z3.If(cell(ctx, i - 1, j - 1),
                  z3.If(vlt(d, tau), max2(vzero, vadd(delta, vmul(dfac, prev))), max2(vzero, vadd(d, prev))),
                  vninf)
    return z3.If(i <= 0, z3.If(z3.And(j >= 0, j <= p2b), vzero, vninf),
                 z3.If(j <= 0, z3.If(z3.And(j == 0, i <= p1b), vzero, vninf), inner))


Af, a_axioms = fuel_function('A', ACTX_SORTS + [IntS, IntS], Val, _a_body, fuel=1)
THEORIES['affinity'] = lambda: a_axioms()


def _actx(ex, st, s1, s2, window, penalty, gamma, tau, delta, dfac, psi_1b, psi_2b, triu):
    a1, o1 = series_parts(ex, st, s1)
    a2, o2 = series_parts(ex, st, s2)
    r = zint(ex.bi_len([s1], {}, None, st))
    c = zint(ex.bi_len([s2], {}, None, st))
    if window is None:
        w = z3.If(r > c, r, c)
    elif isinstance(window, Opt):
        w = z3.If(zbool(window.isnone), z3.If(r > c, r, c), zint(window.v))
    else:
        w = zint(window)
    pn, pv = opt_val(penalty)
    pen = z3.If(pn, vzero, pv)
    raw = (a1, o1, r, a2, o2, c, w, pen, vlit(gamma), vlit(tau), vlit(delta), vlit(dfac), zint(psi_1b), zint(psi_2b),
           zbool(triu))
    names = ['a1', 'o1', 'r', 'a2', 'o2', 'c', 'w', 'pen', 'gamma', 'tau', 'delta', 'dfac', 'p1b', 'p2b', 'triu']
    out, defs = [], []
    for n, t in zip(names, raw):
        if z3.is_const(t) or z3.is_int_value(t) or z3.is_true(t) or z3.is_false(t):
            out.append(t)
        else:
            k = z3.Const('actx_' + n, t.sort())
            defs.append(k == t)
            out.append(k)
    v = CtxValue(('affctx',) + tuple(out))
    v.defs = defs
    return v


def cur_actx(ex):
    c = ex.spec_env.get('ctx')
    if not (isinstance(c, tuple) and c and c[0] == 'affctx'):
        raise Unsupported('A(...) needs a bound ghost `ctx` = AFFctx(...) in the contract')
    return c[1:]


spec('AFFctx', z3=_actx, doc='specification context of one affinity problem')
spec('A', z3=lambda ex, st, i, j: Af(*cur_actx(ex), zint(i), zint(j)), doc='affinity accumulated-score recurrence')
spec('AWnd', z3=lambda ex, st: cur_actx(ex)[6], doc='window after the None -> max(len) default')
spec('APen', z3=lambda ex, st: cur_actx(ex)[7], doc='penalty (0 when None)')


# ---------------------------------------------------------------------------------------------
# Concrete evaluator (replay / run-time sweep).  exp is numpy's, as in the routine.
class PyACtx:
    def __init__(self, a1, r, a2, c, w, pen, gamma, tau, delta, dfac, p1b, p2b, triu):
        self.__dict__.update(locals())
        self.memo = {}

    def aff(self, i, j):
        import numpy as np
        return float(np.exp(-self.gamma * (self.a1[i] - self.a2[j]) ** 2))

    def cell(self, i, j):
        r, c, w = self.r, self.c, self.w
        band = (i - max(0, r - c) - w < j < i + max(0, c - r) + w) and 0 <= j < c and 0 <= i < r
        return band and (not self.triu or j >= i)

    def A(self, i, j):
        ninf = float('-inf')
        if i <= 0:
            return 0.0 if 0 <= j <= self.p2b else ninf
        if j <= 0:
            return 0.0 if (j == 0 and i <= self.p1b) else ninf
        if j > self.c or i > self.r:
            return ninf
        if (i, j) not in self.memo:
            for a in range(1, i + 1):
                for b in range(1, self.c + 1):
                    if (a, b) in self.memo:
                        continue
                    if self.cell(a - 1, b - 1):
                        d = self.aff(a - 1, b - 1)
                        prev = max(self.A(a - 1, b - 1), self.A(a - 1, b) - self.pen, self.A(a, b - 1) - self.pen)
                        v = max(0, self.delta + self.dfac * prev) if d < self.tau else max(0, d + prev)
                    else:
                        v = ninf
                    self.memo[(a, b)] = v
        return self.memo[(i, j)]


def _py_actx(ex, st, s1, s2, window, penalty, gamma, tau, delta, dfac, psi_1b, psi_2b, triu):
    from specs.dtw import _py_series, _py_len
    r, c = _py_len(ex, st, s1), _py_len(ex, st, s2)
    w = max(r, c) if window is None else window
    return PyACtx(_py_series(ex, st, s1), r, _py_series(ex, st, s2), c, w, 0.0 if penalty is None else penalty,
                  gamma, tau, delta, dfac, psi_1b, psi_2b, bool(triu))


def _pac(ex):
    c = ex.spec_env.get('ctx')
    if not isinstance(c, PyACtx):
        raise Unsupported('no concrete affinity context bound')
    return c


from dvc.contracts import SPECS as _SPECS  # noqa: E402
_SPECS['AFFctx'].py = _py_actx
_SPECS['A'].py = lambda ex, st, i, j: _pac(ex).A(i, j)
_SPECS['AWnd'].py = lambda ex, st: _pac(ex).w
_SPECS['APen'].py = lambda ex, st: _pac(ex).pen
