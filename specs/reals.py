"""Level R (DESIGN 3.4): reals with exp / log / sqrt as uninterpreted functions and their defining
properties -- used for the closed-form similarity transforms (C19).  Machine arithmetic is treated as
mathematical here (listed assumption)."""
import z3
from dvc.contracts import spec, THEORIES

R = z3.RealSort()
rexp = z3.Function('rexp', R, R)
rlog = z3.Function('rlog', R, R)
rsqrt = z3.Function('rsqrt', R, R)
rpow = z3.Function('rpow', R, R, R)     # base ** x


def real_axioms():
    a, b = z3.Reals('ra rb')
    return [
        z3.ForAll([a, b], z3.Implies(a < b, rexp(a) < rexp(b)), patterns=[z3.MultiPattern(rexp(a), rexp(b))]),
        z3.ForAll([a, b], z3.Implies(a == b, rexp(a) == rexp(b)), patterns=[z3.MultiPattern(rexp(a), rexp(b))]),
        z3.ForAll([a], rexp(a) > 0, patterns=[rexp(a)]),
        rexp(0) == 1,
        z3.ForAll([a], z3.Implies(a > 0, rexp(rlog(a)) == a), patterns=[rlog(a)]),
        z3.ForAll([a], z3.Implies(z3.And(a > 0, a < 1), rlog(a) < 0), patterns=[rlog(a)]),
        z3.ForAll([a], z3.Implies(a > 1, rlog(a) > 0), patterns=[rlog(a)]),
        rlog(1) == 0,
        z3.ForAll([a], z3.Implies(a >= 0, z3.And(rsqrt(a) >= 0, rsqrt(a) * rsqrt(a) == a)), patterns=[rsqrt(a)]),
        # base ** x for base > 1: positive, strictly increasing in x, base ** 0 == 1
        z3.ForAll([a, b], z3.Implies(a > 1, rpow(a, b) > 0), patterns=[rpow(a, b)]),
        z3.ForAll([a], z3.Implies(a > 1, rpow(a, 0) == 1), patterns=[rpow(a, 0)]),
    ] + [z3.ForAll([z3.Real('rc'), a, b], z3.Implies(z3.And(z3.Real('rc') > 1, a < b), rpow(z3.Real('rc'), a) < rpow(z3.Real('rc'), b)),
                   patterns=[z3.MultiPattern(rpow(z3.Real('rc'), a), rpow(z3.Real('rc'), b))])]


THEORIES['reals'] = real_axioms
spec('rexp', z3=lambda ex, st, x: rexp(x), py=lambda ex, st, x: __import__('math').exp(x))


def _stat(name):
    def f(ex, st, arr):
        from dvc.libmodels import LIB
        return LIB['np.' + name](ex, [arr], {}, None, st)
    return f


spec('NpMax', z3=_stat('max'))
spec('NpMin', z3=_stat('min'))
spec('NpMean', z3=_stat('mean'))
spec('NpQuantile', z3=_stat('quantile'))

from dvc.contracts import input_builder  # noqa: E402
from dvc.vals import ArrObj, Ref  # noqa: E402


@input_builder('nonneg_pair')
def build_pair(ex, name, st, origin):
    """two arbitrary elements of a non-negative distance array"""
    a, b = z3.Real(name + '_i'), z3.Real(name + '_j')
    st.assume(z3.And(a >= 0, b >= 0))
    oid = st.new_oid('N')
    o = ArrObj('any', items=[a, b], length=2, origin=origin, name=name, pykind='ndarray', dtype='float')
    o.nonneg = True
    st.heap[oid] = o
    return Ref(oid)


@input_builder('real')
def build_real(ex, name, st, origin):
    return z3.Real(name)
