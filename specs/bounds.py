"""Specification theory for the Euclidean upper bound and LB_Keogh (C09, C03, C11).

From the property statement: the Euclidean distance supports unequal lengths by comparing the
surplus elements with the last element of the shorter series.  With n1, n2 the lengths and
N = max(n1, n2), term i (0 <= i < N) compares  s1[min(i, n1-1)]  with  s2[min(i, n2-1)]:

    EDsum(0) = 0,   EDsum(k+1) = EDsum(k) (+) idist(s1[min(k, n1-1)], s2[min(k, n2-1)])
    ED = result_fn(EDsum(N))

(+) is the rounded double addition in the order the loops perform it, so code == spec is bit-exact.
`metric` selects the inner distance: 0 squared Euclidean (x-y)*(x-y), 1 Euclidean |x-y|.
"""
import z3
from dvc.contracts import spec, THEORIES, fuel_function
from dvc.vals import IntS, BoolS, Val, vadd, vsub, vmul, vabs, vsqrt, vpow, vzero, vofreal, vlit, Ptr, Ref, is_cint
from dvc.ops import zint
from dvc.state import Unsupported

AV = z3.ArraySort(IntS, Val)


def idist_term(metric, x, y):
    d = vsub(x, y)
    return z3.If(metric == 0, vmul(d, d), vabs(d))


def _clamp(i, n):
    return z3.If(i < n - 1, i, n - 1)


def _edsum_body(rec, a1, o1, n1, a2, o2, n2, metric, k):
    x = z3.Select(a1, o1 + _clamp(k - 1, n1))
    y = z3.Select(a2, o2 + _clamp(k - 1, n2))
    return z3.If(k <= 0, vzero, vadd(rec(a1, o1, n1, a2, o2, n2, metric, k - 1), idist_term(metric, x, y)))


EDsumf, edsum_axioms = fuel_function('EDsum', [AV, IntS, IntS, AV, IntS, IntS, IntS, IntS], Val, _edsum_body)


def pow2_axiom():
    """A3 (libm): pow(d, 2.0) == d * d.  Python's SquaredEuclidean evaluates (x-y)**2 through pow,
    C evaluates (x-y)*(x-y); the property allows the engines to differ by rounding, the obligations
    treat the two as one function (DESIGN 3.4)."""
    d = z3.Const('p2d', Val)
    return [z3.ForAll([d], vpow(d, vofreal(z3.RealVal(2))) == vmul(d, d), patterns=[vpow(d, vofreal(z3.RealVal(2)))])]


THEORIES['bounds'] = lambda: edsum_axioms() + pow2_axiom()


def series_parts(ex, st, s):
    """(array term, offset) of a series value: C pointer or Python sequence object."""
    if isinstance(s, Ptr):
        return ex.array_term(s, st), zint(s.off)
    if isinstance(s, Ref):
        return ex.array_term(s, st), z3.IntVal(0)
    raise Unsupported('series value %r' % (s,))


def _edsum(ex, st, s1, n1, s2, n2, metric, k):
    a1, o1 = series_parts(ex, st, s1)
    a2, o2 = series_parts(ex, st, s2)
    return EDsumf(a1, o1, zint(n1), a2, o2, zint(n2), zint(metric), zint(k))


def _py_items(ex, st, s):
    if isinstance(s, Ptr):
        return st.heap[s.oid].items[s.off:]
    return st.heap[s.oid].items


def _py_edsum(ex, st, s1, n1, s2, n2, metric, k):
    a, b = _py_items(ex, st, s1), _py_items(ex, st, s2)
    t = 0
    for i in range(k):
        x, y = a[min(i, n1 - 1)], b[min(i, n2 - 1)]
        t = t + ((x - y) ** 2 if metric == 0 else abs(x - y))
    return t


spec('EDsum', z3=_edsum, py=_py_edsum, doc='padded Euclidean partial sum of the first k terms')
spec('vsqrt', z3=lambda ex, st, x: vsqrt(vlit(x)), py=lambda ex, st, x: __import__('math').sqrt(x))
spec('maxi', z3=lambda ex, st, a, b: z3.If(zint(a) > zint(b), zint(a), zint(b)), py=lambda ex, st, a, b: max(a, b))
spec('mini', z3=lambda ex, st, a, b: z3.If(zint(a) < zint(b), zint(a), zint(b)), py=lambda ex, st, a, b: min(a, b))
