"""Specification theory for the Euclidean upper bound and LB_Keogh (C09, C03, C11).

From the property statement: the Euclidean distance supports unequal lengths by comparing the
surplus elements with the last element of the shorter series.  With n1, n2 the lengths and
N = max(n1, n2), term i (0 <= i < N) compares  s1[min(i, n1-1)]  with  s2[min(i, n2-1)]:

    EDsum(0) = 0,   EDsum(k+1) = EDsum(k) (+) idist(s1[min(k, n1-1)], s2[min(k, n2-1)])
    ED = result_fn(EDsum(N))

(+) is the rounded double addition in the order the loops perform it, so code == spec is bit-exact.
`metric` selects the inner distance: 0 squared Euclidean (x-y)*(x-y), 1 Euclidean |x-y|.
"""
import z3
from dvc.contracts import spec, THEORIES, fuel_function
from dvc.vals import IntS, BoolS, Val, vadd, vsub, vmul, vabs, vsqrt, vpow, vzero, vofreal, vlit, Ptr, Ref, is_cint
from dvc.ops import zint
from dvc.state import Unsupported

AV = z3.ArraySort(IntS, Val)


def idist_term(metric, x, y):
    d = vsub(x, y)
    return z3.If(metric == 0, vmul(d, d), vabs(d))


def _clamp(i, n):
    return z3.If(i < n - 1, i, n - 1)


def _edsum_body(rec, a1, o1, n1, a2, o2, n2, metric, k):
    x = z3.Select(a1, o1 + _clamp(k - 1, n1))
    y = z3.Select(a2, o2 + _clamp(k - 1, n2))
    return z3.If(k <= 0, vzero, vadd(rec(a1, o1, n1, a2, o2, n2, metric, k - 1), idist_term(metric, x, y)))


EDsumf, edsum_axioms = fuel_function('EDsum', [AV, IntS, IntS, AV, IntS, IntS, IntS, IntS], Val, _edsum_body)


def pow2_axiom():
    """A3 (libm): pow(d, 2.0) == d * d.  Python's SquaredEuclidean evaluates (x-y)**2 through pow,
    C evaluates (x-y)*(x-y); the property allows the engines to differ by rounding, the obligations
    treat the two as one function (DESIGN 3.4)."""
    d = z3.Const('p2d', Val)
    return [z3.ForAll([d], vpow(d, vofreal(z3.RealVal(2))) == vmul(d, d), patterns=[vpow(d, vofreal(z3.RealVal(2)))])]


THEORIES['bounds'] = lambda: edsum_axioms() + pow2_axiom()


def series_parts(ex, st, s):
    """(array term, offset) of a series value: C pointer or Python sequence object."""
    if isinstance(s, Ptr):
        return ex.array_term(s, st), zint(s.off)
    if isinstance(s, Ref):
        return ex.array_term(s, st), z3.IntVal(0)
    raise Unsupported('series value %r' % (s,))


def _edsum(ex, st, s1, n1, s2, n2, metric, k):
    a1, o1 = series_parts(ex, st, s1)
    a2, o2 = series_parts(ex, st, s2)
    return EDsumf(a1, o1, zint(n1), a2, o2, zint(n2), zint(metric), zint(k))


def _py_items(ex, st, s):
    if isinstance(s, Ptr):
        return st.heap[s.oid].items[s.off:]
    return st.heap[s.oid].items


def _py_edsum(ex, st, s1, n1, s2, n2, metric, k):
    a, b = _py_items(ex, st, s1), _py_items(ex, st, s2)
    t = 0
    for i in range(k):
        x, y = a[min(i, n1 - 1)], b[min(i, n2 - 1)]
        t = t + ((x - y) ** 2 if metric == 0 else abs(x - y))
    return t


spec('EDsum', z3=_edsum, py=_py_edsum, doc='padded Euclidean partial sum of the first k terms')
spec('vsqrt', z3=lambda ex, st, x: vsqrt(vlit(x)), py=lambda ex, st, x: __import__('math').sqrt(x))
spec('maxi', z3=lambda ex, st, a, b: z3.If(zint(a) > zint(b), zint(a), zint(b)), py=lambda ex, st, a, b: max(a, b))
spec('mini', z3=lambda ex, st, a, b: z3.If(zint(a) < zint(b), zint(a), zint(b)), py=lambda ex, st, a, b: min(a, b))


# ---------------------------------------------------------------------------------------------
# Multivariate Euclidean distance: point i of a series with ndim dimensions is the slice
# a[o + i*ndim .. o + (i+1)*ndim); the point distance is the sum over dimensions (squared) or its
# square root (euclidean), accumulated left to right from 0.
def _inner_body(rec, a1, b1, a2, b2, j):
    d = vsub(z3.Select(a1, b1 + j - 1), z3.Select(a2, b2 + j - 1))
    return z3.If(j <= 0, vzero, vadd(rec(a1, b1, a2, b2, j - 1), vmul(d, d)))


InnerNdf, innernd_axioms = fuel_function('InnerNd', [AV, IntS, AV, IntS, IntS], Val, _inner_body)


def _ednd_body(rec, a1, o1, n1, a2, o2, n2, nd, metric, k):
    b1 = o1 + _clamp(k - 1, n1) * nd
    b2 = o2 + _clamp(k - 1, n2) * nd
    t = InnerNdf(a1, b1, a2, b2, nd)
    t = z3.If(metric == 0, t, vsqrt(t))
    return z3.If(k <= 0, vzero, vadd(rec(a1, o1, n1, a2, o2, n2, nd, metric, k - 1), t))


EDsumNdf, edsumnd_axioms = fuel_function('EDsumNd', [AV, IntS, IntS, AV, IntS, IntS, IntS, IntS, IntS], Val, _ednd_body)


def _innernd(ex, st, s1, b1, s2, b2, j):
    a1, o1 = series_parts(ex, st, s1)
    a2, o2 = series_parts(ex, st, s2)
    return InnerNdf(a1, o1 + zint(b1), a2, o2 + zint(b2), zint(j))


def _edsumnd(ex, st, s1, n1, s2, n2, nd, metric, k):
    a1, o1 = series_parts(ex, st, s1)
    a2, o2 = series_parts(ex, st, s2)
    return EDsumNdf(a1, o1, zint(n1), a2, o2, zint(n2), zint(nd), zint(metric), zint(k))


def _py_innernd(ex, st, s1, b1, s2, b2, j):
    a, b = _py_items(ex, st, s1), _py_items(ex, st, s2)
    t = 0
    for d in range(j):
        t = t + (a[b1 + d] - b[b2 + d]) * (a[b1 + d] - b[b2 + d])
    return t


def _py_edsumnd(ex, st, s1, n1, s2, n2, nd, metric, k):
    import math
    t = 0
    for i in range(k):
        x = _py_innernd(ex, st, s1, min(i, n1 - 1) * nd, s2, min(i, n2 - 1) * nd, nd)
        t = t + (x if metric == 0 else math.sqrt(x))
    return t


spec('InnerNd', z3=_innernd, py=_py_innernd, doc='sum over the first j dimensions of the squared differences of two points')
spec('EDsumNd', z3=_edsumnd, py=_py_edsumnd, doc='padded multivariate Euclidean partial sum of the first k points')
THEORIES['bounds'] = lambda: edsum_axioms() + pow2_axiom() + innernd_axioms() + edsumnd_axioms()


# ---------------------------------------------------------------------------------------------
# LB_Keogh.  Row i of the band (DTWSettings.window: "maximal shift from the two diagonals smaller
# than this number") holds the columns j with  i - max(0,l1-l2) - w < j < i + max(0,l2-l1) + w,
# 0 <= j < l2, i.e. [JS(i), JE(i)).  U_i / L_i are the maximum / minimum of s2 over that window,
# folded left to right (the first extremal element wins, as Python's max/min and the C loops do).
from dvc.vals import vlt, vinf, vninf


def max2(x, y):
    return z3.If(vlt(x, y), y, x)


def min2(x, y):
    return z3.If(vlt(y, x), y, x)


WinMaxf, winmax_axioms = fuel_function(
    'WinMax', [AV, IntS, IntS], Val,
    lambda rec, a, lo, hi: z3.If(hi <= lo + 1, z3.Select(a, lo), max2(rec(a, lo, hi - 1), z3.Select(a, hi - 1))))
WinMinf, winmin_axioms = fuel_function(
    'WinMin', [AV, IntS, IntS], Val,
    lambda rec, a, lo, hi: z3.If(hi <= lo + 1, z3.Select(a, lo), min2(rec(a, lo, hi - 1), z3.Select(a, hi - 1))))


def JS(i, l1, l2, w):
    d1 = z3.If(l1 > l2, l1 - l2, 0)
    x = i - d1 - w + 1
    return z3.If(x > 0, x, 0)


def JE(i, l1, l2, w):
    d2 = z3.If(l2 > l1, l2 - l1, 0)
    x = i + d2 + w
    return z3.If(x < l2, x, l2)


def _lbsum_body(rec, a1, o1, l1, a2, o2, l2, w, metric, k):
    i = k - 1
    prev = rec(a1, o1, l1, a2, o2, l2, w, metric, k - 1)
    lo = o2 + JS(i, l1, l2, w)
    hi = o2 + JE(i, l1, l2, w)
    U = WinMaxf(a2, lo, hi)
    L = WinMinf(a2, lo, hi)
    ci = z3.Select(a1, o1 + i)
    return z3.If(k <= 0, vzero,
                 z3.If(vlt(U, ci), vadd(prev, idist_term(metric, ci, U)),
                       z3.If(vlt(ci, L), vadd(prev, idist_term(metric, ci, L)), prev)))


LBsumf, lbsum_axioms = fuel_function('LBsum', [AV, IntS, IntS, AV, IntS, IntS, IntS, IntS, IntS], Val, _lbsum_body)


def float_sym_axioms():
    """IEEE facts (round-to-nearest is sign-symmetric): (a-b)*(a-b) == (b-a)*(b-a); |a-b| == b-a for a < b."""
    a, b = z3.Consts('fs_a fs_b', Val)
    return [z3.ForAll([a, b], vmul(vsub(a, b), vsub(a, b)) == vmul(vsub(b, a), vsub(b, a)),
                      patterns=[vmul(vsub(a, b), vsub(a, b))]),
            z3.ForAll([a, b], z3.Implies(vlt(a, b), vabs(vsub(a, b)) == vsub(b, a)), patterns=[vabs(vsub(a, b))])]


def float_gap_axioms():
    """IEEE facts (non-NaN doubles, round-to-nearest) behind "a value further away has a larger point distance":
    rounded subtraction is monotone in its first and antitone in its second argument, x - y is not negative when y <= x,
    squaring is monotone on non-negative values, |v| == v for v >= 0 and |a - b| == |b - a|, (a-b)^2 == (b-a)^2."""
    a, b, cc = z3.Consts('fg_a fg_b fg_c', Val)
    le = lambda p, q: z3.Not(vlt(q, p))       # noqa: E731
    return float_sym_axioms() + [
        z3.ForAll([a, b, cc], z3.Implies(le(a, b), le(vsub(cc, b), vsub(cc, a))), patterns=[z3.MultiPattern(vsub(cc, b), vsub(cc, a))]),
        z3.ForAll([a, b, cc], z3.Implies(le(a, b), le(vsub(a, cc), vsub(b, cc))), patterns=[z3.MultiPattern(vsub(a, cc), vsub(b, cc))]),
        z3.ForAll([a, b], z3.Implies(le(b, a), le(vzero, vsub(a, b))), patterns=[vsub(a, b)]),
        z3.ForAll([a, b], z3.Implies(z3.And(le(vzero, a), le(a, b)), le(vmul(a, a), vmul(b, b))), patterns=[z3.MultiPattern(vmul(a, a), vmul(b, b))]),
        z3.ForAll([a], z3.Implies(le(vzero, a), vabs(a) == a), patterns=[vabs(a)]),
        z3.ForAll([a, b], vabs(vsub(a, b)) == vabs(vsub(b, a)), patterns=[vabs(vsub(a, b))]),
    ]


def _lbsum(ex, st, s1, l1, s2, l2, w, metric, k):
    a1, o1 = series_parts(ex, st, s1)
    a2, o2 = series_parts(ex, st, s2)
    return LBsumf(a1, o1, zint(l1), a2, o2, zint(l2), zint(w), zint(metric), zint(k))


def _winmax(ex, st, s, lo, hi):
    a, o = series_parts(ex, st, s)
    return WinMaxf(a, o + zint(lo), o + zint(hi))


def _winmin(ex, st, s, lo, hi):
    a, o = series_parts(ex, st, s)
    return WinMinf(a, o + zint(lo), o + zint(hi))


def _py_lbsum(ex, st, s1, l1, s2, l2, w, metric, k):
    a, b = _py_items(ex, st, s1), _py_items(ex, st, s2)
    t = 0
    for i in range(k):
        # straight from the band definition
        cols = [j for j in range(l2) if i - max(0, l1 - l2) - w < j < i + max(0, l2 - l1) + w]
        U = max(b[j] for j in cols)
        L = min(b[j] for j in cols)
        if a[i] > U:
            t = t + ((a[i] - U) ** 2 if metric == 0 else abs(a[i] - U))
        elif a[i] < L:
            t = t + ((a[i] - L) ** 2 if metric == 0 else abs(a[i] - L))
    return t


spec('LBsum', z3=_lbsum, py=_py_lbsum, doc='LB_Keogh partial sum over the first k elements of s1')
spec('WinMax', z3=_winmax, py=lambda ex, st, s, lo, hi: max(_py_items(ex, st, s)[lo:hi]))
spec('WinMin', z3=_winmin, py=lambda ex, st, s, lo, hi: min(_py_items(ex, st, s)[lo:hi]))
spec('JSrow', z3=lambda ex, st, i, l1, l2, w: JS(zint(i), zint(l1), zint(l2), zint(w)),
     py=lambda ex, st, i, l1, l2, w: max(0, i - max(0, l1 - l2) - w + 1))
spec('JErow', z3=lambda ex, st, i, l1, l2, w: JE(zint(i), zint(l1), zint(l2), zint(w)),
     py=lambda ex, st, i, l1, l2, w: min(l2, i + max(0, l2 - l1) + w))
spec('vneginf', z3=lambda ex, st: vninf, py=lambda ex, st: float('-inf'))
THEORIES['bounds'] = lambda: (edsum_axioms() + pow2_axiom() + innernd_axioms() + edsumnd_axioms() + winmax_axioms()
                              + winmin_axioms() + lbsum_axioms() + float_sym_axioms())
