"""Specification-level DTW result functions.

DTWC(s1, l1, s2, l2, settings) is *the value dtw_distance returns*: an uninterpreted function of the
series contents and every settings field.  For the layout properties (C06, C07) only the fact that
the kernel is a function of its inputs matters; its meaning (optimum over warping paths) is the
postcondition of the kernel's own contract (C01, C02)."""
import z3
from dvc.contracts import spec
from dvc.vals import IntS, BoolS, Val, Ptr, Ref, vlit
from dvc.ops import zint, zbool
from specs.bounds import series_parts, AV

SETTINGS_FIELDS = [('window', IntS), ('max_dist', Val), ('max_step', Val), ('max_length_diff', IntS),
                   ('penalty', Val), ('psi_1b', IntS), ('psi_1e', IntS), ('psi_2b', IntS), ('psi_2e', IntS),
                   ('use_pruning', BoolS), ('only_ub', BoolS), ('inner_dist', IntS), ('window_type', IntS)]

_SIG = [AV, IntS, IntS, AV, IntS, IntS] + [s for _, s in SETTINGS_FIELDS]
DTWCf = z3.Function('DTWC', *(_SIG + [Val]))
_SIGND = [AV, IntS, IntS, AV, IntS, IntS, IntS] + [s for _, s in SETTINGS_FIELDS]
DTWCndf = z3.Function('DTWCnd', *(_SIGND + [Val]))


def settings_terms(ex, st, settings):
    f = st.heap[settings.oid].fields
    out = []
    for n, s in SETTINGS_FIELDS:
        v = f[n]
        out.append(zint(v) if s == IntS else (zbool(v) if s == BoolS else vlit(v)))
    return out


def _dtwc(ex, st, s1, l1, s2, l2, settings):
    a1, o1 = series_parts(ex, st, s1)
    a2, o2 = series_parts(ex, st, s2)
    return DTWCf(a1, o1, zint(l1), a2, o2, zint(l2), *settings_terms(ex, st, settings))


def _dtwcnd(ex, st, s1, l1, s2, l2, ndim, settings):
    a1, o1 = series_parts(ex, st, s1)
    a2, o2 = series_parts(ex, st, s2)
    return DTWCndf(a1, o1, zint(l1), a2, o2, zint(l2), zint(ndim), *settings_terms(ex, st, settings))


spec('DTWC', z3=_dtwc, doc='value returned by the C kernel dtw_distance')
spec('DTWCnd', z3=_dtwcnd, doc='value returned by the C kernel dtw_distance_ndim (that it coincides with '
     'DTWC for ndim = 1 is part of C11, not assumed)')


def _py_dtwc(ex, st, s1, l1, s2, l2, settings):
    return _py_dtwcnd(ex, st, s1, l1, s2, l2, None, settings)


def _py_dtwcnd(ex, st, s1, l1, s2, l2, ndim, settings):
    """Concrete oracle for replay: the real kernel, called natively (modular replay: the caller is
    checked against what the callee actually returns)."""
    from dvc import creplay
    from contracts.gens import fx

    def buf(p, n):
        items = st.heap[p.oid].items[p.off:p.off + n]
        return {'buf': [fx(x) for x in items]}
    f = st.heap[settings.oid].fields
    sj = {'struct': {k: (fx(v) if isinstance(v, float) else v) for k, v in f.items()}}
    args = dict(s1=buf(s1, l1 * (ndim or 1)), l1=l1, s2=buf(s2, l2 * (ndim or 1)), l2=l2, settings=sj)
    name = 'dd_dtw.c::dtw_distance'
    if ndim is not None:
        name = 'dd_dtw.c::dtw_distance_ndim'
        args['ndim'] = ndim
    key = (name, str(args))
    cache = ex.program.__dict__.setdefault('_dtwc_cache', {})
    if key not in cache:
        o = creplay.native_c_calls(ex.program, name, [args])[0]
        cache[key] = float.fromhex(o['result']['f']) if o.get('ok') else float('nan')
    return cache[key]


from dvc.contracts import SPECS
SPECS['DTWC'].py = _py_dtwc
SPECS['DTWCnd'].py = _py_dtwcnd


# ---------------------------------------------------------------------------------------------
# Python side: DTWP(s1, s2, only_ub, options) is *the value dtw.distance returns* for the given
# series contents and keyword options (an uninterpreted function; its meaning is C01's contract).
from dvc.vals import Opt, is_int, is_val, is_bool, FuncV
from dvc.ops import truth, b_not
from dvc.state import Unsupported

OPTION_KEYS = ['window', 'use_pruning', 'max_dist', 'max_step', 'max_length_diff', 'penalty', 'psi',
               'inner_dist', 'use_ndim', 'use_c']
OPTION_DEFAULTS = dict(window=None, use_pruning=False, max_dist=None, max_step=None, max_length_diff=None,
                       penalty=None, psi=None, inner_dist='squared euclidean', use_ndim=False, use_c=False)
INNER_CODES = {'squared euclidean': 0, 'euclidean': 1}


def encode_option(key, v):
    """Canonical z3 encoding of an option value: list of terms."""
    if key in ('window', 'max_length_diff'):
        if isinstance(v, Opt):
            return [zbool(v.isnone), zint(v.v)]
        return [z3.BoolVal(v is None), zint(0 if v is None else v)]
    if key in ('max_dist', 'max_step', 'penalty'):
        if isinstance(v, Opt):
            return [zbool(v.isnone), vlit(v.v)]
        return [z3.BoolVal(v is None), vlit(0.0 if v is None else v)]
    if key in ('use_pruning', 'use_ndim', 'use_c'):
        return [zbool(truth(v))]
    if key == 'inner_dist':
        if isinstance(v, str):
            if v not in INNER_CODES:
                raise Unsupported('inner_dist %r' % v)
            return [z3.IntVal(INNER_CODES[v])]
        if is_int(v):
            return [zint(v)]
        raise Unsupported('inner_dist value %r' % (v,))
    if key == 'psi':
        if v is None:
            return [z3.IntVal(0)] + [z3.IntVal(0)] * 4
        if isinstance(v, Opt):
            return [z3.If(zbool(v.isnone), 0, 1)] + [z3.If(zbool(v.isnone), 0, zint(v.v))] * 4
        if is_int(v):
            return [z3.IntVal(1)] + [zint(v)] * 4
        if isinstance(v, tuple) and len(v) == 4:
            return [z3.IntVal(2)] + [zint(x) for x in v]
        raise Unsupported('psi value %r' % (v,))
    raise Unsupported('option %s' % key)


_OPT_SORTS = []
for _k in OPTION_KEYS:
    _OPT_SORTS += [t.sort() for t in encode_option(_k, OPTION_DEFAULTS[_k])]
DTWPf = z3.Function('DTWP', *([AV, IntS, AV, IntS, BoolS] + _OPT_SORTS + [Val]))


def option_terms(options):
    out = []
    for k in OPTION_KEYS:
        out += encode_option(k, options.get(k, OPTION_DEFAULTS[k]))
    return out


def _dtwp(ex, st, s1, s2, only_ub, options):
    a1, _ = series_parts(ex, st, s1)
    a2, _ = series_parts(ex, st, s2)
    n1 = zint(ex.bi_len([s1], {}, None, st))
    n2 = zint(ex.bi_len([s2], {}, None, st))
    unknown = set(options) - set(OPTION_KEYS)
    if unknown:
        raise Unsupported('unknown DTW options %s' % sorted(unknown))
    return DTWPf(a1, n1, a2, n2, zbool(truth(only_ub)), *option_terms(options))


def _py_dtwp(ex, st, s1, s2, only_ub, options):
    """Concrete oracle for replay: the real dtw.distance (pure Python, imported in-process from the
    working tree; it needs neither NumPy nor the C extension)."""
    import sys
    import array
    src = ex.program.repo + '/src'
    if src not in sys.path:
        sys.path.insert(0, src)
    import dtaidistance.dtw as real

    def items(v):
        return array.array('d', st.heap[v.oid].items)
    opts = {k: (tuple(v) if isinstance(v, tuple) else v) for k, v in options.items()}
    try:
        return float(real.distance(items(s1), items(s2), only_ub=bool(only_ub), **opts))
    except Exception as e:      # noqa: the exception is the observation
        return ('exc', repr(e))


spec('DTWP', z3=_dtwp, py=_py_dtwp, doc='value returned by the pure-Python dtw.distance')
