"""Specification-level DTW result functions.

DTWC(s1, l1, s2, l2, settings) is *the value dtw_distance returns*: an uninterpreted function of the
series contents and every settings field.  For the layout properties (C06, C07) only the fact that
the kernel is a function of its inputs matters; its meaning (optimum over warping paths) is the
postcondition of the kernel's own contract (C01, C02)."""
import z3
from dvc.contracts import spec
from dvc.vals import IntS, BoolS, Val, Ptr, Ref, vlit
from dvc.ops import zint, zbool
from specs.bounds import series_parts, AV

SETTINGS_FIELDS = [('window', IntS), ('max_dist', Val), ('max_step', Val), ('max_length_diff', IntS),
                   ('penalty', Val), ('psi_1b', IntS), ('psi_1e', IntS), ('psi_2b', IntS), ('psi_2e', IntS),
                   ('use_pruning', BoolS), ('only_ub', BoolS), ('inner_dist', IntS), ('window_type', IntS)]

_SIG = [AV, IntS, IntS, AV, IntS, IntS] + [s for _, s in SETTINGS_FIELDS]
DTWCf = z3.Function('DTWC', *(_SIG + [Val]))
_SIGND = [AV, IntS, IntS, AV, IntS, IntS, IntS] + [s for _, s in SETTINGS_FIELDS]
DTWCndf = z3.Function('DTWCnd', *(_SIGND + [Val]))


def settings_terms(ex, st, settings):
    f = st.heap[settings.oid].fields
    out = []
    for n, s in SETTINGS_FIELDS:
        v = f[n]
        out.append(zint(v) if s == IntS else (zbool(v) if s == BoolS else vlit(v)))
    return out


def _dtwc(ex, st, s1, l1, s2, l2, settings):
    a1, o1 = series_parts(ex, st, s1)
    a2, o2 = series_parts(ex, st, s2)
    return DTWCf(a1, o1, zint(l1), a2, o2, zint(l2), *settings_terms(ex, st, settings))


def _dtwcnd(ex, st, s1, l1, s2, l2, ndim, settings):
    a1, o1 = series_parts(ex, st, s1)
    a2, o2 = series_parts(ex, st, s2)
    return DTWCndf(a1, o1, zint(l1), a2, o2, zint(l2), zint(ndim), *settings_terms(ex, st, settings))


spec('DTWC', z3=_dtwc, doc='value returned by the C kernel dtw_distance')
spec('DTWCnd', z3=_dtwcnd, doc='value returned by the C kernel dtw_distance_ndim (that it coincides with '
     'DTWC for ndim = 1 is part of C11, not assumed)')


def _py_dtwc(ex, st, s1, l1, s2, l2, settings):
    return _py_dtwcnd(ex, st, s1, l1, s2, l2, None, settings)


def _py_dtwcnd(ex, st, s1, l1, s2, l2, ndim, settings):
    """Concrete oracle for replay: the real kernel, called natively (modular replay: the caller is
    checked against what the callee actually returns)."""
    from dvc import creplay
    from contracts.gens import fx

    def buf(p, n):
        items = st.heap[p.oid].items[p.off:p.off + n]
        return {'buf': [fx(x) for x in items]}
    f = st.heap[settings.oid].fields
    sj = {'struct': {k: (fx(v) if isinstance(v, float) else v) for k, v in f.items()}}
    args = dict(s1=buf(s1, l1 * (ndim or 1)), l1=l1, s2=buf(s2, l2 * (ndim or 1)), l2=l2, settings=sj)
    name = 'dd_dtw.c::dtw_distance'
    if ndim is not None:
        name = 'dd_dtw.c::dtw_distance_ndim'
        args['ndim'] = ndim
    key = (name, str(args))
    cache = ex.program.__dict__.setdefault('_dtwc_cache', {})
    if key not in cache:
        o = creplay.native_c_calls(ex.program, name, [args])[0]
        cache[key] = float.fromhex(o['result']['f']) if o.get('ok') else float('nan')
    return cache[key]


from dvc.contracts import SPECS
SPECS['DTWC'].py = _py_dtwc
SPECS['DTWCnd'].py = _py_dtwcnd
