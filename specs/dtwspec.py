"""Specification-level DTW result functions.

DTWC(s1, l1, s2, l2, settings) is *the value dtw_distance returns*: an uninterpreted function of the
series contents and every settings field.  For the layout properties (C06, C07) only the fact that
the kernel is a function of its inputs matters; its meaning (optimum over warping paths) is the
postcondition of the kernel's own contract (C01, C02)."""
import z3
from dvc.contracts import spec
from dvc.vals import IntS, BoolS, Val, Ptr, Ref, vlit
from dvc.ops import zint, zbool
from specs.bounds import series_parts, AV

SETTINGS_FIELDS = [('window', IntS), ('max_dist', Val), ('max_step', Val), ('max_length_diff', IntS),
                   ('penalty', Val), ('psi_1b', IntS), ('psi_1e', IntS), ('psi_2b', IntS), ('psi_2e', IntS),
                   ('use_pruning', BoolS), ('only_ub', BoolS), ('inner_dist', IntS), ('window_type', IntS)]

_SIG = [AV, IntS, IntS, AV, IntS, IntS, IntS] + [s for _, s in SETTINGS_FIELDS]
DTWCf = z3.Function('DTWC', *(_SIG + [Val]))


def settings_terms(ex, st, settings):
    f = st.heap[settings.oid].fields
    out = []
    for n, s in SETTINGS_FIELDS:
        v = f[n]
        out.append(zint(v) if s == IntS else (zbool(v) if s == BoolS else vlit(v)))
    return out


def _dtwc(ex, st, s1, l1, s2, l2, ndim, settings):
    a1, o1 = series_parts(ex, st, s1)
    a2, o2 = series_parts(ex, st, s2)
    return DTWCf(a1, o1, zint(l1), a2, o2, zint(l2), zint(ndim), *settings_terms(ex, st, settings))


spec('DTWC', z3=_dtwc, doc='value returned by the C kernel dtw_distance / dtw_distance_ndim')
