"""Specification theory of DTW (C01, C02, C04, C05, C10, C11, C13).

Matrix coordinates: row 0 and column 0 are the virtual border; cell (i+1, j+1) belongs to the pair
(s1[i], s2[j]).  All quantities are the settings after `inner_val` (squared for the squared-Euclidean
inner distance).

    band(i, j)    <=>  i - max(0, r-c) - w  <  j  <  i + max(0, c-r) + w        (DTWSettings.window doc)
    allowed(i, j) <=>  band(i, j)  and not  cost(i, j) > max_step
    W(0, j)       =    0 if j <= psi_2b else inf
    W(i, 0)       =    0 if i <= psi_1b else inf                                  (i >= 1)
    W(i+1, j+1)   =    cost(i,j) (+) min3(W(i,j), W(i,j+1) (+) pen, W(i+1,j) (+) pen)   if allowed(i, j)
                       inf                                                              otherwise
    D             =    min( min_{k <= psi_1e} W(r-k, c),  min_{k <= psi_2e} W(r, c-k) )
    distance      =    result_fn(D)

(+) is rounded double addition in the operand order of both engines; min3 keeps the first minimal
argument (Python's min / the C if-chain).  That W is the optimum over all admissible warping paths
is lemma L1 (specs/lean/Bellman.lean, for any linear order with monotone addition).
"""
import z3
from dvc.contracts import spec, THEORIES, fuel_function
from dvc.vals import (IntS, BoolS, Val, vadd, vsub, vmul, vabs, vsqrt, vlt, vinf, vninf, vzero, vlit, Opt, Ptr, Ref,
                      is_cint)
from dvc.ops import zint, zbool, truth
from dvc.state import Unsupported
from specs.bounds import AV, series_parts, idist_term, min2

# context: a1 o1 r  a2 o2 c  w  pen  mstep  psi_1b psi_2b  metric
CTX_SORTS = [AV, IntS, IntS, AV, IntS, IntS, IntS, Val, Val, IntS, IntS, IntS]


def band(i, j, r, c, w):
    d1 = z3.If(r > c, r - c, 0)
    d2 = z3.If(c > r, c - r, 0)
    return z3.And(i - d1 - w < j, j < i + d2 + w, 0 <= j, j < c, 0 <= i, i < r)


def cost_term(ctx, i, j):
    a1, o1, r, a2, o2, c, w, pen, mstep, p1b, p2b, metric = ctx
    return idist_term(metric, z3.Select(a1, o1 + i), z3.Select(a2, o2 + j))


def allowed(ctx, i, j):
    a1, o1, r, a2, o2, c, w, pen, mstep, p1b, p2b, metric = ctx
    return z3.And(band(i, j, r, c, w), z3.Not(vlt(mstep, cost_term(ctx, i, j))))


def min3(a, b, c):
    return min2(min2(a, b), c)


def _w_body(rec, *args):
    ctx = args[:12]
    i, j = args[12], args[13]
    a1, o1, r, a2, o2, c, w, pen, mstep, p1b, p2b, metric = ctx
    inner = z3.If(allowed(ctx, i - 1, j - 1),
                  vadd(cost_term(ctx, i - 1, j - 1),
                       min3(rec(*ctx, i - 1, j - 1), vadd(rec(*ctx, i - 1, j), pen), vadd(rec(*ctx, i, j - 1), pen))),
                  vinf)
    return z3.If(i <= 0, z3.If(z3.And(j >= 0, j <= p2b), vzero, vinf),
                 z3.If(j <= 0, z3.If(z3.And(j == 0, i <= p1b), vzero, vinf), inner))


Wf, w_axioms = fuel_function('W', CTX_SORTS + [IntS, IntS], Val, _w_body, fuel=1)

THEORIES['dtw'] = lambda: w_axioms()


def adj(metric, v):
    """inner_val: squared for squared Euclidean"""
    return z3.If(metric == 0, vmul(v, v), v)


def opt_val(v):
    """(isnone, term) of an optional float option"""
    if v is None:
        return z3.BoolVal(True), vzero
    if isinstance(v, Opt):
        return zbool(v.isnone), vlit(v.v)
    return z3.BoolVal(False), vlit(v)


def make_ctx(ex, st, s1, s2, window, penalty, max_step, psi_1b, psi_2b, metric):
    a1, o1 = series_parts(ex, st, s1)
    a2, o2 = series_parts(ex, st, s2)
    r = zint(ex.bi_len([s1], {}, None, st))
    c = zint(ex.bi_len([s2], {}, None, st))
    m = zint(metric)
    if window is None:
        w = z3.If(r > c, r, c)
    elif isinstance(window, Opt):
        w = z3.If(zbool(window.isnone), z3.If(r > c, r, c), zint(window.v))
    else:
        w = zint(window)
    pn, pv = opt_val(penalty)
    pen = z3.If(z3.Or(pn, pv == vzero), vzero, adj(m, pv))
    sn, sv = opt_val(max_step)
    mstep = z3.If(z3.Or(sn, sv == vzero), vinf, adj(m, sv))
    return (a1, o1, r, a2, o2, c, w, pen, mstep, zint(psi_1b), zint(psi_2b), m)


def _ctx(ex, st, s1, s2, window, penalty, max_step, psi_1b, psi_2b, metric):
    return ('dtwctx',) + make_ctx(ex, st, s1, s2, window, penalty, max_step, psi_1b, psi_2b, metric)


def cur_ctx(ex):
    c = ex.spec_env.get('ctx')
    if not (isinstance(c, tuple) and c and c[0] == 'dtwctx'):
        raise Unsupported('W(...) needs a bound ghost `ctx` = DTWctx(...) in the contract')
    return c[1:]


spec('DTWctx', z3=_ctx, doc='specification context of one DTW problem (series, window, penalty, max_step, begin-psi, metric)')
spec('W', z3=lambda ex, st, i, j: Wf(*cur_ctx(ex), zint(i), zint(j)), doc='accumulated-cost recurrence')
spec('Pen', z3=lambda ex, st: cur_ctx(ex)[7], doc='penalty after inner_val')
spec('MaxStep', z3=lambda ex, st: cur_ctx(ex)[8], doc='max_step after inner_val (inf when off)')
spec('Wnd', z3=lambda ex, st: cur_ctx(ex)[6], doc='window after the None -> max(len) default')
spec('InBand', z3=lambda ex, st, i, j: band(zint(i), zint(j), cur_ctx(ex)[2], cur_ctx(ex)[5], cur_ctx(ex)[6]))
spec('Cost', z3=lambda ex, st, i, j: cost_term(cur_ctx(ex), zint(i), zint(j)))
spec('vsqrt_if', z3=lambda ex, st, metric, x: z3.If(zint(metric) == 0, vsqrt(vlit(x)), vlit(x)),
     doc='result_fn: square root for the squared-Euclidean inner distance, identity for Euclidean')
