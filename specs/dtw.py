"""Specification theory of DTW (C01, C02, C04, C05, C10, C11, C13).

Matrix coordinates: row 0 and column 0 are the virtual border; cell (i+1, j+1) belongs to the pair
(s1[i], s2[j]).  All quantities are the settings after `inner_val` (squared for the squared-Euclidean
inner distance).

    band(i, j)    <=>  i - max(0, r-c) - w  <  j  <  i + max(0, c-r) + w        (DTWSettings.window doc)
    allowed(i, j) <=>  band(i, j)  and not  cost(i, j) > max_step
    W(0, j)       =    0 if j <= psi_2b else inf
    W(i, 0)       =    0 if i <= psi_1b else inf                                  (i >= 1)
    W(i+1, j+1)   =    cost(i,j) (+) min3(W(i,j), W(i,j+1) (+) pen, W(i+1,j) (+) pen)   if allowed(i, j)
                       inf                                                              otherwise
    D             =    min( min_{k <= psi_1e} W(r-k, c),  min_{k <= psi_2e} W(r, c-k) )
    distance      =    result_fn(D)

(+) is rounded double addition in the operand order of both engines; min3 keeps the first minimal
argument (Python's min / the C if-chain).  That W is the optimum over all admissible warping paths
is lemma L1 (specs/lean/Bellman.lean, for any linear order with monotone addition).
"""
import z3
from dvc.contracts import spec, THEORIES, fuel_function
from dvc.vals import (IntS, BoolS, Val, vadd, vsub, vmul, vabs, vsqrt, vlt, vinf, vninf, vzero, vlit, Opt, Ptr, Ref,
                      is_cint)
from dvc.ops import zint, zbool, truth
from dvc.state import Unsupported
from specs.bounds import AV, series_parts, idist_term, min2

# context: a1 o1 r  a2 o2 c  w  pen  mstep  psi_1b psi_2b  metric
CTX_SORTS = [AV, IntS, IntS, AV, IntS, IntS, IntS, Val, Val, IntS, IntS, IntS, IntS]
NCTX = len(CTX_SORTS)   # ... metric, ndim (0 = univariate)


def band(i, j, r, c, w):
    d1 = z3.If(r > c, r - c, 0)
    d2 = z3.If(c > r, c - r, 0)
    return z3.And(i - d1 - w < j, j < i + d2 + w, 0 <= j, j < c, 0 <= i, i < r)


def cost_term(ctx, i, j):
    a1, o1, r, a2, o2, c, w, pen, mstep, p1b, p2b, metric, nd = ctx
    from specs.bounds import InnerNdf
    uni = idist_term(metric, z3.Select(a1, o1 + i), z3.Select(a2, o2 + j))
    inner = InnerNdf(a1, o1 + i * nd, a2, o2 + j * nd, nd)
    return z3.If(nd == 0, uni, z3.If(metric == 0, inner, vsqrt(inner)))


def allowed(ctx, i, j):
    a1, o1, r, a2, o2, c, w, pen, mstep, p1b, p2b, metric, nd = ctx
    return z3.And(band(i, j, r, c, w), z3.Not(vlt(mstep, cost_term(ctx, i, j))))


def min3(a, b, c):
    return min2(min2(a, b), c)


def _w_body(rec, *args):
    ctx = args[:NCTX]
    i, j = args[NCTX], args[NCTX + 1]
    a1, o1, r, a2, o2, c, w, pen, mstep, p1b, p2b, metric, nd = ctx
    inner = z3.If(allowed(ctx, i - 1, j - 1),
                  vadd(cost_term(ctx, i - 1, j - 1),
                       min3(rec(*ctx, i - 1, j - 1), vadd(rec(*ctx, i - 1, j), pen), vadd(rec(*ctx, i, j - 1), pen))),
                  vinf)
    return z3.If(i <= 0, z3.If(z3.And(j >= 0, j <= p2b), vzero, vinf),
                 z3.If(j <= 0, z3.If(z3.And(j == 0, i <= p1b), vzero, vinf), inner))


Wf, w_axioms = fuel_function('W', CTX_SORTS + [IntS, IntS], Val, _w_body, fuel=1)

THEORIES['dtw'] = lambda: w_axioms()


def adj(metric, v):
    """inner_val: squared for squared Euclidean"""
    return z3.If(metric == 0, vmul(v, v), v)


def opt_val(v):
    """(isnone, term) of an optional float option"""
    if v is None:
        return z3.BoolVal(True), vzero
    if isinstance(v, Opt):
        return zbool(v.isnone), vlit(v.v)
    return z3.BoolVal(False), vlit(v)


def make_ctx(ex, st, s1, s2, window, penalty, max_step, psi_1b, psi_2b, metric, ndim=0):
    a1, o1 = series_parts(ex, st, s1)
    a2, o2 = series_parts(ex, st, s2)
    r = zint(ex.bi_len([s1], {}, None, st))
    c = zint(ex.bi_len([s2], {}, None, st))
    m = zint(metric)
    if window is None:
        w = z3.If(r > c, r, c)
    elif isinstance(window, Opt):
        w = z3.If(zbool(window.isnone), z3.If(r > c, r, c), zint(window.v))
    else:
        w = zint(window)
    pn, pv = opt_val(penalty)
    pen = z3.If(z3.Or(pn, pv == vzero), vzero, adj(m, pv))
    sn, sv = opt_val(max_step)
    mstep = z3.If(z3.Or(sn, sv == vzero), vinf, adj(m, sv))
    return (a1, o1, r, a2, o2, c, w, pen, mstep, zint(psi_1b), zint(psi_2b), m, zint(ndim))


class CtxValue(tuple):
    """('dtwctx', a1, o1, r, ...) with `defs`: equalities that name the derived components
    (window default, transformed penalty / max_step) by constants, so that W(ctx, i, j) is a legal
    E-matching pattern (no `if` inside)."""
    defs = ()


_CTX_UID = [0]


def _ctx(ex, st, s1, s2, window, penalty, max_step, psi_1b, psi_2b, metric, ndim=0):
    raw = make_ctx(ex, st, s1, s2, window, penalty, max_step, psi_1b, psi_2b, metric, ndim)
    names = ['a1', 'o1', 'r', 'a2', 'o2', 'c', 'w', 'pen', 'mstep', 'p1b', 'p2b', 'metric', 'nd']
    out, defs = [], []
    # every evaluation names its derived components afresh, so that a caller's context and the context of a callee
    # contract bound at a call site never share a constant
    _CTX_UID[0] += 1
    uid = _CTX_UID[0]
    for n, t in zip(names, raw):
        if z3.is_const(t) or z3.is_int_value(t):
            out.append(t)
        else:
            k = z3.Const('ctx%d_%s' % (uid, n), t.sort())
            defs.append(k == t)
            out.append(k)
    v = CtxValue(('dtwctx',) + tuple(out))
    v.defs = defs
    return v


def cur_ctx(ex):
    c = ex.spec_env.get('ctx')
    if not (isinstance(c, tuple) and c and c[0] == 'dtwctx'):
        raise Unsupported('W(...) needs a bound ghost `ctx` = DTWctx(...) in the contract')
    return c[1:]


spec('DTWctx', z3=_ctx, doc='specification context of one DTW problem (series, window, penalty, max_step, begin-psi, metric)')
spec('W', z3=lambda ex, st, i, j: Wf(*cur_ctx(ex), zint(i), zint(j)), doc='accumulated-cost recurrence')
spec('Pen', z3=lambda ex, st: cur_ctx(ex)[7], doc='penalty after inner_val')
spec('MaxStep', z3=lambda ex, st: cur_ctx(ex)[8], doc='max_step after inner_val (inf when off)')
spec('Wnd', z3=lambda ex, st: cur_ctx(ex)[6], doc='window after the None -> max(len) default')
spec('InBand', z3=lambda ex, st, i, j: band(zint(i), zint(j), cur_ctx(ex)[2], cur_ctx(ex)[5], cur_ctx(ex)[6]))
spec('Cost', z3=lambda ex, st, i, j: cost_term(cur_ctx(ex), zint(i), zint(j)))
spec('vsqrt_if', z3=lambda ex, st, metric, x: z3.If(zint(metric) == 0, vsqrt(vlit(x)), vlit(x)),
     doc='result_fn: square root for the squared-Euclidean inner distance, identity for Euclidean')


# ---------------------------------------------------------------------------------------------
# End-of-series psi relaxation.
#   PsiCol(k)  : best last-column value W(i+1, c) over the rows i < k that may end the path
#                (r-1-i <= psi_1e and the row's band reaches column c), folded top to bottom;
#   WRowMin    : left fold of min over W(row, col), col in [lo, hi);
#   Dend       : the value the distance is read from.
from dvc.contracts import induction_lemma, LEMMAS
from specs.bounds import JE, JS, WinMinf, winmin_axioms


def _psicol_body(rec, *args):
    ctx, p1e, k = args[:NCTX], args[NCTX], args[NCTX + 1]
    a1, o1, r, a2, o2, c, w, pen, mstep, p1b, p2b, metric, nd = ctx
    i = k - 1
    prev = rec(*ctx, p1e, k - 1)
    cond = z3.And(p1e != 0, JE(i, r, c, w) == c, r - 1 - i <= p1e)
    return z3.If(k <= 0, vinf, z3.If(cond, min2(prev, Wf(*ctx, i + 1, c)), prev))


PsiColf, psicol_axioms = fuel_function('PsiCol', CTX_SORTS + [IntS, IntS], Val, _psicol_body, fuel=1)


def _wrowmin_body(rec, *args):
    ctx, row, lo, hi = args[:NCTX], args[NCTX], args[NCTX + 1], args[NCTX + 2]
    return z3.If(hi <= lo + 1, Wf(*ctx, row, lo), min2(rec(*ctx, row, lo, hi - 1), Wf(*ctx, row, hi - 1)))


WRowMinf, wrowmin_axioms = fuel_function('WRowMin', CTX_SORTS + [IntS, IntS, IntS], Val, _wrowmin_body, fuel=1)


def dend_term(ctx, p1e, p2e):
    a1, o1, r, a2, o2, c, w, pen, mstep, p1b, p2b, metric, nd = ctx
    lo = c - p2e          # the property statement: any end column within psi_2e of the corner
    return z3.If(z3.And(p1e == 0, p2e == 0), Wf(*ctx, r, c),
                 z3.If(p2e != 0, min2(WRowMinf(*ctx, r, lo, c + 1), PsiColf(*ctx, p1e, r)),
                       min2(Wf(*ctx, r, c), PsiColf(*ctx, p1e, r))))


THEORIES['dtw'] = lambda: w_axioms() + psicol_axioms() + wrowmin_axioms() + winmin_axioms()

spec('PsiCol', z3=lambda ex, st, p1e, k: PsiColf(*cur_ctx(ex), zint(p1e), zint(k)))
spec('WRowMin', z3=lambda ex, st, row, lo, hi: WRowMinf(*cur_ctx(ex), zint(row), zint(lo), zint(hi)))
spec('Dend', z3=lambda ex, st, p1e, p2e: dend_term(cur_ctx(ex), zint(p1e), zint(p2e)),
     doc='accumulated cost the distance is read from: the psi-relaxed end of the matrix')

# Lemma BufFold: a window of a buffer that stores W(row, .) with a column offset folds to WRowMin.
_ctxc = [z3.Const('bf_c%d' % i, s) for i, s in enumerate(CTX_SORTS)]
_buf = z3.Const('bf_buf', AV)
_off, _row, _lo, _hi, _col = z3.Ints('bf_off bf_row bf_lo bf_hi bf_col')
induction_lemma(
    'BufFold', _ctxc + [_buf, _off, _row, _lo], _hi, _lo + 1,
    hyp=lambda k: z3.ForAll([_col], z3.Implies(z3.And(_lo <= _col, _col < k),
                                               z3.Select(_buf, _off + _col) == Wf(*_ctxc, _row, _col)),
                            patterns=[Wf(*_ctxc, _row, _col)]),
    prop=lambda k: WinMinf(_buf, _off + _lo, _off + k) == WRowMinf(*_ctxc, _row, _lo, k),
    patterns=lambda k: [z3.MultiPattern(WinMinf(_buf, _off + _lo, _off + k), WRowMinf(*_ctxc, _row, _lo, k))],
    doc='the left-fold minimum of buffer cells holding W(row, lo..hi) is WRowMin(row, lo, hi)',
    axioms=wrowmin_axioms() + winmin_axioms(), props=('C01', 'C04'))

from dvc.vals import order_axioms  # noqa: E402

_lo2 = z3.Int('bf_lo2')
induction_lemma(
    'RowAllInf', _ctxc + [_row, _lo], _hi, _lo + 1,
    hyp=lambda k: z3.ForAll([_col], z3.Implies(z3.And(_lo <= _col, _col < k), Wf(*_ctxc, _row, _col) == vinf),
                            patterns=[Wf(*_ctxc, _row, _col)]),
    prop=lambda k: WRowMinf(*_ctxc, _row, _lo, k) == vinf,
    patterns=lambda k: [WRowMinf(*_ctxc, _row, _lo, k)],
    doc='a stretch of infinite cells folds to infinity', axioms=wrowmin_axioms(), props=('C01', 'C04'))
induction_lemma(
    'RowLeadInf', _ctxc + [_row, _lo, _lo2], _hi, _lo2 + 1,
    hyp=lambda k: z3.And(_lo < _lo2, z3.ForAll([_col], z3.Implies(z3.And(_lo <= _col, _col < _lo2),
                                                                  Wf(*_ctxc, _row, _col) == vinf),
                                               patterns=[Wf(*_ctxc, _row, _col)])),
    prop=lambda k: WRowMinf(*_ctxc, _row, _lo, k) == WRowMinf(*_ctxc, _row, _lo2, k),
    patterns=lambda k: [z3.MultiPattern(WRowMinf(*_ctxc, _row, _lo, k), WRowMinf(*_ctxc, _row, _lo2, k))],
    doc='infinite cells to the left of the band do not change the minimum over the relaxed end of the last row',
    axioms=wrowmin_axioms() + order_axioms() + LEMMAS['RowAllInf'].axioms(), props=('C01', 'C04'))

# BufFold in E-matching-friendly form: the window is given by its two end positions p, q.
from dvc.contracts import Lemma  # noqa: E402
from dvc.state import Obligation  # noqa: E402

_p, _q = z3.Ints('bf_p bf_q')


def _buffold2_axiom():
    hyp = z3.And(_q - _p == _hi - _lo, _lo < _hi,
                 z3.ForAll([_col], z3.Implies(z3.And(_lo <= _col, _col < _hi),
                                              z3.Select(_buf, _p + (_col - _lo)) == Wf(*_ctxc, _row, _col)),
                           patterns=[Wf(*_ctxc, _row, _col)]))
    return [z3.ForAll(_ctxc + [_buf, _p, _q, _row, _lo, _hi],
                      z3.Implies(hyp, WinMinf(_buf, _p, _q) == WRowMinf(*_ctxc, _row, _lo, _hi)),
                      patterns=[z3.MultiPattern(WinMinf(_buf, _p, _q), WRowMinf(*_ctxc, _row, _lo, _hi))])]


def _buffold2_obligations():
    # follows from BufFold with off := p - lo
    ax = _buffold2_axiom()[0]
    body = ax.body()
    # instantiate the bound variables with the constants themselves
    inst = z3.substitute_vars(body, *reversed(_ctxc + [_buf, _p, _q, _row, _lo, _hi]))
    off = _p - _lo
    direct = z3.Implies(
        z3.And(_lo < _hi, z3.ForAll([_col], z3.Implies(z3.And(_lo <= _col, _col < _hi),
                                                        z3.Select(_buf, off + _col) == Wf(*_ctxc, _row, _col)),
                                    patterns=[Wf(*_ctxc, _row, _col)])),
        WinMinf(_buf, off + _lo, off + _hi) == WRowMinf(*_ctxc, _row, _lo, _hi))
    return [Obligation('lemma:BufFold2::from-BufFold', 'lemma', [direct], inst, 'lemma:BufFold2', props=('C01', 'C04'),
                       note='position form of BufFold (instance off = p - lo)', axioms=[])]


def _buffold_instance_obligation():
    return []


LEMMAS['BufFold2'] = Lemma('BufFold2', _buffold2_axiom, _buffold2_obligations,
                           doc='BufFold stated over the end positions of the buffer window (arithmetic-free trigger)')


# ---------------------------------------------------------------------------------------------
# C engine: context from the DTWSettings struct (0 encodes "option off"); `metric` is the inner
# distance of the *kernel variant* (0: dtw_distance / _ndim, 1: *_euclidean).
def _ctx_c(ex, st, s1, l1, s2, l2, settings, metric, ndim=0):
    a1, o1 = series_parts(ex, st, s1)
    a2, o2 = series_parts(ex, st, s2)
    f = st.heap[settings.oid].fields
    r, c = zint(l1), zint(l2)
    m = zint(metric)
    wnd = zint(f['window'])
    w = z3.If(wnd == 0, z3.If(r > c, r, c), wnd)
    p = vlit(f['penalty'])
    pen = adj(m, p)
    ms = vlit(f['max_step'])
    mstep = z3.If(ms == vzero, vinf, adj(m, ms))
    raw = (a1, o1, r, a2, o2, c, w, pen, mstep, zint(f['psi_1b']), zint(f['psi_2b']), m, zint(ndim))
    names = ['a1', 'o1', 'r', 'a2', 'o2', 'c', 'w', 'pen', 'mstep', 'p1b', 'p2b', 'metric', 'nd']
    out, defs = [], []
    for n, t in zip(names, raw):
        if z3.is_const(t) or z3.is_int_value(t):
            out.append(t)
        else:
            k = z3.Const('ctx_' + n, t.sort())
            defs.append(k == t)
            out.append(k)
    v = CtxValue(('dtwctx',) + tuple(out))
    v.defs = defs
    return v


spec('DTWctxC', z3=_ctx_c, doc='specification context of one DTW problem built from the C settings struct')


def float_zero_axioms():
    """IEEE: 0*0 == 0 and x + 0 == x for the non-NaN doubles in play (used for penalty == 0)."""
    x = z3.Const('fz_x', Val)
    return [vmul(vzero, vzero) == vzero, z3.ForAll([x], vadd(x, vzero) == x, patterns=[vadd(x, vzero)])]


THEORIES['floatzero'] = float_zero_axioms


def float_one_axioms():
    """IEEE: x * 1 == x"""
    x = z3.Const('fo_x', Val)
    return [z3.ForAll([x], vmul(x, vlit(1)) == x, patterns=[vmul(x, vlit(1))])]


THEORIES['floatone'] = float_one_axioms


# C's end-of-row scan: `if (cell < acc) acc = cell` from an initial accumulator.
def cmin(acc, cell):
    return z3.If(vlt(cell, acc), cell, acc)


def _foldmin_body(rec, *args):
    ctx, acc, row, lo, hi = args[:NCTX], args[NCTX], args[NCTX + 1], args[NCTX + 2], args[NCTX + 3]
    return z3.If(hi <= lo, acc, cmin(rec(*ctx, acc, row, lo, hi - 1), Wf(*ctx, row, hi - 1)))


FoldMinf, foldmin_axioms = fuel_function('FoldMin', CTX_SORTS + [Val, IntS, IntS, IntS], Val, _foldmin_body, fuel=1)
THEORIES['dtw'] = lambda: w_axioms() + psicol_axioms() + wrowmin_axioms() + winmin_axioms() + foldmin_axioms()
spec('FoldMin', z3=lambda ex, st, acc, row, lo, hi: FoldMinf(*cur_ctx(ex), vlit(acc), zint(row), zint(lo), zint(hi)))

_acc = z3.Const('bf_acc', Val)
induction_lemma(
    'FoldMinIsMin', _ctxc + [_acc, _row, _lo], _hi, _lo + 1,
    hyp=lambda k: z3.BoolVal(True),
    prop=lambda k: FoldMinf(*_ctxc, _acc, _row, _lo, k) == min2(WRowMinf(*_ctxc, _row, _lo, k), _acc),
    patterns=lambda k: [FoldMinf(*_ctxc, _acc, _row, _lo, k)],
    doc='scanning a row with `if (cell < acc) acc = cell` yields min(row minimum, initial accumulator)',
    axioms=foldmin_axioms() + wrowmin_axioms() + order_axioms(), props=('C02',))


def _ndim_of(ex, st, s):
    """number of values per point of a series object (0: univariate)"""
    if isinstance(s, (Ref, Ptr)) and s.oid is not None:
        o = st.heap[s.oid]
        return getattr(o, 'nd', 0)
    return 0


spec('NdimOf', z3=_ndim_of, py=lambda ex, st, s: 0)


# ---------------------------------------------------------------------------------------------
# Concrete evaluators (replay / run-time contract sweep): the same definitions computed with the
# machine's doubles on one concrete input.  `form` fixes how a squared difference is rounded in the
# engine under test (Python: pow(x, 2); C: x * x) -- both are exact on the dyadic test values.
import math as _math  # noqa: E402


class PyCtx:
    tag = 'dtwctx-py'

    def __init__(self, a1, r, a2, c, w, pen, mstep, p1b, p2b, metric, nd, form):
        self.a1, self.r, self.a2, self.c = a1, r, a2, c
        self.w, self.pen, self.mstep, self.p1b, self.p2b, self.metric, self.nd, self.form = w, pen, mstep, p1b, p2b, metric, nd, form
        self.memo = {}

    def point(self, a, i):
        if self.nd == 0:
            return a[i]
        x = a[i]
        if isinstance(x, (list, tuple)):
            return list(x)
        return a[i * self.nd:(i + 1) * self.nd]

    def sq(self, x):
        return x ** 2 if self.form == 'py' else x * x

    def cost(self, i, j):
        x, y = self.point(self.a1, i), self.point(self.a2, j)
        if self.nd == 0:
            return self.sq(x - y) if self.metric == 0 else abs(x - y)
        t = 0.0
        for k in range(self.nd):
            t = t + self.sq(x[k] - y[k])
        return t if self.metric == 0 else _math.sqrt(t)

    def band(self, i, j):
        r, c, w = self.r, self.c, self.w
        return (i - max(0, r - c) - w < j < i + max(0, c - r) + w) and 0 <= j < c and 0 <= i < r

    def allowed(self, i, j):
        return self.band(i, j) and not (self.cost(i, j) > self.mstep)

    def W(self, i, j):
        inf = float('inf')
        if i <= 0:
            return 0.0 if 0 <= j <= self.p2b else inf
        if j <= 0:
            return 0.0 if (j == 0 and i <= self.p1b) else inf
        k = (i, j)
        if k not in self.memo:
            # bottom-up to keep the recursion shallow
            for a in range(1, i + 1):
                for b in range(1, self.c + 1):
                    if (a, b) in self.memo:
                        continue
                    if self.allowed(a - 1, b - 1):
                        v = self.cost(a - 1, b - 1) + min(self.W(a - 1, b - 1), self.W(a - 1, b) + self.pen,
                                                          self.W(a, b - 1) + self.pen)
                    else:
                        v = inf
                    self.memo[(a, b)] = v
            if k not in self.memo:      # column beyond c
                return inf
        return self.memo[k]

    def wrowmin(self, row, lo, hi):
        v = self.W(row, lo)
        for col in range(lo + 1, hi):
            v = min(v, self.W(row, col))
        return v

    def psicol(self, p1e, k):
        r, c, w = self.r, self.c, self.w
        v = float('inf')
        for i in range(0, k):
            je = min(c, i + max(0, c - r) + w)
            if p1e != 0 and je == c and r - 1 - i <= p1e:
                v = min(v, self.W(i + 1, c))
        return v

    def dend(self, p1e, p2e):
        r, c = self.r, self.c
        if p1e == 0 and p2e == 0:
            return self.W(r, c)
        if p2e != 0:
            return min(self.wrowmin(r, c - p2e, c + 1), self.psicol(p1e, r))
        return min(self.W(r, c), self.psicol(p1e, r))

    def foldmin(self, acc, row, lo, hi):
        for col in range(lo, hi):
            x = self.W(row, col)
            if x < acc:
                acc = x
        return acc


def _py_series(ex, st, s):
    from specs.bounds import _py_items
    items = _py_items(ex, st, s)
    return items


def _py_len(ex, st, s):
    o = st.heap[s.oid]
    if getattr(o, 'shape', None) is not None:
        return o.shape[0]
    return len(_py_series(ex, st, s))


def _py_ctx(ex, st, s1, s2, window, penalty, max_step, psi_1b, psi_2b, metric, ndim=0):
    r, c = _py_len(ex, st, s1), _py_len(ex, st, s2)
    w = max(r, c) if window is None else window
    adjf = (lambda x: x * x) if metric == 0 else (lambda x: x)
    pen = 0.0 if not penalty else adjf(penalty)
    mstep = float('inf') if not max_step else adjf(max_step)
    return PyCtx(_py_series(ex, st, s1), r, _py_series(ex, st, s2), c, w, pen, mstep, psi_1b, psi_2b, metric, ndim, 'py')


def _py_ctx_c(ex, st, s1, l1, s2, l2, settings, metric, ndim=0):
    f = st.heap[settings.oid].fields
    r, c = l1, l2
    w = max(r, c) if f['window'] == 0 else f['window']
    adjf = (lambda x: x * x) if metric == 0 else (lambda x: x)
    pen = adjf(f['penalty'])
    mstep = float('inf') if f['max_step'] == 0 else adjf(f['max_step'])
    return PyCtx(_py_series(ex, st, s1), r, _py_series(ex, st, s2), c, w, pen, mstep, f['psi_1b'], f['psi_2b'], metric, ndim, 'c')


def _pc(ex):
    c = ex.spec_env.get('ctx')
    if not isinstance(c, PyCtx):
        raise Unsupported('no concrete DTW context bound')
    return c


def _py_ndim_of(ex, st, s):
    o = st.heap[s.oid]
    if getattr(o, 'shape', None) is not None:
        return o.shape[1]
    return getattr(o, 'nd', 0) or 0


from dvc.contracts import SPECS as _SPECS  # noqa: E402
_SPECS['DTWctx'].py = _py_ctx
_SPECS['DTWctxC'].py = _py_ctx_c
_SPECS['W'].py = lambda ex, st, i, j: _pc(ex).W(i, j)
_SPECS['Pen'].py = lambda ex, st: _pc(ex).pen
_SPECS['MaxStep'].py = lambda ex, st: _pc(ex).mstep
_SPECS['Wnd'].py = lambda ex, st: _pc(ex).w
_SPECS['InBand'].py = lambda ex, st, i, j: _pc(ex).band(i, j)
_SPECS['Cost'].py = lambda ex, st, i, j: _pc(ex).cost(i, j)
_SPECS['vsqrt_if'].py = lambda ex, st, metric, x: _math.sqrt(x) if metric == 0 else x
_SPECS['PsiCol'].py = lambda ex, st, p1e, k: _pc(ex).psicol(p1e, k)
_SPECS['WRowMin'].py = lambda ex, st, row, lo, hi: _pc(ex).wrowmin(row, lo, hi)
_SPECS['Dend'].py = lambda ex, st, p1e, p2e: _pc(ex).dend(p1e, p2e)
_SPECS['FoldMin'].py = lambda ex, st, acc, row, lo, hi: _pc(ex).foldmin(acc, row, lo, hi)
_SPECS['NdimOf'].py = _py_ndim_of


# ---------------------------------------------------------------------------------------------
# Minimum selection by argmin (dtw.warping_paths end-of-series psi): a cell that is minimal among
# W(row, lo..hi) equals the fold WRowMin; a cell minimal among the last-column cells within psi_1e of the
# corner equals the fold PsiCol.  Each from a lower-bound lemma and a greatest-lower-bound lemma.
_v = z3.Const('am_v', Val)
_j = z3.Int('am_j')
_kk = z3.Int('am_k')


def _nlt(a, b):
    return z3.Not(vlt(a, b))


induction_lemma(
    'RowMinLower', _ctxc + [_row, _lo, _j], _hi, _lo + 1,
    hyp=lambda k: z3.And(_lo <= _j, _j < k),
    prop=lambda k: _nlt(Wf(*_ctxc, _row, _j), WRowMinf(*_ctxc, _row, _lo, k)),
    patterns=lambda k: [z3.MultiPattern(WRowMinf(*_ctxc, _row, _lo, k), Wf(*_ctxc, _row, _j))],
    doc='WRowMin(row, lo, hi) is a lower bound of W(row, lo..hi-1)', axioms=wrowmin_axioms() + order_axioms(), props=('C04',))
induction_lemma(
    'RowMinGreatest', _ctxc + [_row, _lo, _v], _hi, _lo + 1,
    hyp=lambda k: z3.ForAll([_j], z3.Implies(z3.And(_lo <= _j, _j < k), _nlt(Wf(*_ctxc, _row, _j), _v)),
                            patterns=[Wf(*_ctxc, _row, _j)]),
    prop=lambda k: _nlt(WRowMinf(*_ctxc, _row, _lo, k), _v),
    patterns=lambda k: [z3.MultiPattern(WRowMinf(*_ctxc, _row, _lo, k), vlt(WRowMinf(*_ctxc, _row, _lo, k), _v))],
    doc='every lower bound of W(row, lo..hi-1) is below WRowMin(row, lo, hi)', axioms=wrowmin_axioms() + order_axioms(), props=('C04',))


def _argminrow_axiom():
    hyp = z3.And(_lo <= _kk, _kk < _hi,
                 z3.ForAll([_j], z3.Implies(z3.And(_lo <= _j, _j < _hi), _nlt(Wf(*_ctxc, _row, _j), Wf(*_ctxc, _row, _kk))),
                           patterns=[Wf(*_ctxc, _row, _j)]))
    return [z3.ForAll(_ctxc + [_row, _lo, _hi, _kk], z3.Implies(hyp, Wf(*_ctxc, _row, _kk) == WRowMinf(*_ctxc, _row, _lo, _hi)),
                      patterns=[z3.MultiPattern(WRowMinf(*_ctxc, _row, _lo, _hi), Wf(*_ctxc, _row, _kk))])]


def _argminrow_obligations():
    body = _argminrow_axiom()[0].body()
    inst = z3.substitute_vars(body, *reversed(_ctxc + [_row, _lo, _hi, _kk]))
    return [Obligation('lemma:ArgMinRow::from-bounds', 'lemma', [], inst, 'lemma:ArgMinRow', props=('C04',),
                       note='a minimal cell equals the fold minimum (lower bound + greatest lower bound + trichotomy)',
                       axioms=LEMMAS['RowMinLower'].axioms() + LEMMAS['RowMinGreatest'].axioms() + order_axioms() + [
                           # make the comparison term of RowMinGreatest available
                           z3.Or(vlt(WRowMinf(*_ctxc, _row, _lo, _hi), Wf(*_ctxc, _row, _kk)),
                                 z3.Not(vlt(WRowMinf(*_ctxc, _row, _lo, _hi), Wf(*_ctxc, _row, _kk))))])]


LEMMAS['ArgMinRow'] = Lemma('ArgMinRow', _argminrow_axiom, _argminrow_obligations,
                            doc='np.argmin over W(row, lo..hi-1) selects the value WRowMin(row, lo, hi)')

# ---- last column: PsiCol(p1e, k) folds the rows i < k with r-1-i <= p1e whose band reaches column c
_p1e = z3.Int('am_p1e')
_i = z3.Int('am_i')
_R, _C, _Wd = _ctxc[2], _ctxc[5], _ctxc[6]


def _incol(i, k):
    return z3.And(0 <= i, i < k, _R - 1 - i <= _p1e)


induction_lemma(
    'PsiColLower', _ctxc + [_p1e, _i], _kk, 0,
    hyp=lambda k: z3.And(_p1e != 0, _incol(_i, k), _C >= 1, _Wd >= 1, k <= _R),
    prop=lambda k: _nlt(Wf(*_ctxc, _i + 1, _C), PsiColf(*_ctxc, _p1e, k)),
    patterns=lambda k: [z3.MultiPattern(PsiColf(*_ctxc, _p1e, k), Wf(*_ctxc, _i + 1, _C))],
    doc='PsiCol(p1e, k) is a lower bound of the last-column cells of the rows within psi_1e of the corner',
    axioms=psicol_axioms() + w_axioms() + order_axioms(), props=('C04',))
induction_lemma(
    'PsiColGreatest', _ctxc + [_p1e, _v], _kk, 0,
    hyp=lambda k: z3.And(_p1e != 0, k <= _R,
                         z3.ForAll([_i], z3.Implies(_incol(_i, k), _nlt(Wf(*_ctxc, _i + 1, _C), _v)), patterns=[Wf(*_ctxc, _i + 1, _C)])),
    prop=lambda k: _nlt(PsiColf(*_ctxc, _p1e, k), _v),
    patterns=lambda k: [z3.MultiPattern(PsiColf(*_ctxc, _p1e, k), vlt(PsiColf(*_ctxc, _p1e, k), _v))],
    doc='every lower bound of those cells is below PsiCol(p1e, k)', axioms=psicol_axioms() + order_axioms(), props=('C04',))


def _argmincol_axiom():
    # the cell at matrix row q (series row q-1) is minimal among the rows max(1, r-p1e) .. r of column c
    q = z3.Int('am_q')
    hyp = z3.And(_p1e != 0, _p1e <= _R, _C >= 1, _Wd >= 1, 1 <= _kk, _R - _p1e <= _kk, _kk <= _R,
                 z3.ForAll([q], z3.Implies(z3.And(1 <= q, _R - _p1e <= q, q <= _R), _nlt(Wf(*_ctxc, q, _C), Wf(*_ctxc, _kk, _C))),
                           patterns=[Wf(*_ctxc, q, _C)]))
    return [z3.ForAll(_ctxc + [_p1e, _kk], z3.Implies(hyp, Wf(*_ctxc, _kk, _C) == PsiColf(*_ctxc, _p1e, _R)),
                      patterns=[z3.MultiPattern(PsiColf(*_ctxc, _p1e, _R), Wf(*_ctxc, _kk, _C))])]


def _argmincol_obligations():
    body = _argmincol_axiom()[0].body()
    inst = z3.substitute_vars(body, *reversed(_ctxc + [_p1e, _kk]))
    return [Obligation('lemma:ArgMinCol::from-bounds', 'lemma', [], inst, 'lemma:ArgMinCol', props=('C04',),
                       note='a minimal last-column cell within psi_1e of the corner equals PsiCol(psi_1e, r)',
                       axioms=LEMMAS['PsiColLower'].axioms() + LEMMAS['PsiColGreatest'].axioms() + order_axioms() + [
                           z3.Or(vlt(PsiColf(*_ctxc, _p1e, _R), Wf(*_ctxc, _kk, _C)),
                                 z3.Not(vlt(PsiColf(*_ctxc, _p1e, _R), Wf(*_ctxc, _kk, _C)))),
                           # the candidate itself as (kk-1)+1
                           Wf(*_ctxc, (_kk - 1) + 1, _C) == Wf(*_ctxc, _kk, _C)])]


LEMMAS['ArgMinCol'] = Lemma('ArgMinCol', _argmincol_axiom, _argmincol_obligations,
                            doc='np.argmin over the last-column cells within psi_1e of the corner selects PsiCol(psi_1e, r)')

induction_lemma(
    'PsiColZero', _ctxc, _kk, 0,
    hyp=lambda k: z3.BoolVal(True),
    prop=lambda k: PsiColf(*_ctxc, z3.IntVal(0), k) == vinf,
    patterns=lambda k: [PsiColf(*_ctxc, z3.IntVal(0), k)],
    doc='without psi_1e no last-column cell is a candidate', axioms=psicol_axioms(), props=('C04',))


# ---- the same selection after the element-wise square root (keep_int_repr=False, squared-Euclidean inner distance)
def sqrt_mono_axioms():
    """IEEE: the correctly rounded square root is monotone (non-NaN operands)."""
    x, y = z3.Consts('sm_x sm_y', Val)
    return [z3.ForAll([x, y], z3.Implies(z3.Not(vlt(y, x)), z3.Not(vlt(vsqrt(y), vsqrt(x)))),
                      patterns=[z3.MultiPattern(vsqrt(x), vsqrt(y))]),
            # the square root of a finite value is finite, of +inf it is +inf
            z3.ForAll([x], z3.Implies(vlt(x, vinf), vlt(vsqrt(x), vinf)), patterns=[vsqrt(x)]),
            vsqrt(vinf) == vinf]


THEORIES['sqrtmono'] = sqrt_mono_axioms


def sqrt_square_axioms():
    """IEEE binary floating point with correctly rounded * and sqrt: sqrt(fl(x*x)) == x for x >= 0 whenever x*x neither
    overflows nor falls into the subnormal range (assumption A3, not machine-checked; the overflow side is the guard below,
    the underflow side -- |x| < 2**-511 -- is treated as mathematical)."""
    x = z3.Const('sq_x', Val)
    return [z3.ForAll([x], z3.Implies(z3.And(z3.Not(vlt(x, vzero)), vlt(vmul(x, x), vinf)), vsqrt(vmul(x, x)) == x),
                      patterns=[vsqrt(vmul(x, x))])]


THEORIES['sqrtsq'] = sqrt_square_axioms


def sqrt_nonneg_axioms():
    """IEEE: the square root of a non-negative (non-NaN) value is not negative; -1 < 0."""
    x = z3.Const('sn_x', Val)
    return [z3.ForAll([x], z3.Implies(z3.Not(vlt(x, vzero)), z3.Not(vlt(vsqrt(x), vzero))), patterns=[vsqrt(x)]),
            vlt(vlit(-1.0), vzero)]


THEORIES['sqrtnonneg'] = sqrt_nonneg_axioms

induction_lemma(
    'RowMinGreatestSqrt', _ctxc + [_row, _lo, _v], _hi, _lo + 1,
    hyp=lambda k: z3.ForAll([_j], z3.Implies(z3.And(_lo <= _j, _j < k), _nlt(vsqrt(Wf(*_ctxc, _row, _j)), _v)),
                            patterns=[Wf(*_ctxc, _row, _j)]),
    prop=lambda k: _nlt(vsqrt(WRowMinf(*_ctxc, _row, _lo, k)), _v),
    patterns=lambda k: [z3.MultiPattern(WRowMinf(*_ctxc, _row, _lo, k), vlt(vsqrt(WRowMinf(*_ctxc, _row, _lo, k)), _v))],
    doc='every lower bound of sqrt(W(row, lo..hi-1)) is below sqrt(WRowMin(row, lo, hi))', axioms=wrowmin_axioms() + order_axioms(),
    props=('C04',))


def _argminrow_sqrt_axiom():
    hyp = z3.And(_lo <= _kk, _kk < _hi,
                 z3.ForAll([_j], z3.Implies(z3.And(_lo <= _j, _j < _hi), _nlt(vsqrt(Wf(*_ctxc, _row, _j)), vsqrt(Wf(*_ctxc, _row, _kk)))),
                           patterns=[Wf(*_ctxc, _row, _j)]))
    return [z3.ForAll(_ctxc + [_row, _lo, _hi, _kk],
                      z3.Implies(hyp, vsqrt(Wf(*_ctxc, _row, _kk)) == vsqrt(WRowMinf(*_ctxc, _row, _lo, _hi))),
                      patterns=[z3.MultiPattern(WRowMinf(*_ctxc, _row, _lo, _hi), vsqrt(Wf(*_ctxc, _row, _kk)))])]


def _argminrow_sqrt_obligations():
    body = _argminrow_sqrt_axiom()[0].body()
    inst = z3.substitute_vars(body, *reversed(_ctxc + [_row, _lo, _hi, _kk]))
    a, b = vsqrt(WRowMinf(*_ctxc, _row, _lo, _hi)), vsqrt(Wf(*_ctxc, _row, _kk))
    return [Obligation('lemma:ArgMinRowSqrt::from-bounds', 'lemma', [], inst, 'lemma:ArgMinRowSqrt', props=('C04',),
                       note='a cell whose square root is minimal has the square root of the fold minimum',
                       axioms=LEMMAS['RowMinLower'].axioms() + LEMMAS['RowMinGreatestSqrt'].axioms() + order_axioms() + sqrt_mono_axioms()
                       + [z3.Or(vlt(a, b), z3.Not(vlt(a, b)))])]


LEMMAS['ArgMinRowSqrt'] = Lemma('ArgMinRowSqrt', _argminrow_sqrt_axiom, _argminrow_sqrt_obligations,
                                doc='np.argmin over sqrt(W(row, lo..hi-1)) selects sqrt(WRowMin(row, lo, hi))')

induction_lemma(
    'PsiColGreatestSqrt', _ctxc + [_p1e, _v], _kk, 0,
    hyp=lambda k: z3.And(_p1e != 0, k <= _R, _nlt(vsqrt(vinf), _v),
                         z3.ForAll([_i], z3.Implies(_incol(_i, k), _nlt(vsqrt(Wf(*_ctxc, _i + 1, _C)), _v)), patterns=[Wf(*_ctxc, _i + 1, _C)])),
    prop=lambda k: _nlt(vsqrt(PsiColf(*_ctxc, _p1e, k)), _v),
    patterns=lambda k: [z3.MultiPattern(PsiColf(*_ctxc, _p1e, k), vlt(vsqrt(PsiColf(*_ctxc, _p1e, k)), _v))],
    doc='every lower bound of the square roots of those cells (and of sqrt(inf)) is below sqrt(PsiCol(p1e, k))',
    axioms=psicol_axioms() + order_axioms(), props=('C04',))


def _argmincol_sqrt_axiom():
    q = z3.Int('am_q')
    hyp = z3.And(_p1e != 0, _p1e <= _R, _C >= 1, _Wd >= 1, 1 <= _kk, _R - _p1e <= _kk, _kk <= _R,
                 z3.ForAll([q], z3.Implies(z3.And(1 <= q, _R - _p1e <= q, q <= _R),
                                           _nlt(vsqrt(Wf(*_ctxc, q, _C)), vsqrt(Wf(*_ctxc, _kk, _C)))),
                           patterns=[Wf(*_ctxc, q, _C)]))
    return [z3.ForAll(_ctxc + [_p1e, _kk], z3.Implies(hyp, vsqrt(Wf(*_ctxc, _kk, _C)) == vsqrt(PsiColf(*_ctxc, _p1e, _R))),
                      patterns=[z3.MultiPattern(PsiColf(*_ctxc, _p1e, _R), vsqrt(Wf(*_ctxc, _kk, _C)))])]


def _argmincol_sqrt_obligations():
    body = _argmincol_sqrt_axiom()[0].body()
    inst = z3.substitute_vars(body, *reversed(_ctxc + [_p1e, _kk]))
    a, b = vsqrt(PsiColf(*_ctxc, _p1e, _R)), vsqrt(Wf(*_ctxc, _kk, _C))
    return [Obligation('lemma:ArgMinColSqrt::from-bounds', 'lemma', [], inst, 'lemma:ArgMinColSqrt', props=('C04',),
                       note='a last-column cell whose square root is minimal has the square root of PsiCol(psi_1e, r)',
                       axioms=LEMMAS['PsiColLower'].axioms() + LEMMAS['PsiColGreatestSqrt'].axioms() + order_axioms() + sqrt_mono_axioms()
                       + [z3.Or(vlt(a, b), z3.Not(vlt(a, b))), Wf(*_ctxc, (_kk - 1) + 1, _C) == Wf(*_ctxc, _kk, _C),
                          # (term only) sqrt(inf) vs the candidate: decided by monotonicity at the top element
                          z3.Or(vlt(vsqrt(vinf), b), z3.Not(vlt(vsqrt(vinf), b)))])]


LEMMAS['ArgMinColSqrt'] = Lemma('ArgMinColSqrt', _argmincol_sqrt_axiom, _argmincol_sqrt_obligations,
                                doc='np.argmin over the square roots of the last-column cells selects sqrt(PsiCol(psi_1e, r))')


# ---------------------------------------------------------------------------------------------
# Early abandoning (C03): cells whose three predecessors are above a bound m are above it (costs and the penalty are
# non-negative, rounded addition of a non-negative term does not decrease), hence whole stretches of a row.
def nonneg_axioms():
    """IEEE facts on non-NaN doubles: squares and absolute values are non-negative; adding a non-negative term (on either
    side) does not decrease a value."""
    d, x = z3.Consts('nn_d nn_x', Val)
    return [z3.ForAll([d], z3.Not(vlt(vmul(d, d), vzero)), patterns=[vmul(d, d)]),
            z3.ForAll([d], z3.Not(vlt(vabs(d), vzero)), patterns=[vabs(d)]),
            z3.ForAll([d, x], z3.Implies(z3.Not(vlt(d, vzero)), z3.Not(vlt(vadd(d, x), x))), patterns=[vadd(d, x)]),
            z3.ForAll([d, x], z3.Implies(z3.Not(vlt(d, vzero)), z3.Not(vlt(vadd(x, d), x))), patterns=[vadd(x, d)])]


THEORIES['nonneg'] = nonneg_axioms
_m = z3.Const('ea_m', Val)
_ii, _jj, _k0 = z3.Ints('ea_i ea_j ea_k0')
_PEN, _ND = _ctxc[7], _ctxc[12]
_EA_CTX = z3.And(z3.Not(vlt(_PEN, vzero)), _ND >= 0, vlt(_m, vinf))

# the multivariate point cost (sum of squares over the dimensions, or its square root) is not negative: induction on the dimension
from specs.bounds import InnerNdf, innernd_axioms      # noqa: E402
_na1, _na2 = z3.Consts('inn_a1 inn_a2', AV)
_nb1, _nb2 = z3.Ints('inn_b1 inn_b2')
induction_lemma(
    'InnerNdNonneg', [_na1, _nb1, _na2, _nb2], _kk, 0,
    hyp=lambda k: z3.BoolVal(True),
    prop=lambda k: z3.Not(vlt(InnerNdf(_na1, _nb1, _na2, _nb2, k), vzero)),
    patterns=lambda k: [InnerNdf(_na1, _nb1, _na2, _nb2, k)],
    doc='a left-to-right sum of squares is not negative', axioms=innernd_axioms() + order_axioms() + nonneg_axioms(), props=('C03',))


def _cost_nonneg_axioms():
    return LEMMAS['InnerNdNonneg'].axioms() + sqrt_nonneg_axioms()


def _cellabove_axiom():
    hyp = z3.And(_EA_CTX, _ii >= 1, _jj >= 1, vlt(_m, Wf(*_ctxc, _ii - 1, _jj - 1)), vlt(_m, Wf(*_ctxc, _ii - 1, _jj)),
                 vlt(_m, Wf(*_ctxc, _ii, _jj - 1)))
    return [z3.ForAll(_ctxc + [_m, _ii, _jj], z3.Implies(hyp, vlt(_m, Wf(*_ctxc, _ii, _jj))),
                      patterns=[z3.MultiPattern(vlt(_m, Wf(*_ctxc, _ii - 1, _jj - 1)), Wf(*_ctxc, _ii, _jj))])]


def _cellabove_obligations():
    body = _cellabove_axiom()[0].body()
    inst = z3.substitute_vars(body, *reversed(_ctxc + [_m, _ii, _jj]))
    return [Obligation('lemma:CellAbove::unfold', 'lemma', [], inst, 'lemma:CellAbove', props=('C03',),
                       note='a cell whose three predecessors exceed m exceeds m',
                       axioms=w_axioms() + order_axioms() + nonneg_axioms() + _cost_nonneg_axioms())]


LEMMAS['CellAbove'] = Lemma('CellAbove', _cellabove_axiom, _cellabove_obligations,
                            doc='a cell whose three predecessors are above a bound is above it (non-negative costs and penalty)')

induction_lemma(
    'RowAboveLeft', _ctxc + [_m, _ii], _kk, 0,
    hyp=lambda k: z3.And(_EA_CTX, _ii >= 1, vlt(_m, Wf(*_ctxc, _ii, 0)),
                         z3.ForAll([_j], z3.Implies(z3.And(0 <= _j, _j <= k), vlt(_m, Wf(*_ctxc, _ii - 1, _j))),
                                   patterns=[Wf(*_ctxc, _ii - 1, _j)])),
    prop=lambda k: vlt(_m, Wf(*_ctxc, _ii, k)),
    patterns=lambda k: [z3.MultiPattern(Wf(*_ctxc, _ii, k), vlt(_m, Wf(*_ctxc, _ii, 0)))],
    doc='if the cells 0..k of the previous row and the border cell of this row are above m, cell k of this row is above m',
    axioms=LEMMAS['CellAbove'].axioms() + order_axioms(), props=('C03',))
induction_lemma(
    'RowAboveRight', _ctxc + [_m, _ii, _k0], _kk, _k0,
    hyp=lambda k: z3.And(_EA_CTX, _ii >= 1, _k0 >= 1, vlt(_m, Wf(*_ctxc, _ii, _k0)),
                         z3.ForAll([_j], z3.Implies(z3.And(_k0 <= _j, _j <= k), vlt(_m, Wf(*_ctxc, _ii - 1, _j))),
                                   patterns=[Wf(*_ctxc, _ii - 1, _j)])),
    prop=lambda k: vlt(_m, Wf(*_ctxc, _ii, k)),
    patterns=lambda k: [z3.MultiPattern(Wf(*_ctxc, _ii, k), vlt(_m, Wf(*_ctxc, _ii, _k0)))],
    doc='if cell k0 of this row and the cells k0..k of the previous row are above m, cell k of this row is above m',
    axioms=LEMMAS['CellAbove'].axioms() + order_axioms(), props=('C03',))
spec('Agree', z3=lambda ex, st, m, x, w: z3.Or(z3.And(vlt(vlit(m), vlit(x)), vlt(vlit(m), vlit(w))), vlit(x) == vlit(w)),
     py=lambda ex, st, m, x, w: (x > m and w > m) or x == w,
     doc='a computed cell and the specification agree unless both are above the bound m')

spec('MaxDistAdj', z3=lambda ex, st, metric, m: adj(zint(metric), vlit(m)),
     py=lambda ex, st, metric, m: (m * m if metric == 0 else m), doc='max_dist after inner_val (squared for the squared-Euclidean inner distance)')

_a1, _b1, _c1 = z3.Consts('ea_a ea_b ea_c', Val)
# trigger marker (always true): names the bound, the cell and the three buffer values read for it
AStepf = z3.Function('AStep', Val, IntS, IntS, Val, Val, Val, BoolS)


def astep_axioms():
    return [z3.ForAll([_m, _ii, _jj, _a1, _b1, _c1], AStepf(_m, _ii, _jj, _a1, _b1, _c1), patterns=[AStepf(_m, _ii, _jj, _a1, _b1, _c1)])]


THEORIES['astep'] = astep_axioms
spec('AStep', z3=lambda ex, st, m, i, j, a, b, c: AStepf(vlit(m), zint(i), zint(j), vlit(a), vlit(b), vlit(c)),
     py=lambda ex, st, m, i, j, a, b, c: True)


def _agree(m, x, w):
    return z3.Or(z3.And(vlt(m, x), vlt(m, w)), x == w)


def _agreestep_axiom():
    ctx = _ctxc
    cost = cost_term(ctx, _ii - 1, _jj - 1)
    new = vadd(cost, min3(_a1, vadd(_b1, _PEN), vadd(_c1, _PEN)))
    hyp = z3.And(_EA_CTX, _ii >= 1, _jj >= 1, band(_ii - 1, _jj - 1, ctx[2], ctx[5], ctx[6]), z3.Not(vlt(ctx[8], cost)),
                 _agree(_m, _a1, Wf(*ctx, _ii - 1, _jj - 1)), _agree(_m, _b1, Wf(*ctx, _ii - 1, _jj)),
                 _agree(_m, _c1, Wf(*ctx, _ii, _jj - 1)))
    return [z3.ForAll(ctx + [_m, _ii, _jj, _a1, _b1, _c1], z3.Implies(hyp, _agree(_m, new, Wf(*ctx, _ii, _jj))),
                      patterns=[z3.MultiPattern(Wf(*ctx, _ii, _jj), AStepf(_m, _ii, _jj, _a1, _b1, _c1))])]


def _agreestep_obligations():
    body = _agreestep_axiom()[0].body()
    inst = z3.substitute_vars(body, *reversed(_ctxc + [_m, _ii, _jj, _a1, _b1, _c1]))
    return [Obligation('lemma:AgreeStep::unfold', 'lemma', [], inst, 'lemma:AgreeStep', props=('C03',),
                       note='the recurrence step preserves agreement up to the bound',
                       axioms=w_axioms() + order_axioms() + nonneg_axioms() + _cost_nonneg_axioms())]


LEMMAS['AgreeStep'] = Lemma('AgreeStep', _agreestep_axiom, _agreestep_obligations,
                            doc='if the three predecessor cells agree with W (equal, or both above the bound), so does the new cell')


# ---- W is non-negative (non-negative point costs and penalty): induction on the anti-diagonal a + b (C05: cells of a cost
# matrix never carry the -1 mark by themselves)
_wa, _wb, _wn = z3.Ints('wn_a wn_b wn_n')
_WN_CTX = z3.And(z3.Not(vlt(_PEN, vzero)), _ND == 0)


def _wn_prop(n):
    return z3.ForAll([_wa, _wb], z3.Implies(z3.And(_wa >= 0, _wb >= 0, _wa + _wb <= n), z3.Not(vlt(Wf(*_ctxc, _wa, _wb), vzero))),
                     patterns=[Wf(*_ctxc, _wa, _wb)])


def _wnonneg_axiom():
    return [z3.ForAll(_ctxc + [_wa, _wb], z3.Implies(z3.And(_WN_CTX, _wa >= 0, _wb >= 0), z3.Not(vlt(Wf(*_ctxc, _wa, _wb), vzero))),
                      patterns=[Wf(*_ctxc, _wa, _wb)])]


def _wnonneg_obligations():
    ax = w_axioms() + order_axioms() + nonneg_axioms()
    base = Obligation('lemma:WNonneg::base', 'lemma', [_WN_CTX], _wn_prop(z3.IntVal(0)), 'lemma:WNonneg', props=('C05',),
                      note='W(0, 0) is not negative', axioms=ax)
    # (the goal is stated for one arbitrary cell of the anti-diagonals up to n + 1; x1..x3 only name its three predecessors so
    #  that the induction hypothesis, triggered on W terms, is instantiated for them)
    x1, x2, x3 = z3.Consts('wn_x1 wn_x2 wn_x3', Val)
    step = Obligation('lemma:WNonneg::step', 'lemma',
                      [_WN_CTX, _wn >= 0, _wn_prop(_wn), _wa >= 0, _wb >= 0, _wa + _wb <= _wn + 1,
                       x1 == Wf(*_ctxc, _wa - 1, _wb - 1), x2 == Wf(*_ctxc, _wa - 1, _wb), x3 == Wf(*_ctxc, _wa, _wb - 1)],
                      z3.Not(vlt(Wf(*_ctxc, _wa, _wb), vzero)), 'lemma:WNonneg',
                      props=('C05',), note='cells of anti-diagonal n + 1 are a non-negative cost plus the least of three non-negative candidates',
                      axioms=ax)
    # every cell lies on some anti-diagonal
    k = z3.Int('wn_k')
    allk = z3.ForAll([k], z3.Implies(k >= 0, z3.ForAll([_wa, _wb], z3.Implies(z3.And(_wa >= 0, _wb >= 0, _wa + _wb <= k),
                                                                              z3.Not(vlt(Wf(*_ctxc, _wa, _wb), vzero))))))
    inst = z3.Implies(z3.And(_wa >= 0, _wb >= 0), z3.Not(vlt(Wf(*_ctxc, _wa, _wb), vzero)))
    use = Obligation('lemma:WNonneg::use', 'lemma', [_WN_CTX, allk], inst, 'lemma:WNonneg', props=('C05',),
                     note='instantiate the anti-diagonal a + b', axioms=[])
    return [base, step, use]


LEMMAS['WNonneg'] = Lemma('WNonneg', _wnonneg_axiom, _wnonneg_obligations,
                          doc='the accumulated cost is never negative (non-negative point costs and penalty), by induction on a + b')
