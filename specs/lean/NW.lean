import Mathlib.Order.Lattice
import Mathlib.Order.BoundedOrder.Basic
import Mathlib.Order.MinMax
import Mathlib.Tactic

/-!
Bellman lemma for the alignment recurrence of dp.dp / needleman_wunsch (C17): with an arbitrary
monotone cost update per edit step (gap in the first sequence, gap in the second, substitution), the
recurrence

    S (i+1) (j+1) = min (stepL i j (S (i+1) j)) (min (stepU i j (S i (j+1))) (stepD i j (S i j)))

is the least total cost over all edit scripts that start in a border cell (whose cost `init` is the cost
of the leading run of gaps).  No algebraic law of the cost type is used beyond a linear order and
monotonicity, so rounded floating-point addition is covered.  Out-of-band cells are modelled by steps
that return ⊤.
-/
namespace NW

variable {α : Type} [LinearOrder α]

structure Params (α : Type) where
  stepL : ℕ → ℕ → α → α     -- gap: consume s2[j]      (dp: d_indel + scores[i1, j0] + penalty)
  stepU : ℕ → ℕ → α → α     -- gap: consume s1[i]      (dp: d_indel + scores[i0, j1] + penalty)
  stepD : ℕ → ℕ → α → α     -- substitution s1[i]/s2[j] (dp: d + scores[i0, j0])
  init  : ℕ → ℕ → α          -- border: i resp. j leading gaps

variable (P : Params α)

def S : ℕ → ℕ → α
  | 0, j => P.init 0 j
  | i+1, 0 => P.init (i+1) 0
  | i+1, j+1 => min (P.stepL i j (S (i+1) j)) (min (P.stepU i j (S i (j+1))) (P.stepD i j (S i j)))
termination_by i j => (i, j)

/-- edit scripts ending in cell (i, j) -/
inductive Script : ℕ → ℕ → Type
  | row0 (j : ℕ) : Script 0 j
  | col0 (i : ℕ) : Script (i+1) 0
  | sub  {i j : ℕ} (p : Script i j) : Script (i+1) (j+1)
  | gapU {i j : ℕ} (p : Script i (j+1)) : Script (i+1) (j+1)
  | gapL {i j : ℕ} (p : Script (i+1) j) : Script (i+1) (j+1)

def cost : {i j : ℕ} → Script i j → α
  | _, _, .row0 j => P.init 0 j
  | _, _, .col0 i => P.init (i+1) 0
  | _, _, @Script.sub i j p => P.stepD i j (cost p)
  | _, _, @Script.gapU i j p => P.stepU i j (cost p)
  | _, _, @Script.gapL i j p => P.stepL i j (cost p)

structure Mono (P : Params α) : Prop where
  monoL : ∀ i j x y, x ≤ y → P.stepL i j x ≤ P.stepL i j y
  monoU : ∀ i j x y, x ≤ y → P.stepU i j x ≤ P.stepU i j y
  monoD : ∀ i j x y, x ≤ y → P.stepD i j x ≤ P.stepD i j y

theorem S_le_cost (h : Mono P) : ∀ {i j : ℕ} (p : Script i j), S P i j ≤ cost P p := by
  intro i j p
  induction p with
  | row0 j => simp [S, cost]
  | col0 i => simp [S, cost]
  | sub p ih =>
    simp only [S, cost]
    exact le_trans (le_trans (min_le_right _ _) (min_le_right _ _)) (h.monoD _ _ _ _ ih)
  | gapU p ih =>
    simp only [S, cost]
    exact le_trans (le_trans (min_le_right _ _) (min_le_left _ _)) (h.monoU _ _ _ _ ih)
  | gapL p ih =>
    simp only [S, cost]
    exact le_trans (min_le_left _ _) (h.monoL _ _ _ _ ih)

theorem exists_script : ∀ (i j : ℕ), ∃ p : Script i j, cost P p = S P i j
  | 0, j => ⟨.row0 j, by simp [S, cost]⟩
  | i+1, 0 => ⟨.col0 i, by simp [S, cost]⟩
  | i+1, j+1 => by
    obtain ⟨pd, hd⟩ := exists_script i j
    obtain ⟨pu, hu⟩ := exists_script i (j+1)
    obtain ⟨pl, hl⟩ := exists_script (i+1) j
    simp only [S]
    rcases min_choice (P.stepL i j (S P (i+1) j)) (min (P.stepU i j (S P i (j+1))) (P.stepD i j (S P i j))) with h1 | h1
    · refine ⟨.gapL pl, ?_⟩
      rw [h1]; simp only [cost, hl]
    · rcases min_choice (P.stepU i j (S P i (j+1))) (P.stepD i j (S P i j)) with h2 | h2
      · refine ⟨.gapU pu, ?_⟩
        rw [h1, h2]; simp only [cost, hu]
      · refine ⟨.sub pd, ?_⟩
        rw [h1, h2]; simp only [cost, hd]
termination_by i j => (i, j)

/-- S is the minimum total cost over all edit scripts (= minus the maximum alignment score). -/
theorem S_isLeast (h : Mono P) (i j : ℕ) :
    IsLeast (Set.range (fun p : Script i j => cost P p)) (S P i j) := by
  constructor
  · obtain ⟨p, hp⟩ := exists_script P i j
    exact ⟨p, hp⟩
  · rintro _ ⟨p, rfl⟩
    exact S_le_cost P h p

end NW
