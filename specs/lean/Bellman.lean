import Mathlib.Order.Lattice
import Mathlib.Order.BoundedOrder.Basic
import Mathlib.Order.MinMax
import Mathlib.Tactic

/-!
Generic Bellman lemma for the DTW recurrence over any linearly ordered cost type with a
monotone "add".  No associativity/commutativity is needed, so the lemma also covers IEEE
non-NaN doubles with rounded addition (which is monotone).
-/
namespace DTW

variable {α : Type} [LinearOrder α] [OrderTop α]

structure Params (α : Type) where
  add     : α → α → α          -- add d x  (cell cost first)
  pen     : α → α              -- x ↦ x ⊕ penalty
  d       : ℕ → ℕ → α          -- point distance of series indices (i,j)
  allowed : ℕ → ℕ → Bool       -- in band and ≤ max_step
  init    : ℕ → ℕ → α          -- virtual border: row 0 / column 0

variable (P : Params α)

def cell (i j : ℕ) (x : α) : α := if P.allowed i j then P.add (P.d i j) x else ⊤

/-- accumulated cost matrix, matrix coordinates (row 0 / col 0 are the virtual border) -/
def W : ℕ → ℕ → α
  | 0, j => P.init 0 j
  | i+1, 0 => P.init (i+1) 0
  | i+1, j+1 => cell P i j (min (W i j) (min (P.pen (W i (j+1))) (P.pen (W (i+1) j))))
termination_by i j => (i, j)

inductive Path : ℕ → ℕ → Type
  | row0 (j : ℕ) : Path 0 j
  | col0 (i : ℕ) : Path (i+1) 0
  | diag {i j : ℕ} (p : Path i j) : Path (i+1) (j+1)
  | up   {i j : ℕ} (p : Path i (j+1)) : Path (i+1) (j+1)
  | left {i j : ℕ} (p : Path (i+1) j) : Path (i+1) (j+1)

def cost : {i j : ℕ} → Path i j → α
  | _, _, .row0 j => P.init 0 j
  | _, _, .col0 i => P.init (i+1) 0
  | _, _, @Path.diag i j p => cell P i j (cost p)
  | _, _, @Path.up i j p => cell P i j (P.pen (cost p))
  | _, _, @Path.left i j p => cell P i j (P.pen (cost p))

structure Mono (P : Params α) : Prop where
  add_mono : ∀ d x y, x ≤ y → P.add d x ≤ P.add d y
  pen_mono : ∀ x y, x ≤ y → P.pen x ≤ P.pen y

theorem cell_mono (h : Mono P) (i j : ℕ) {x y : α} (hxy : x ≤ y) : cell P i j x ≤ cell P i j y := by
  unfold cell
  split
  · exact h.add_mono _ _ _ hxy
  · exact le_refl _

theorem W_le_cost (h : Mono P) : ∀ {i j : ℕ} (p : Path i j), W P i j ≤ cost P p := by
  intro i j p
  induction p with
  | row0 j => simp [W, cost]
  | col0 i => simp [W, cost]
  | diag p ih =>
    simp only [W, cost]
    exact cell_mono P h _ _ (le_trans (min_le_left _ _) ih)
  | up p ih =>
    simp only [W, cost]
    exact cell_mono P h _ _ (le_trans (le_trans (min_le_right _ _) (min_le_left _ _)) (h.pen_mono _ _ ih))
  | left p ih =>
    simp only [W, cost]
    exact cell_mono P h _ _ (le_trans (le_trans (min_le_right _ _) (min_le_right _ _)) (h.pen_mono _ _ ih))

theorem exists_path : ∀ (i j : ℕ), ∃ p : Path i j, cost P p = W P i j
  | 0, j => ⟨.row0 j, by simp [W, cost]⟩
  | i+1, 0 => ⟨.col0 i, by simp [W, cost]⟩
  | i+1, j+1 => by
    obtain ⟨pd, hd⟩ := exists_path i j
    obtain ⟨pu, hu⟩ := exists_path i (j+1)
    obtain ⟨pl, hl⟩ := exists_path (i+1) j
    simp only [W]
    rcases min_choice (W P i j) (min (P.pen (W P i (j+1))) (P.pen (W P (i+1) j))) with h1 | h1
    · refine ⟨.diag pd, ?_⟩
      rw [h1]; simp only [cost, hd]
    · rcases min_choice (P.pen (W P i (j+1))) (P.pen (W P (i+1) j)) with h2 | h2
      · refine ⟨.up pu, ?_⟩
        rw [h1, h2]; simp only [cost, hu]
      · refine ⟨.left pl, ?_⟩
        rw [h1, h2]; simp only [cost, hl]
termination_by i j => (i, j)

/-- W is the minimum over all (virtual-border) paths. -/
theorem W_isLeast (h : Mono P) (i j : ℕ) :
    IsLeast (Set.range (fun p : Path i j => cost P p)) (W P i j) := by
  constructor
  · obtain ⟨p, hp⟩ := exists_path P i j
    exact ⟨p, hp⟩
  · rintro _ ⟨p, rfl⟩
    exact W_le_cost P h p

end DTW
