import Mathlib.Order.Lattice
import Mathlib.Order.BoundedOrder.Basic
import Mathlib.Order.MinMax
import Mathlib.Tactic

/-!
LB_Keogh ≤ DTW ≤ Euclidean bound, over the same generic cost type as Bellman.lean: any linear order with a top
element and an "add" that is only assumed monotone and inflationary for non-negative cell costs.  No
associativity, no exactness: the statements hold for IEEE non-NaN doubles with rounded addition, in the order
in which the code adds (cell cost first, as the kernels do; `add` is commutative on doubles, so `t + e` and
`e + t` are the same number).

* `W_le_diag`, `W_le_padRow`, `W_le_padCol`: the accumulated cost is at most the cost of the diagonal path,
  continued along the last row / column when the lengths differ (the padded Euclidean sum of `ub_euclidean`).
* `lb_le_W`: if `e i ≤ d i j` for every allowed cell of row `i` (what the envelope of LB_Keogh provides), the
  row-by-row sum of the `e i` is at most the accumulated cost of every cell of row `i`.
(The definitions up to `exists_path` are those of Bellman.lean, repeated because each file is checked alone.)
-/
namespace DTW

variable {α : Type} [LinearOrder α] [OrderTop α]

structure Params (α : Type) where
  add     : α → α → α
  pen     : α → α
  d       : ℕ → ℕ → α
  allowed : ℕ → ℕ → Bool
  init    : ℕ → ℕ → α

variable (P : Params α)

def cell (i j : ℕ) (x : α) : α := if P.allowed i j then P.add (P.d i j) x else ⊤

def W : ℕ → ℕ → α
  | 0, j => P.init 0 j
  | i+1, 0 => P.init (i+1) 0
  | i+1, j+1 => cell P i j (min (W i j) (min (P.pen (W i (j+1))) (P.pen (W (i+1) j))))
termination_by i j => (i, j)

inductive Path : ℕ → ℕ → Type
  | row0 (j : ℕ) : Path 0 j
  | col0 (i : ℕ) : Path (i+1) 0
  | diag {i j : ℕ} (p : Path i j) : Path (i+1) (j+1)
  | up   {i j : ℕ} (p : Path i (j+1)) : Path (i+1) (j+1)
  | left {i j : ℕ} (p : Path (i+1) j) : Path (i+1) (j+1)

def cost : {i j : ℕ} → Path i j → α
  | _, _, .row0 j => P.init 0 j
  | _, _, .col0 i => P.init (i+1) 0
  | _, _, @Path.diag i j p => cell P i j (cost p)
  | _, _, @Path.up i j p => cell P i j (P.pen (cost p))
  | _, _, @Path.left i j p => cell P i j (P.pen (cost p))

structure Mono (P : Params α) : Prop where
  add_mono : ∀ d x y, x ≤ y → P.add d x ≤ P.add d y
  pen_mono : ∀ x y, x ≤ y → P.pen x ≤ P.pen y

theorem cell_mono (h : Mono P) (i j : ℕ) {x y : α} (hxy : x ≤ y) : cell P i j x ≤ cell P i j y := by
  unfold cell
  split
  · exact h.add_mono _ _ _ hxy
  · exact le_refl _

theorem W_le_cost (h : Mono P) : ∀ {i j : ℕ} (p : Path i j), W P i j ≤ cost P p := by
  intro i j p
  induction p with
  | row0 j => simp [W, cost]
  | col0 i => simp [W, cost]
  | diag p ih =>
    simp only [W, cost]
    exact cell_mono P h _ _ (le_trans (min_le_left _ _) ih)
  | up p ih =>
    simp only [W, cost]
    exact cell_mono P h _ _ (le_trans (le_trans (min_le_right _ _) (min_le_left _ _)) (h.pen_mono _ _ ih))
  | left p ih =>
    simp only [W, cost]
    exact cell_mono P h _ _ (le_trans (le_trans (min_le_right _ _) (min_le_right _ _)) (h.pen_mono _ _ ih))

theorem exists_path : ∀ (i j : ℕ), ∃ p : Path i j, cost P p = W P i j
  | 0, j => ⟨.row0 j, by simp [W, cost]⟩
  | i+1, 0 => ⟨.col0 i, by simp [W, cost]⟩
  | i+1, j+1 => by
    obtain ⟨pd, hd⟩ := exists_path i j
    obtain ⟨pu, hu⟩ := exists_path i (j+1)
    obtain ⟨pl, hl⟩ := exists_path (i+1) j
    simp only [W]
    rcases min_choice (W P i j) (min (P.pen (W P i (j+1))) (P.pen (W P (i+1) j))) with h1 | h1
    · refine ⟨.diag pd, ?_⟩
      rw [h1]; simp only [cost, hd]
    · rcases min_choice (P.pen (W P i (j+1))) (P.pen (W P (i+1) j)) with h2 | h2
      · refine ⟨.up pu, ?_⟩
        rw [h1, h2]; simp only [cost, hu]
      · refine ⟨.left pl, ?_⟩
        rw [h1, h2]; simp only [cost, hl]
termination_by i j => (i, j)

/-! ### Upper bound: the diagonal path, padded along the last row or column -/

/-- cost of the diagonal from the origin to (n, n): the left-to-right sum of `d k k` -/
def diagCost : ℕ → α
  | 0 => P.init 0 0
  | n+1 => cell P n n (diagCost n)

def diagPath : (n : ℕ) → Path n n
  | 0 => .row0 0
  | n+1 => .diag (diagPath n)

theorem cost_diagPath : ∀ n, cost P (diagPath n) = diagCost P n
  | 0 => by simp [diagPath, cost, diagCost]
  | n+1 => by simp [diagPath, cost, diagCost, cost_diagPath n]

theorem W_le_diag (h : Mono P) (n : ℕ) : W P n n ≤ diagCost P n := by
  rw [← cost_diagPath]
  exact W_le_cost P h _

/-- the diagonal to (m+1, m+1), then `k` steps along row m (series 1 shorter: its last element is repeated) -/
def padRowCost (m : ℕ) : ℕ → α
  | 0 => diagCost P (m+1)
  | k+1 => cell P m (m+1+k) (P.pen (padRowCost m k))

def padRowPath (m : ℕ) : (k : ℕ) → Path (m+1) (m+1+k)
  | 0 => diagPath (m+1)
  | k+1 => .left (padRowPath m k)

theorem cost_padRowPath (m : ℕ) : ∀ k, cost P (padRowPath m k) = padRowCost P m k
  | 0 => by simp [padRowPath, padRowCost, cost_diagPath]
  | k+1 => by simp [padRowPath, padRowCost, cost, cost_padRowPath m k]

theorem W_le_padRow (h : Mono P) (m k : ℕ) : W P (m+1) (m+1+k) ≤ padRowCost P m k := by
  rw [← cost_padRowPath]
  exact W_le_cost P h _

/-- the diagonal to (m+1, m+1), then `k` steps down column m (series 2 shorter) -/
def padColCost (m : ℕ) : ℕ → α
  | 0 => diagCost P (m+1)
  | k+1 => cell P (m+1+k) m (P.pen (padColCost m k))

def padColPath (m : ℕ) : (k : ℕ) → Path (m+1+k) (m+1)
  | 0 => diagPath (m+1)
  | k+1 => .up (padColPath m k)

theorem cost_padColPath (m : ℕ) : ∀ k, cost P (padColPath m k) = padColCost P m k
  | 0 => by simp [padColPath, padColCost, cost_diagPath]
  | k+1 => by simp [padColPath, padColCost, cost, cost_padColPath m k]

theorem W_le_padCol (h : Mono P) (m k : ℕ) : W P (m+1+k) (m+1) ≤ padColCost P m k := by
  rw [← cost_padColPath]
  exact W_le_cost P h _

/-! ### Lower bound: row-wise envelope distances -/

/-- what the lower-bound argument needs beyond monotonicity in the accumulated argument -/
structure LBHyp (P : Params α) (zero : α) (e : ℕ → α) : Prop where
  add_mono_left : ∀ d d' x, d ≤ d' → P.add d x ≤ P.add d' x
  add_mono      : ∀ d x y, x ≤ y → P.add d x ≤ P.add d y
  add_infl      : ∀ d x, zero ≤ d → x ≤ P.add d x          -- adding a non-negative cost does not decrease
  pen_infl      : ∀ x, x ≤ P.pen x                          -- neither does the penalty
  d_nonneg      : ∀ i j, zero ≤ P.d i j
  env           : ∀ i j, P.allowed i j = true → e i ≤ P.d i j    -- the envelope distance bounds every allowed cell of its row
  init_row      : ∀ j, zero ≤ P.init 0 j                    -- row 0 holds 0 (origin, psi-relaxed cells) or ⊤
  init_col      : ∀ i, P.init (i+1) 0 = ⊤                   -- no relaxation at the beginning of series 1

/-- LB_Keogh's accumulator after `i` rows: `t = 0; t = e k + t` -/
def lb (zero : α) (e : ℕ → α) : ℕ → α
  | 0 => zero
  | i+1 => P.add (e i) (lb zero e i)

theorem lb_le_cost (zero : α) (e : ℕ → α) (h : LBHyp P zero e) :
    ∀ {i j : ℕ} (p : Path i j), lb P zero e i ≤ cost P p := by
  intro i j p
  induction p with
  | row0 j => simpa [lb, cost] using h.init_row j
  | col0 i => simp [cost, h.init_col i]
  | @diag i j p ih =>
    simp only [cost, cell, lb]
    split
    · rename_i ha
      exact le_trans (h.add_mono_left _ _ _ (h.env i j ha)) (h.add_mono _ _ _ ih)
    · exact le_top
  | @up i j p ih =>
    simp only [cost, cell, lb]
    split
    · rename_i ha
      exact le_trans (h.add_mono_left _ _ _ (h.env i j ha)) (h.add_mono _ _ _ (le_trans ih (h.pen_infl _)))
    · exact le_top
  | @left i j p ih =>
    simp only [cost, cell]
    split
    · exact le_trans (le_trans ih (h.pen_infl _)) (h.add_infl _ _ (h.d_nonneg i j))
    · exact le_top

theorem lb_le_W (zero : α) (e : ℕ → α) (h : LBHyp P zero e) (i j : ℕ) : lb P zero e i ≤ W P i j := by
  obtain ⟨p, hp⟩ := exists_path P i j
  rw [← hp]
  exact lb_le_cost P zero e h p

end DTW
