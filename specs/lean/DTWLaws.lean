import Mathlib.Order.Lattice
import Mathlib.Order.BoundedOrder.Basic
import Mathlib.Order.MinMax
import Mathlib.Tactic

/-!
Laws of the DTW recurrence used by C10 (option monotonicity, symmetry).  Same definitions as
Bellman.lean (kept self-contained so that each file can be checked on its own).
-/
namespace DTWLaws

variable {α : Type} [LinearOrder α] [OrderTop α]

structure Params (α : Type) where
  add     : α → α → α
  pen     : α → α
  d       : ℕ → ℕ → α
  allowed : ℕ → ℕ → Bool
  init    : ℕ → ℕ → α

def cell (P : Params α) (i j : ℕ) (x : α) : α := if P.allowed i j then P.add (P.d i j) x else ⊤

def W (P : Params α) : ℕ → ℕ → α
  | 0, j => P.init 0 j
  | i+1, 0 => P.init (i+1) 0
  | i+1, j+1 => cell P i j (min (W P i j) (min (P.pen (W P i (j+1))) (P.pen (W P (i+1) j))))
termination_by i j => (i, j)

/-- `Q` relaxes `P`: same point costs and addition, a larger admissible set (wider window, larger
max_step), a lower border (more psi relaxation), a smaller penalty. -/
structure Relaxes (Q P : Params α) : Prop where
  add_eq   : Q.add = P.add
  d_eq     : Q.d = P.d
  allowed  : ∀ i j, P.allowed i j = true → Q.allowed i j = true
  init_le  : ∀ i j, Q.init i j ≤ P.init i j
  pen_le   : ∀ x y, x ≤ y → Q.pen x ≤ P.pen y
  add_mono : ∀ d x y, x ≤ y → P.add d x ≤ P.add d y

/-- L2: relaxing window / max_step / psi or lowering the penalty never increases any cell. -/
theorem W_relax (Q P : Params α) (h : Relaxes Q P) : ∀ i j, W Q i j ≤ W P i j
  | 0, j => by simp [W]; exact h.init_le 0 j
  | i+1, 0 => by simp [W]; exact h.init_le (i+1) 0
  | i+1, j+1 => by
    have h1 := W_relax Q P h i j
    have h2 := W_relax Q P h i (j+1)
    have h3 := W_relax Q P h (i+1) j
    simp only [W, cell]
    by_cases hp : P.allowed i j = true
    · have hq := h.allowed i j hp
      simp only [hp, hq, if_true]
      rw [h.add_eq, h.d_eq]
      apply h.add_mono
      exact min_le_min h1 (min_le_min (h.pen_le _ _ h2) (h.pen_le _ _ h3))
    · simp only [hp]
      exact le_top
termination_by i j => (i, j)

/-- the problem with the two series swapped -/
def swap (P : Params α) : Params α :=
  { add := P.add, pen := P.pen, d := fun i j => P.d j i, allowed := fun i j => P.allowed j i,
    init := fun i j => P.init j i }

/-- L3: the accumulated-cost matrix of the swapped problem is the transpose; in particular the
distance is unchanged when the series (and the per-series psi entries) are swapped. -/
theorem W_swap (P : Params α) : ∀ i j, W (swap P) i j = W P j i
  | 0, 0 => by simp [W, swap]
  | 0, j+1 => by simp [W, swap]
  | i+1, 0 => by simp [W, swap]
  | i+1, j+1 => by
    have h1 := W_swap P i j
    have h2 := W_swap P i (j+1)
    have h3 := W_swap P (i+1) j
    simp only [W, cell]
    rw [h1, h2, h3]
    simp only [swap]
    have hc : min (P.pen (W P (j+1) i)) (P.pen (W P j (i+1))) = min (P.pen (W P j (i+1))) (P.pen (W P (j+1) i)) :=
      min_comm _ _
    rw [hc]
    by_cases hp : P.allowed j i = true <;> simp [hp]
termination_by i j => (i, j)

end DTWLaws
