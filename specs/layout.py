"""Specification theory for distance-matrix layouts (C06, C07, C15).

Written from the property statement: the compact result lists, in row-major order of the selected
(row, column) pairs, the pairwise distances.

    sel(r, c)   <=>  rb <= r < re  and  CB(r) <= c < ce         CB(r) = max(r+1, cb) if triu else cb
    RowCount(r)  =   max(0, ce - CB(r))
    LenRows(k)   =   sum of RowCount(r) for rb <= r < k
    Rank(r, c)   =   LenRows(r) + (c - CB(r))                   (pairs before (r,c))
    Len          =   LenRows(re)

A block is None (all pairs above the diagonal), ((rb,re),(cb,ce)) (triangular) or
((rb,re),(cb,ce),flag) with `flag is False` meaning rectangular.
"""
import z3
from dvc.contracts import spec, input_builder, THEORIES
from dvc.vals import IntS, BoolS, Opt, is_cint
from dvc.ops import zint, zbool, ite, b_and, b_not, compare
from dvc.state import Unsupported

I = IntS

_k, _rb, _cb, _ce = z3.Ints('k rb cb ce')
_tr = z3.Bool('triu')

CBf = z3.Function('CB', I, I, BoolS, I)            # CB(r, cb, triu)
RowCountf = z3.Function('RowCount', I, I, I, BoolS, I)   # RowCount(r, cb, ce, triu)
# LenRows(rb, k, cb, ce, triu), Boogie/Dafny-style "fuel" encoding of the recursive definition
#   LenRows(rb, k) = 0 if k <= rb else LenRows(rb, k-1) + RowCount(k-1)
# so that both z3 and cvc5 unfold it by E-matching a bounded number of times (no matching loop).
_SIG = (I, I, I, I, BoolS, I)
LenRowsf = z3.Function('LenRows', *_SIG)
_LenRows1 = z3.Function('LenRows_f1', *_SIG)
_LenRows0 = z3.Function('LenRows_f0', *_SIG)


def cb_term(r, cb, triu):
    return z3.If(z3.And(triu, r + 1 > cb), r + 1, cb)


def rowcount_term(r, cb, ce, triu):
    c0 = cb_term(r, cb, triu)
    return z3.If(ce > c0, ce - c0, 0)


def layout_axioms():
    a = (_rb, _k, _cb, _ce, _tr)
    am1 = (_rb, _k - 1, _cb, _ce, _tr)
    ax = []
    for hi, lo in ((LenRowsf, _LenRows1), (_LenRows1, _LenRows0)):
        ax.append(z3.ForAll(list(a), hi(*a) == lo(*a), patterns=[hi(*a)]))
        ax.append(z3.ForAll(list(a), hi(*a) == z3.If(_k <= _rb, 0, lo(*am1) + rowcount_term(_k - 1, _cb, _ce, _tr)),
                            patterns=[hi(*a)]))
    return ax


THEORIES['layout'] = layout_axioms


def block_parts(ex, block, n):
    """(rb, re, cb, ce, triu) as z3 terms for a block value (None => whole upper triangle)."""
    if isinstance(block, Opt):
        a = block_parts(ex, None, n)
        b = block_parts(ex, block.v, n)
        return tuple(z3.If(zbool(block.isnone), x, y) for x, y in zip(a, b))
    if block is None or (is_cint(block) and block == 0):
        return (z3.IntVal(0), zint(n), z3.IntVal(0), zint(n), z3.BoolVal(True))
    if isinstance(block, tuple):
        rb, re = block[0]
        cb, ce = block[1]
        triu = z3.BoolVal(True)
        if len(block) > 2:
            triu = zbool(b_not(ex.identity(block[2], False)))
        return (zint(rb), zint(re), zint(cb), zint(ce), triu)
    if isinstance(block, dict):      # C struct view: dict(rb, re, cb, ce, triu)
        return (zint(block['rb']), zint(block['re']), zint(block['cb']), zint(block['ce']), zbool(block['triu']))
    raise Unsupported('block value %r' % (block,))


def py_block_parts(block, n):
    if isinstance(block, dict):          # effective C block
        return block['rb'], block['re'], block['cb'], block['ce'], block['triu']
    if block is None or block == 0:
        return 0, n, 0, n, True
    rb, re = block[0]
    cb, ce = block[1]
    triu = not (len(block) > 2 and block[2] is False)
    return rb, re, cb, ce, triu


def py_pairs(block, n):
    """Brute-force enumeration straight from the property statement."""
    rb, re, cb, ce, triu = py_block_parts(block, n)
    out = []
    for r in range(rb, re):
        for c in range(cb, ce if isinstance(block, dict) else min(ce, n)):
            if (not triu) or c > r:
                out.append((r, c))
    return out


def _len(ex, st, block, n):
    rb, re, cb, ce, triu = block_parts(ex, block, n)
    return LenRowsf(rb, re, cb, ce, triu)


def _rank(ex, st, block, n, r, c):
    rb, re, cb, ce, triu = block_parts(ex, block, n)
    return LenRowsf(rb, zint(r), cb, ce, triu) + (zint(c) - cb_term(zint(r), cb, triu))


def _lenrows(ex, st, block, n, k):
    rb, re, cb, ce, triu = block_parts(ex, block, n)
    return LenRowsf(rb, zint(k), cb, ce, triu)


def _sel(ex, st, block, n, r, c):
    rb, re, cb, ce, triu = block_parts(ex, block, n)
    r, c = zint(r), zint(c)
    return z3.And(rb <= r, r < re, cb_term(r, cb, triu) <= c, c < ce)


def _cbrow(ex, st, block, n, r):
    rb, re, cb, ce, triu = block_parts(ex, block, n)
    return cb_term(zint(r), cb, triu)


def _valid_block(ex, st, block, n):
    """0 <= rb < re <= n, 0 <= cb < ce <= n  (the quantifier of C06)."""
    if isinstance(block, Opt):
        return z3.Or(zbool(block.isnone), _valid_block(ex, st, block.v, n))
    if block is None or (is_cint(block) and block == 0):
        return True
    rb, re, cb, ce, triu = block_parts(ex, block, n)
    n = zint(n)
    return z3.And(0 <= rb, rb < re, re <= n, 0 <= cb, cb < ce, ce <= n)


def _triu_flag(ex, st, block, n):
    return block_parts(ex, block, n)[4]


def _lenfull(ex, st, n):
    n = zint(n)
    return (n * (n - 1)) / 2


spec('Len', z3=_len, py=lambda ex, st, block, n: len(py_pairs(block, n)),
     doc='number of selected pairs')
spec('Rank', z3=_rank, py=lambda ex, st, block, n, r, c: py_pairs(block, n).index((r, c)),
     doc='number of selected pairs before (r, c) in row-major order')
spec('LenRowsTo', z3=_lenrows, py=lambda ex, st, block, n, k: len([p for p in py_pairs(block, n) if p[0] < k]),
     doc='number of selected pairs in rows < k')
spec('Sel', z3=_sel, py=lambda ex, st, block, n, r, c: (r, c) in py_pairs(block, n),
     doc='pair (r, c) is selected by the block')
spec('CBrow', z3=_cbrow, py=lambda ex, st, block, n, r: max(r + 1, py_block_parts(block, n)[2]) if py_block_parts(block, n)[4] else py_block_parts(block, n)[2],
     doc='first selected column of row r')
spec('ValidBlock', z3=_valid_block,
     py=lambda ex, st, block, n: block is None or (is_cint(block) and block == 0) or (0 <= block[0][0] < block[0][1] <= n and 0 <= block[1][0] < block[1][1] <= n))
spec('Triu', z3=_triu_flag, py=lambda ex, st, block, n: py_block_parts(block, n)[4])
spec('LenFull', z3=_lenfull, py=lambda ex, st, n: n * (n - 1) // 2,
     doc='n(n-1)/2, the advertised length without a block')


@input_builder('block')
def build_block(ex, name, st, origin):
    """((rb,re),(cb,ce)) with symbolic integers"""
    return ((z3.Int(name + '_rb'), z3.Int(name + '_re')), (z3.Int(name + '_cb'), z3.Int(name + '_ce')))


@input_builder('block3')
def build_block3(ex, name, st, origin):
    """((rb,re),(cb,ce),flag); flag is a Python bool object (True/False)"""
    return ((z3.Int(name + '_rb'), z3.Int(name + '_re')), (z3.Int(name + '_cb'), z3.Int(name + '_ce')),
            z3.Bool(name + '_flag'))


# ---------------------------------------------------------------------------------------------
# Lemma: closed form of the block-free length.  2 * LenRows(0, k, 0, n, triu) = 2kn - k(k+1) for
# 0 <= k <= n, hence Len(None, n) = n(n-1)/2 = LenFull(n).  Proved by the z3 induction schema.
from dvc.contracts import induction_lemma, LEMMAS

_n = z3.Int('n_')
_kk = z3.Int('k_')
induction_lemma(
    'LenFullClosed', [_n], _kk, 0,
    hyp=lambda k: z3.And(k <= _n, _n >= 0),
    prop=lambda k: 2 * LenRowsf(0, k, 0, _n, True) == 2 * k * _n - k * k - k,
    doc='sum of the row lengths of the upper triangle: LenRows(0,k,0,n) = kn - k(k+1)/2', props=('C06',),
    axioms=layout_axioms())

_rb2, _cb2, _ce2 = z3.Ints('rb_ cb_ ce_')
induction_lemma(
    'LenRectClosed', [_rb2, _cb2, _ce2], _kk, _rb2,
    hyp=lambda k: _cb2 <= _ce2,
    prop=lambda k: LenRowsf(_rb2, k, _cb2, _ce2, False) == (k - _rb2) * (_ce2 - _cb2),
    doc='a rectangular block of k-rb rows has (k-rb)(ce-cb) pairs', props=('C06',), axioms=layout_axioms())

_a2 = z3.Int('a_')
_t2 = z3.Bool('t_')
induction_lemma(
    'RowsBefore', [_rb2, _cb2, _ce2, _t2, _a2], _kk, _a2 + 1,
    hyp=lambda k: _rb2 <= _a2,
    prop=lambda k: LenRowsf(_rb2, _a2, _cb2, _ce2, _t2) + rowcount_term(_a2, _cb2, _ce2, _t2)
    <= LenRowsf(_rb2, k, _cb2, _ce2, _t2),
    patterns=lambda k: [z3.MultiPattern(LenRowsf(_rb2, _a2, _cb2, _ce2, _t2), LenRowsf(_rb2, k, _cb2, _ce2, _t2))],
    doc='all pairs of an earlier row rank before the first pair of a later row', props=('C06',),
    axioms=layout_axioms())


# ---------------------------------------------------------------------------------------------
# C view of a block: struct DTWBlock {rb, re, cb, ce, triu}; re == 0 / ce == 0 mean "up to the end"
from dvc.vals import Ptr, Ref, RecObj


def _block_fields(ex, st, block):
    if isinstance(block, Ptr):
        if block.oid is None:
            return None
        return st.heap[block.oid].fields
    if isinstance(block, Ref):
        return st.heap[block.oid].fields
    if isinstance(block, dict):
        return block
    raise Unsupported('C block value %r' % (block,))


def _effblock(ex, st, block, nr, nc):
    """Effective block of the C engine as a dict(rb, re, cb, ce, triu)."""
    f = _block_fields(ex, st, block)
    nr, nc = zint(nr), zint(nc)
    if f is None:     # NULL: every (r, c) pair
        return dict(rb=z3.IntVal(0), re=nr, cb=z3.IntVal(0), ce=nc, triu=z3.BoolVal(False))
    re, ce = zint(f['re']), zint(f['ce'])
    return dict(rb=zint(f['rb']), re=z3.If(re == 0, nr, re), cb=zint(f['cb']), ce=z3.If(ce == 0, nc, ce),
                triu=zbool(f['triu']))


def _decodable(ex, st, block, nr, nc):
    """What the Cython wrappers hand to C: all-zero bounds (no block) or a valid explicit block."""
    f = _block_fields(ex, st, block)
    if f is None:
        return True
    rb, re, cb, ce = [zint(f[k]) for k in ('rb', 're', 'cb', 'ce')]
    nr, nc = zint(nr), zint(nc)
    return z3.Or(z3.And(rb == 0, re == 0, cb == 0, ce == 0),
                 z3.And(0 <= rb, rb < re, re <= nr, 0 <= cb, cb < ce, ce <= nc))


def _py_effblock(ex, st, block, nr, nc):
    f = _block_fields(ex, st, block)
    if f is None:
        return dict(rb=0, re=nr, cb=0, ce=nc, triu=False)
    return dict(rb=f['rb'], re=f['re'] or nr, cb=f['cb'], ce=f['ce'] or nc, triu=bool(f['triu']))


def _py_decodable(ex, st, block, nr, nc):
    f = _block_fields(ex, st, block)
    if f is None:
        return True
    rb, re, cb, ce = f['rb'], f['re'], f['cb'], f['ce']
    return (rb == re == cb == ce == 0) or (0 <= rb < re <= nr and 0 <= cb < ce <= nc)


spec('EffBlock', z3=_effblock, py=_py_effblock, doc='block the C engine works on after decoding re/ce == 0')
spec('DecodableBlock', z3=_decodable, py=_py_decodable)

induction_lemma(
    'RowsBeyond', [_rb2, _cb2, _ce2, _a2], _kk, _a2,
    hyp=lambda k: z3.And(_a2 >= _rb2, _a2 >= _ce2 - 1),
    prop=lambda k: LenRowsf(_rb2, k, _cb2, _ce2, True) == LenRowsf(_rb2, _a2, _cb2, _ce2, True),
    patterns=lambda k: [z3.MultiPattern(LenRowsf(_rb2, _a2, _cb2, _ce2, True), LenRowsf(_rb2, k, _cb2, _ce2, True))],
    doc='rows at or beyond the last column select no pair in a triangular block', props=('C06',),
    axioms=layout_axioms())

induction_lemma(
    'LenFullBeyond', [_n], _kk, _n,
    hyp=lambda k: _n >= 0,
    prop=lambda k: 2 * LenRowsf(0, k, 0, _n, True) == _n * _n - _n,
    doc='rows beyond the last column add nothing: LenRows(0,k,0,n) = n(n-1)/2 for k >= n', props=('C06',),
    axioms=layout_axioms() + LEMMAS['LenFullClosed'].axioms())

induction_lemma(
    'LenRowsNonneg', [_rb2, _cb2, _ce2, _t2], _kk, _rb2,
    hyp=lambda k: z3.BoolVal(True),
    prop=lambda k: LenRowsf(_rb2, k, _cb2, _ce2, _t2) >= 0,
    patterns=lambda k: [LenRowsf(_rb2, k, _cb2, _ce2, _t2)],
    doc='a number of pairs is never negative', props=('C06',), axioms=layout_axioms())


def _intdtype(ex, st, a):
    from dvc.libmodels import dtype_is_int
    return dtype_is_int(st.heap[a.oid])


spec('IntDtype', z3=_intdtype, py=_intdtype, doc='the ndarray has an integer dtype (usable as a fancy index)')
