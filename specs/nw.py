"""Specification of the generic dynamic programme dp.dp as Needleman-Wunsch uses it (C17).

Scores are *costs* (dp minimises; needleman_wunsch negates the result):

    sub(i, j)    cost of aligning s1[i] with s2[j]          (default: -1 match, +1 mismatch)
    gap          cost of one gap                              (default 1; make_substitution_fn(gap=g): g)
    S(0, j)   =  j * gap            S(i, 0) = i * gap         (an alignment that starts with j resp. i gaps)
    S(i+1, j+1) = min( gap + S(i+1, j) + 0,  gap + S(i, j+1) + 0,  sub(i, j) + S(i, j) )     inside the band
                  inf                                                                          outside

That S(r, c) is the minimum total cost over all global alignments (= minus the maximum score) is the
standard Bellman argument (specs/lean/NW.lean).  The border is taken from the property statement
(every gap costs `gap`), not from the code: alignment._needleman_wunsch_border charges 1 per gap.
mode 0: the default substitution function of /repo (executed);  mode 1: an arbitrary callback returning
(SubF(v1, v2), GapC) -- the shape make_substitution_fn produces.
"""
import z3
from dvc.contracts import spec, THEORIES, fuel_function
from dvc.vals import IntS, Val, vadd, vmul, vlt, vinf, vzero, vlit, vofreal, Opt, cs_has
from dvc.ops import zint, zbool
from dvc.state import Unsupported
from specs.bounds import AV, series_parts, min2
from specs.dtw import band, CtxValue

SubF = z3.Function('nw_SubF', Val, Val, Val)
GapC = z3.Const('nw_GapC', Val)
# a1 o1 r  a2 o2 c  w  mode
NW_SORTS = [AV, IntS, IntS, AV, IntS, IntS, IntS, IntS]
NN = len(NW_SORTS)


def i2v(k):
    return vofreal(z3.ToReal(k))


def sub_term(ctx, i, j):
    a1, o1, r, a2, o2, c, w, mode = ctx
    x, y = z3.Select(a1, o1 + i), z3.Select(a2, o2 + j)
    return z3.If(mode == 0, z3.If(x == y, vlit(-1), vlit(1)), SubF(x, y))


def gap_term(ctx):
    return z3.If(ctx[7] == 0, vlit(1), GapC)


def border_term(ctx, k):
    # k gaps; for the default gap cost 1 this is the number itself (1 * k is exact)
    return z3.If(ctx[7] == 0, i2v(k), vmul(i2v(k), GapC))


def _s_body(rec, *args):
    ctx = args[:NN]
    i, j = args[NN], args[NN + 1]
    a1, o1, r, a2, o2, c, w, mode = ctx
    g = gap_term(ctx)
    left = vadd(vadd(g, rec(*ctx, i, j - 1)), vlit(0))
    above = vadd(vadd(g, rec(*ctx, i - 1, j)), vlit(0))
    diag = vadd(sub_term(ctx, i - 1, j - 1), rec(*ctx, i - 1, j - 1))
    inner = z3.If(band(i - 1, j - 1, r, c, w), min2(min2(left, above), diag), vinf)
    return z3.If(i <= 0, z3.If(j >= 0, z3.If(j == 0, vzero, border_term(ctx, j)), vinf),
                 z3.If(j <= 0, z3.If(j == 0, border_term(ctx, i), vinf), inner))


Sf, s_axioms = fuel_function('NWS', NW_SORTS + [IntS, IntS], Val, _s_body, fuel=1)
THEORIES['nw'] = lambda: s_axioms()
from dvc.vals import cset_axioms  # noqa: E402
THEORIES['cset'] = cset_axioms


def _nwctx(ex, st, s1, s2, window, mode):
    a1, o1 = series_parts(ex, st, s1)
    a2, o2 = series_parts(ex, st, s2)
    r = zint(ex.bi_len([s1], {}, None, st))
    c = zint(ex.bi_len([s2], {}, None, st))
    if window is None:
        w = z3.If(r > c, r, c)
    elif isinstance(window, Opt):
        w = z3.If(zbool(window.isnone), z3.If(r > c, r, c), zint(window.v))
    else:
        w = zint(window)
    raw = (a1, o1, r, a2, o2, c, w, zint(mode))
    names = ['a1', 'o1', 'r', 'a2', 'o2', 'c', 'w', 'mode']
    out, defs = [], []
    for n, t in zip(names, raw):
        if z3.is_const(t) or z3.is_int_value(t):
            out.append(t)
        else:
            k = z3.Const('nwctx_' + n, t.sort())
            defs.append(k == t)
            out.append(k)
    v = CtxValue(('nwctx',) + tuple(out))
    v.defs = defs
    return v


def cur(ex):
    c = ex.spec_env.get('ctx')
    if not (isinstance(c, tuple) and c and c[0] == 'nwctx'):
        raise Unsupported('NWS(...) needs a bound ghost `ctx` = NWctx(...) in the contract')
    return c[1:]


spec('NWctx', z3=_nwctx, doc='specification context of one alignment problem')
spec('NWS', z3=lambda ex, st, i, j: Sf(*cur(ex), zint(i), zint(j)), doc='alignment cost recurrence')
spec('NWSub', z3=lambda ex, st, i, j: sub_term(cur(ex), zint(i), zint(j)))
spec('NWGap', z3=lambda ex, st: gap_term(cur(ex)))
spec('NWWnd', z3=lambda ex, st: cur(ex)[6])
spec('InBandNW', z3=lambda ex, st, i, j: band(zint(i), zint(j), cur(ex)[2], cur(ex)[5], cur(ex)[6]))
spec('GapC', z3=lambda ex, st: GapC)
# the abstract callback: fn(v1, v2) -> (SubF(v1, v2), GapC)
spec('NWSubstFn', z3=lambda ex, st, v1, v2: (SubF(vlit(v1), vlit(v2)), GapC))


# ---------------------------------------------------------------------------------------------
# concrete evaluator (mode 0 only: the abstract callback has no concrete counterpart)
class PyNW:
    def __init__(self, a1, a2, w):
        self.a1, self.a2, self.r, self.c, self.w = a1, a2, len(a1), len(a2), w
        self.memo = {}

    def band(self, i, j):
        r, c, w = self.r, self.c, self.w
        return (i - max(0, r - c) - w < j < i + max(0, c - r) + w) and 0 <= j < c and 0 <= i < r

    def sub(self, i, j):
        return -1 if self.a1[i] == self.a2[j] else 1

    def S(self, i, j):
        inf = float('inf')
        if i <= 0:
            return (0.0 if j == 0 else float(j)) if j >= 0 else inf
        if j <= 0:
            return float(i) if j == 0 else inf
        if j > self.c or i > self.r:
            return inf
        if (i, j) not in self.memo:
            for a in range(1, i + 1):
                for b in range(1, self.c + 1):
                    if (a, b) in self.memo:
                        continue
                    if self.band(a - 1, b - 1):
                        v = min(1 + self.S(a, b - 1) + 0, 1 + self.S(a - 1, b) + 0, self.sub(a - 1, b - 1) + self.S(a - 1, b - 1))
                    else:
                        v = inf
                    self.memo[(a, b)] = v
        return self.memo[(i, j)]


def _py_nwctx(ex, st, s1, s2, window, mode):
    from specs.dtw import _py_series
    if mode != 0:
        raise Unsupported('abstract substitution callback: no concrete evaluation')
    a1, a2 = _py_series(ex, st, s1), _py_series(ex, st, s2)
    return PyNW(a1, a2, max(len(a1), len(a2)) if window is None else window)


def _pn(ex):
    c = ex.spec_env.get('ctx')
    if not isinstance(c, PyNW):
        raise Unsupported('no concrete alignment context bound')
    return c


from dvc.contracts import SPECS as _SPECS  # noqa: E402
_SPECS['NWctx'].py = _py_nwctx
_SPECS['NWS'].py = lambda ex, st, i, j: _pn(ex).S(i, j)
_SPECS['NWSub'].py = lambda ex, st, i, j: _pn(ex).sub(i, j)
_SPECS['NWGap'].py = lambda ex, st: 1
_SPECS['NWWnd'].py = lambda ex, st: _pn(ex).w
_SPECS['InBandNW'].py = lambda ex, st, i, j: _pn(ex).band(i, j)
