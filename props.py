"""Property registry: which functions of /repo are under contract for each property, which lemmas
carry the argument, which bounded stand-ins and self-tests run."""

PY_A1 = 'A1: Python semantics as encoded by dvc (unbounded ints, abstract non-NaN doubles, IndexError/ZeroDivision as obligations)'
A3_NUMPY = 'A3: NumPy/array/math behave as modelled in dvc/libmodels.py'
A7 = 'A7: z3 / cvc5 answers are believed'

PROPS = {
    'C06': dict(
        modules=['contracts.dtw_matrix_py', 'contracts.dtw_matrix_c'],
        contracts=['dtw._distance_matrix_length', 'dtw._complete_block', 'dtw._distance_matrix_idxs',
                   'dtw.distance_matrix_python', 'dtw.distance_array_index', 'dtw.distances_array_to_matrix',
                   'dd_dtw.c::dtw_block_is_valid', 'dd_dtw.c::dtw_distances_length',
                   'dd_dtw.c::dtw_distances_ptrs', 'dd_dtw.c::dtw_distances_ndim_ptrs',
                   'dd_dtw.c::dtw_distances_matrix', 'dd_dtw.c::dtw_distances_ndim_matrix',
                   'dd_dtw.c::dtw_distances_matrices', 'dd_dtw.c::dtw_distances_ndim_matrices'],
        lemmas=['LenFullClosed', 'LenRectClosed', 'RowsBefore', 'RowsBeyond', 'LenFullBeyond', 'LenRowsNonneg'],
        level='proof',
        level_text='Unbounded proof obligations (z3/cvc5) generated from the real Python/C functions that compute block lengths, pair order and the condensed layout; postcondition = row-major rank of the selected pairs, for every block and every number of series.',
        level_note='Trusted: dvc encoding of Python/C semantics (A1/A2), NumPy model (A3), solvers (A7). The per-pair value is the contract of the distance routine (C01/C02), not re-proved here.',
        trusted_base=[PY_A1, A3_NUMPY, A7],
        assumptions=[PY_A1, A3_NUMPY, A7],
    ),
}


NOT_APPLICABLE = {p: 'not decided yet: machinery for this property is still being built (see DESIGN.md §9 order of work)' for p in ['C01', 'C02', 'C03', 'C04', 'C05', 'C06', 'C07', 'C08', 'C09', 'C10', 'C11', 'C12', 'C13', 'C14', 'C15', 'C16', 'C17', 'C18', 'C19', 'C20'] if p not in PROPS}
