"""Property registry: which functions of /repo are under contract for each property, which lemmas
carry the argument, which bounded stand-ins and self-tests run."""

PY_A1 = 'A1: Python semantics as encoded by dvc (unbounded ints, abstract non-NaN doubles, IndexError/ZeroDivision as obligations)'
A3_NUMPY = 'A3: NumPy/array/math behave as modelled in dvc/libmodels.py'
A7 = 'A7: z3 / cvc5 answers are believed'

PROPS = {
    'C06': dict(
        modules=['contracts.dtw_matrix_py', 'contracts.dtw_matrix_c', 'contracts.dtw_mp_py', 'contracts.dtw_dispatch_py'],
        contracts=['dtw._distance_matrix_length', 'dtw._complete_block', 'dtw._distance_matrix_idxs',
                   'dtw.distance_matrix_python', 'dtw.distance_array_index', 'dtw.distances_array_to_matrix',
                   'dtw.distance_matrix#serial', 'dtw.distance_matrix#square', 'dtw.distance_matrix#mp',
                   'dd_dtw.c::dtw_block_is_valid', 'dd_dtw.c::dtw_distances_length',
                   'dd_dtw.c::dtw_distances_ptrs', 'dd_dtw.c::dtw_distances_ndim_ptrs',
                   'dd_dtw.c::dtw_distances_matrix', 'dd_dtw.c::dtw_distances_ndim_matrix',
                   'dd_dtw.c::dtw_distances_matrices', 'dd_dtw.c::dtw_distances_ndim_matrices'],
        lemmas=['LenFullClosed', 'LenRectClosed', 'RowsBefore', 'RowsBeyond', 'LenFullBeyond', 'LenRowsNonneg'],
        level='proof',
        level_text='Unbounded proof obligations (z3/cvc5) generated from the real Python/C functions that compute block lengths, pair order and the condensed layout; postcondition = row-major rank of the selected pairs, for every block and every number of series.',
        level_note='Trusted: dvc encoding of Python/C semantics (A1/A2), NumPy model (A3), solvers (A7). The per-pair value is the contract of the distance routine (C01/C02), not re-proved here. '
                   'The public entry point dtw.distance_matrix is under contract for its pure-Python routes: serial compact (#serial), serial square form with and without only_triu (#square, on top of the '
                   'contracts of distance_matrix_python and distances_array_to_matrix) and multiprocessing (#mp, C07); options go through the real DTWSettings. Its C routes (Cython wrappers) stay trusted (A5).',
        trusted_base=[PY_A1, A3_NUMPY, A7],
        assumptions=[PY_A1, A3_NUMPY, A7],
    ),
}


def _kernel_frames(run):
    """[F4] re-entrancy of the kernels the parallel loops call: no store through a caller-owned
    object, no store to a file-scope variable (frame-only pass, every path)."""
    from dvc import verify
    P = {'s1': 'cptr:val', 'l1': 'int', 's2': 'cptr:val', 'l2': 'int', 'settings': ('cstruct', 'DTWSettings')}
    Pn = dict(list(P.items())[:4] + [('ndim', 'int')] + list(P.items())[4:])
    run.program.function('dd_dtw.c::dtw_distance')
    obs = []
    stats = {}
    for n, pp in (('dtw_distance', P), ('dtw_distance_euclidean', P), ('dtw_distance_ndim', Pn),
                  ('dtw_distance_ndim_euclidean', Pn)):
        o, st = verify.frame_only(run.program, 'dd_dtw.c::' + n, pp)
        obs += o
        stats['dd_dtw.c::' + n] = dict(paths=st['paths'], stores_examined=st['stores_examined'],
                                       frame_obligations=len(o))
    run.evidence_extra['kernel_frame_analysis'] = stats
    return obs


PROPS['C07'] = dict(
    modules=['contracts.dtw_matrix_c', 'contracts.dtw_omp_c', 'contracts.dtw_mp_py'],
    contracts=['dd_dtw_openmp.c::dtw_distances_prepare'] + [
        'dd_dtw_openmp.c::dtw_distances_%s_parallel' % k for k in
        ('ptrs', 'ndim_ptrs', 'matrix', 'ndim_matrix', 'matrices', 'ndim_matrices')] + ['dtw.distance_matrix#mp'],
    lemmas=['LenFullClosed', 'LenRectClosed', 'RowsBefore', 'RowsBeyond', 'LenFullBeyond', 'LenRowsNonneg'],
    extra_obligations=_kernel_frames,
    level='proof',
    level_text='Each *_parallel routine is proved (unbounded, all blocks/sizes) to satisfy literally the postcondition '
               'of its serial twin, and its `#pragma omp parallel for` is proved data-race free for two arbitrary '
               'distinct iterations (privatisation, pairwise disjoint writes, no cross-iteration reads, re-entrant '
               'kernels); schedule- and thread-count-independence then follows from the OpenMP memory model (assumed).',
    level_note='Trusted: OpenMP runtime executes every iteration exactly once and a race-free loop is equivalent to a '
               'sequential order (A3); dvc C semantics (A2); solvers (A7). No interleaving is executed. '
               'Multiprocessing: the branch of dtw.distance_matrix that maps the pure-Python kernel over a process pool is under '
               'contract (dtw.distance_matrix#mp: for every block form the compact result holds, at the row-major rank of each '
               'selected pair, the value dtw.distance returns for that pair in that argument order with the same options -- '
               'literally the postcondition of the serial routine distance_matrix_python), with multiprocessing.Pool.map assumed '
               'order-preserving (A3) and imap_unordered modelled as returning the results in an unknown order; SeriesContainer.wrap '
               'is an assumed identity on contents; the except-ImportError handler around `import multiprocessing` is dropped. '
               'The branch that maps the C single-pair wrapper (use_c=True, use_mp=True) has the same text with another kernel '
               'function and is not separately proved (Cython call, A5).',
    trusted_base=['A2: C semantics as encoded by dvc', 'A3: OpenMP runtime / memory model', A7],
    assumptions=['A2', 'A3 (OpenMP; multiprocessing.Pool.map order-preserving)', PY_A1, A7],
    not_decided=['multiprocessing around the C single-pair routine (use_c=True, use_mp=True): same code shape as the proved Python-kernel '
                 'branch, not separately proved', 'multivariate (use_ndim) multiprocessing branch'],
    technique='contract-based deductive verification + data-race-freedom obligations (two-iteration non-interference) discharged by z3',
)

def _sandwich_bridges(run):
    """z3 obligations that connect the specification theory (specs/dtw.py, specs/bounds.py) to the hypotheses of the Lean lemmas
    lb_le_W / W_le_diag / W_le_padRow / W_le_padCol (specs/lean/Sandwich.lean)."""
    import z3
    from dvc.state import Obligation, CannotBind
    from dvc.vals import Val, vlt, vinf, vzero, vadd, vsub, vmul, vabs, order_axioms, arith_axioms
    from dvc import leancheck
    from specs.dtw import band, nonneg_axioms
    from specs.bounds import idist_term, JS, JE, float_gap_axioms
    st = leancheck.ensure(['Sandwich.lean'])
    run.evidence_extra['lean'] = st
    if not all(v['accepted'] for v in st.values()):
        raise CannotBind('a Lean lemma file was rejected: %s' % st)
    i, j, r, c, w, k = z3.Ints('i j r c w k')
    x, y, L, U, d, acc, pen = z3.Consts('x y L U d acc pen', Val)
    mt = z3.Int('metric')
    le = lambda a, b: z3.Not(vlt(b, a))       # noqa: E731
    obs = []

    def ob(name, hyps, goal, note, ax=()):
        obs.append(Obligation('bridge::' + name, 'bridge', hyps, goal, 'lemma:C09-bridge', props=('C09',), note=note, axioms=list(ax)))
    # LBHyp.env, part 1: the envelope window of LB_Keogh (specification LBsum: columns JS(i) .. JE(i)-1) is the band of row i
    ob('band-is-envelope-window', [w >= 1, r >= 1, c >= 1, 0 <= i, i < r],
       band(i, j, r, c, w) == z3.And(JS(i, r, c, w) <= j, j < JE(i, r, c, w)),
       'every allowed cell of row i lies in the window LB_Keogh takes the envelope over, and vice versa')
    # LBHyp.env, part 2: a value inside the envelope is at least as far from x as the envelope edge x lies beyond
    e = z3.If(vlt(U, x), idist_term(mt, x, U), z3.If(vlt(x, L), idist_term(mt, x, L), vzero))
    ob('envelope-bounds-cell', [z3.Or(mt == 0, mt == 1), le(L, y), le(y, U)], le(e, idist_term(mt, x, y)),
       'e_i <= d(i, j): the term LB_Keogh adds for row i is at most the point distance to any value between the envelopes',
       order_axioms() + nonneg_axioms() + float_gap_axioms())
    # LBHyp.d_nonneg, add_infl, pen_infl
    ob('cost-nonneg', [z3.Or(mt == 0, mt == 1)], le(vzero, idist_term(mt, x, y)), 'point distances are not negative',
       order_axioms() + nonneg_axioms())
    ob('add-inflationary', [le(vzero, d)], z3.And(le(acc, vadd(d, acc)), le(acc, vadd(acc, d))),
       'adding a non-negative cost (or penalty) does not decrease the accumulated value', order_axioms() + nonneg_axioms())
    # Mono / add_mono_left
    ob('add-monotone', [le(x, y)], z3.And(le(vadd(d, x), vadd(d, y)), le(vadd(x, d), vadd(y, d))),
       'rounded addition is monotone in either argument', order_axioms() + arith_axioms())
    # the upper-bound paths stay inside the band: the diagonal, then the last row (l1 < l2) or the last column (l1 > l2)
    ob('diagonal-in-band', [w >= 1, 0 <= k, k < r, k < c], band(k, k, r, c, w), 'every diagonal cell is in the band for any window >= 1')
    ob('last-row-in-band', [w >= 1, r >= 1, r <= c, r - 1 <= j, j < c], band(r - 1, j, r, c, w),
       'series 1 shorter: the cells (l1-1, j), j >= l1-1, that the padded Euclidean sum walks through are in the band')
    ob('last-column-in-band', [w >= 1, c >= 1, c <= r, c - 1 <= i, i < r], band(i, c - 1, r, c, w),
       'series 2 shorter: the cells (i, l2-1), i >= l2-1, are in the band')
    return obs


PROPS['C09'] = dict(
    modules=['contracts.ed_c', 'contracts.bounds_c', 'contracts.bounds_py'],
    contracts=['dd_ed.c::euclidean_distance', 'dd_ed.c::euclidean_distance_euclidean',
               'dd_ed.c::euclidean_distance_ndim', 'dd_ed.c::euclidean_distance_ndim_euclidean',
               'dd_dtw.c::ub_euclidean', 'dd_dtw.c::ub_euclidean_euclidean', 'dd_dtw.c::ub_euclidean_ndim',
               'dd_dtw.c::ub_euclidean_ndim_euclidean', 'dd_dtw.c::lb_keogh', 'dd_dtw.c::lb_keogh_euclidean',
               'ed.distance', 'dtw.ub_euclidean', 'dtw.lb_keogh', 'dtw.lb_keogh#euclid'],
    lemmas=[],
    extra_obligations=_sandwich_bridges,
    level='proof',
    level_text='Code = spec, unbounded: every Euclidean-bound routine (C, uni- and multivariate, both inner distances) '
               'returns exactly the padded Euclidean sum of the property statement, in the order the loops add it '
               '(bit-exact for IEEE doubles at level U).',
    level_note='Trusted: dvc C semantics (A2), libm sqrt/fabs as functions (A3), pow(d,2)==d*d (A3), solvers (A7). '
               'The sandwich LB_Keogh <= DTW <= Euclidean bound is machine-checked over the specification: Lean lemmas '
               'lb_le_W, W_le_diag, W_le_padRow, W_le_padCol (specs/lean/Sandwich.lean) over any linear order with a monotone, '
               'inflationary add -- no associativity, so they hold for rounded double addition in the order the code adds -- '
               'and eight z3 bridge obligations that discharge their hypotheses from the specification theory (the envelope '
               'window is the band; an in-envelope value is at least the envelope term away; costs non-negative; rounded '
               'addition monotone and inflationary; diagonal / last row / last column inside the band). IEEE facts assumed '
               '(A3, listed in specs/bounds.py float_gap_axioms, specs/dtw.py nonneg_axioms, dvc/vals.py arith_axioms): '
               'rounded - monotone/antitone, x - y >= 0 for y <= x, squaring monotone on non-negatives, |v| = v for v >= 0, '
               'sign symmetry, + monotone, x <= x + d for d >= 0.',
    trusted_base=['A2: C semantics as encoded by dvc', 'A3: libm and the listed IEEE facts', A7, 'Lean 4 kernel + Mathlib'],
    assumptions=['A2', 'A3 (libm, IEEE monotonicity facts)', A7],
    not_decided=['the correspondence between the Lean accumulators (lb, diagCost, padRowCost) and the specification sums LBsum / '
                 'EDsum is by reading: both add the same terms in the same order, the Lean ones with the term first (rounded + is '
                 'commutative) and adding 0 where LB_Keogh skips a row (x + 0 == x)',
                 'valid only as the property says: no max_step, and no penalty unless the lengths are equal (pen = identity on the '
                 'padded part); result_fn (sqrt) is monotone'],
)

PROPS['C01'] = dict(
    modules=['contracts.dtw_py'],
    contracts=['dtw.distance'],
    lemmas=['BufFold', 'BufFold2', 'RowAllInf', 'RowLeadInf'],
    bounded={'python-distance-vs-path-enumeration': lambda run: __import__('bounded.dtw_sweep', fromlist=['x']).sweep_python_distance(run)},
    level='proof',
    level_text='The real dtw.distance (rolling two-row buffer, window, penalty, max_step, begin- and end-psi as int or '
               '4-tuple, max_length_diff, both built-in inner distances, through the real DTWSettings / inner_dist_fns '
               'code) is proved, for all lengths and values, to return result_fn of the accumulated-cost recurrence W '
               'read at the psi-relaxed end; W = optimum over admissible warping paths is the Bellman lemma (Lean).',
    level_note='Trusted: dvc Python semantics (A1), array/NumPy min as left fold (A3), pow(d,2)==d*d (A3), order axioms '
               'of non-NaN doubles (level O), solvers (A7). max_dist / use_pruning are C03 and are excluded here by '
               'precondition; user-supplied inner-distance objects are not yet covered.',
    trusted_base=[PY_A1, A3_NUMPY, A7],
    assumptions=[PY_A1, A3_NUMPY, A7],
    not_decided=['max_dist and use_pruning (C03)', 'user-supplied inner distance object',
                 'W == optimum over warping paths: Lean lemma specs/lean/Bellman.lean (checked by setup)'],
)

PROPS['C02'] = dict(
    modules=['contracts.dtw_c', 'contracts.dtw_py'],
    contracts=['dd_dtw.c::dtw_distance', 'dd_dtw.c::dtw_distance_ndim', 'dd_dtw.c::dtw_distance_euclidean',
               'dd_dtw.c::dtw_distance_ndim_euclidean'],
    lemmas=['RowAllInf', 'RowLeadInf', 'FoldMinIsMin'],
    bounded={'c-kernels-vs-path-enumeration-and-python': lambda run: __import__('bounded.dtw_sweep', fromlist=['x']).sweep_c_distance(run)},
    level='proof',
    level_text='The four C kernels are proved (unbounded) to return result_fn of the same accumulated-cost recurrence W / '
               'psi-relaxed end value Dend that dtw.distance is proved to return (C01), in the same operation order, hence '
               'bit-equal results at level U; bounds, overflow and asserts of the kernels are proved along the way.',
    level_note='Trusted: dvc C semantics (A2), libm pow(x,2)==x*x / sqrt / fabs (A3), order axioms, solvers (A7), Cython '
               'option decoding (A5). max_dist, use_pruning, only_ub are C03/C09 and excluded by precondition. The '
               'distance-matrix routes are C06. Known encoding difference: max_length_diff=0 means "equal lengths only" in '
               'Python and "off" in C (see known_findings.json).',
    trusted_base=['A2: C semantics as encoded by dvc', 'A3: libm', 'A5: Cython wrappers pass options through', A7],
    assumptions=['A2', 'A3', 'A5', A7],
    not_decided=['max_dist / use_pruning / only_ub (C03, C09)', 'Cython option decoding (dtw_cc.pyx DTWSettings.__init__)'],
)

_CM = {'c-matrix-path-chains': lambda run: __import__('bounded.c_sweeps', fromlist=['x']).sweep_c_matrices(run)}
_CML = dict(_CM, **{'c-matrix-large-shapes': lambda run: __import__('bounded.c_sweeps', fromlist=['x']).sweep_c_matrices_large(run)})
_CDBA = {'c-dba-chains': lambda run: __import__('bounded.c_sweeps', fromlist=['x']).sweep_c_dba(run)}
_CAFF = {'c-affinity-chains': lambda run: __import__('bounded.c_sweeps', fromlist=['x']).sweep_c_affinity(run)}
_WPS_LAYOUT = ['dd_dtw.c::dtw_wps_parts', 'dd_dtw.c::dtw_settings_wps_length', 'dd_dtw.c::dtw_settings_wps_width', 'dd_dtw.c::dtw_wps_loc',
               'dd_dtw.c::dtw_wps_loc_columns']
_WPS_VALUE = ['dd_dtw.c::dtw_wps_negativize_value', 'dd_dtw.c::dtw_wps_positivize_value', 'dd_dtw.c::dtw_wps_max']
_TRACEBACK = ['dd_dtw.c::dtw_best_path', 'dd_dtw.c::dtw_best_path_isclose', 'dd_dtw.c::dtw_best_path_customstart',
              'dd_dtw.c::dtw_best_path_affinity']
_ALL_C_PROVED = (PROPS['C09']['contracts'][:10] + PROPS['C06']['contracts'][6:] + PROPS['C07']['contracts'] + PROPS['C02']['contracts']
                 + _WPS_LAYOUT + _WPS_VALUE + _TRACEBACK
                 + ['dd_dtw.c::dtw_settings_default', 'dd_dtw.c::dtw_settings_set_psi', 'dd_dtw.c::dtw_block_empty'])

PROPS['C08'] = dict(
    modules=['contracts.ed_c', 'contracts.bounds_c', 'contracts.dtw_matrix_c', 'contracts.dtw_omp_c', 'contracts.dtw_c', 'contracts.wps_c', 'contracts.bestpath_c', 'contracts.misc_c'],
    contracts=[c for c in _ALL_C_PROVED if '::' in c],
    lemmas=['LenFullClosed', 'LenRectClosed', 'RowsBefore', 'RowsBeyond', 'LenFullBeyond', 'LenRowsNonneg',
            'RowAllInf', 'RowLeadInf', 'FoldMinIsMin'],
    bounded=dict(_CML, **dict(_CAFF, **_CDBA)),
    level='proof',
    level_text='For 44 exported C routines (Euclidean bounds, LB_Keogh, block/length helpers, the six serial and six OpenMP '
               'distance-matrix routines with their prepare step, the four DTW kernels, and the compact-layout helpers dtw_wps_parts, '
               'dtw_settings_wps_length/width, dtw_wps_loc, dtw_wps_loc_columns, dtw_wps_max, dtw_wps_negativize_value/positivize_value, and the tracebacks dtw_best_path, dtw_best_path_isclose, dtw_best_path_customstart, dtw_best_path_affinity (start cell in the band) -- for every content of the compact matrix; and the constructors / setter dtw_settings_default, dtw_block_empty, dtw_settings_set_psi) every array access, every signed idx_t '
               'operation, every division, every assert() and every pointer dereference is a discharged obligation under the '
               'documented buffer sizes, for all lengths/windows/psi/blocks. The remaining exported routines (cost matrix in the '
               'compact layout, expansion, slices, best path, warping path) are covered by a *bounded* sanitizer sweep only.',
    level_note='Trusted: dvc C semantics (A2: mathematical integers + overflow obligations, distinct pointer parameters do not '
               'alias), malloc succeeds (A6), gcc ASan/UBSan for the bounded part. The compact-layout helpers are proved for lengths up to 2**30 '
               '(so that (l1+1)*width fits idx_t). Not covered at all: dtw_best_path_prob, print helpers; the range routines '
               'dtw_wps_negativize/positivize, dtw_dba_* and the affinity kernels only by sanitizer chains.',
    trusted_base=['A2: C semantics as encoded by dvc', 'A6: malloc succeeds', A7],
    assumptions=['A2', 'A6', A7],
    not_decided=['dtw_dba_ptrs/matrix, affinity kernels, the range routines dtw_wps_negativize/positivize: sanitizer chains only; best_path_prob: not covered',
                 'cost-matrix / expansion / path routines: bounded sanitizer sweep only'],
)

PROPS['C04'] = dict(
    modules=['contracts.dtw_py', 'contracts.dtw_c', 'contracts.wps_c'],
    contracts=['dtw.warping_paths', 'dtw.warping_paths#endpsi', 'dtw.warping_paths#psineg'] + _WPS_LAYOUT,
    lemmas=['RowAllInf', 'RowLeadInf', 'RowMinLower', 'RowMinGreatest', 'ArgMinRow', 'PsiColLower', 'PsiColGreatest', 'ArgMinCol',
            'PsiColZero', 'RowMinGreatestSqrt', 'ArgMinRowSqrt', 'PsiColGreatestSqrt', 'ArgMinColSqrt'],
    bounded=dict(_CML, **{'c-wrapper-native-sweep': lambda run: _native_sweep(
        'wps_native.py',
        'random small pairs x window/penalty/psi/max_step/inner distance/psi_neg: dtw.warping_paths_fast (full), '
        'warping_paths_fast(compact=True) + dtw_cc.wps_expand_slice (whole range and a sub-range) against dtw.warping_paths',
        2000, 20000)(run)}),
    level='proof',
    level_text='Python: dtw.warping_paths is proved (unbounded) to return a (len1+1)x(len2+1) matrix whose every cell is '
               'result_fn of the accumulated-cost recurrence W (inf outside the band / beyond max_step) and a distance equal '
               'to result_fn(W(r,c)) -- the value dtw.distance is proved to return (C01) -- for window, penalty, max_step, '
               'begin-psi, both inner distances. C engine: the compact layout itself is under contract -- dtw_wps_parts (functional: width, '
               'length, region boundaries ri1 <= ri2 <= ri3, transformed penalty / max_step / max_dist), dtw_settings_wps_length/width, '
               'dtw_wps_loc and dtw_wps_loc_columns (location = R*width + c - shift(R); every in-band cell has a location, every location '
               'lies inside its own row of the advertised buffer, hence distinct cells never share a slot). The C fill, expansion and '
               'slices: bounded chains against the path-enumeration oracle only.',
    level_note='Second contract stage (dtw.warping_paths#endpsi): with end-of-series psi relaxation the returned value is '
               'result_fn of Dend (the value dtw.distance is proved to return), selected by np.argmin over the reversed last '
               'column / row (argmin modelled as "first minimal element", 13 induction / derived lemmas connect it to the folds '
               'PsiCol / WRowMin, also through the element-wise square root), for keep_int_repr True and False, psi_neg=False. '
               'Third stage (dtw.warping_paths#psineg): the -1 marking is a run on the relaxed end of the last column or row that is '
               'closed towards the corner, consists of cells strictly worse than the returned value, and is preceded by the cell '
               'holding that value; every other cell holds result_fn(W). One known finding (infinite distance: KF-C04-3). '
               'The C cost-matrix family is bounded only.',
    trusted_base=[PY_A1, A3_NUMPY, A7],
    assumptions=[PY_A1, A3_NUMPY, A7],
    not_decided=['Python: max_dist (C03)',
                 'C: unbounded proof of dtw_warping_paths_ndim / dtw_expand_wps(_slice) (bounded only)'],
)

PROPS['C05'] = dict(
    modules=['contracts.dtw_c', 'contracts.paths_py', 'contracts.wps_c', 'contracts.bestpath_c'],
    contracts=['dtw.best_path', 'dtw.best_path#wf', 'dtw.best_path#cost', 'dtw.warping_path', 'dtw.warping_path#cost',
               'dd_dtw.c::dtw_best_path', 'dd_dtw.c::dtw_best_path_isclose', 'dd_dtw.c::dtw_best_path_customstart'],
    lemmas=['WNonneg'],
    bounded=dict(_CM, **{'path-validity-native-sweep': lambda run: _native_sweep(
        'paths_native.py',
        'random small pairs x window/penalty/psi/inner distance x {warping_path, warping_path_fast, best_path on a Python matrix, '
        'best_path on a C matrix}: contiguous monotone steps, inside the band, psi-relaxed corners, accumulated cost == distance',
        1500, 15000)(run)}),
    level='proof',
    level_text='Python engine, no psi relaxation: dtw.best_path is proved, for every matrix without -1 marks and every penalty, to '
               'return a non-empty list of index pairs that ends in the lower-right corner, starts on the first row or column, '
               'stays inside the matrix, uses only the steps (1,1), (1,0), (0,1), and goes back at every step to the first least '
               'of the three candidates [diagonal, up + penalty, left + penalty]; on a matrix shaped like a cost matrix (infinite '
               'borders, every finite cell has a finite candidate) it starts in (0, 0) and visits finite cells only. '
               'dtw.warping_path is proved on top of the contracts of dtw.warping_paths (C04) and dtw.best_path: for all lengths, '
               'windows, penalties, max_step, both inner distances, whenever a path exists the result is a contiguous monotone path '
               'from (0, 0) to (r-1, c-1) whose cells all have finite accumulated cost (so inside the window band and within '
               'max_step). Cost clause: on a matrix obeying the recurrence for some point-cost function and the penalty handed '
               'to best_path, every link of the path is exact (cell = point cost + value of the cell it came from, + penalty for a '
               'non-diagonal step); for dtw.warping_path with the Euclidean inner distance and no penalty this gives '
               'W(cell k+1) = Cost(cell k+1) + W(cell k) along the whole path and W(1,1) = Cost(0,0): the cost accumulated along '
               'the path is the reported distance. All other routes (psi relaxation, C engine, compact matrices, custom start '
               'cell) and the cost clause for the squared inner distance or with a penalty are bounded sweeps only.',
    level_note='Trusted: dvc Python semantics incl. list append / pop / reverse and np.argmin = first minimum (A1, A3), order axioms '
               'of non-NaN doubles, IEEE facts sqrt(x) >= 0, sqrt monotone, x + 0 == x, adding a non-negative term does not decrease, '
               'solvers (A7). Lemma WNonneg (W >= 0) by induction on the anti-diagonal. Genuine defects recorded by the sweep: '
               'KF-C05-1..3 (psi relaxation, Python penalty ignored by warping_path, dropped inner_dist in warping_path_fast). '
               'C engine: dd_dtw.c::dtw_best_path under contract for its index behaviour (contracts/bestpath_c.py): the position in the '
               'compact matrix is wpsi == cip - shift(rip) in all three region loops, which is what a wrong corner / region boundary breaks.',
    trusted_base=[PY_A1, A3_NUMPY, A7],
    assumptions=[PY_A1, A3_NUMPY, A7, 'bounded part: lengths <= 6 (native), <= 4/5 (chains)'],
    not_decided=['accumulated cost along the path == distance for the squared inner distance (the traceback runs on square-rooted '
                 'cells, whose first minimum need not be the first minimum of the cells) and with a penalty (dtw.warping_path does not '
                 'pass it on: KF-C05-2): bounded only; the telescoping of the exact links into one sum is a one-line induction stated '
                 'in DESIGN 10.11, not machine-checked',
                 'psi-relaxed start / end cells and the -1 marks: bounded only',
                 'C tracebacks dtw_best_path, _isclose, _customstart (start cell in the band): the value-independent part is proved for every content of the compact matrix (all reads '
                 'inside the buffer of the advertised size, all writes inside the l1+l2 index arrays, emitted pairs are series indices, '
                 'non-increasing in both coordinates, at most l1+l2 of them, wps unchanged); that each step goes to a least candidate and '
                 'the cost clause: bounded only (sanitizer chains + native sweep); dtw_best_path_prob: bounded only', 'dtw_ndim.warping_path, custom start cell (row / col): bounded only'],
    technique='sidecar contracts on the real dtw.best_path and dtw.warping_path (modular: callee contracts at the two calls), VCs '
              'discharged by z3 / cvc5; symbolic lists of index pairs; bounded sweep of all path routines of both engines',
)


def _law_bridges(run):
    """z3 obligations that connect the specification theory (specs/dtw.py) to the hypotheses of the Lean
    lemmas W_relax / W_swap: comparable settings give a `Relaxes` pair; the swapped problem is `swap`."""
    import z3
    from dvc.state import Obligation
    from dvc.vals import Val, vlt, vinf, vzero, vadd, order_axioms, arith_axioms
    from dvc import leancheck
    from specs.dtw import band
    from specs.bounds import float_sym_axioms, idist_term
    st = leancheck.ensure(['Bellman.lean', 'DTWLaws.lean'])
    run.evidence_extra['lean'] = st
    if not all(v['accepted'] for v in st.values()):
        from dvc.state import CannotBind
        raise CannotBind('a Lean lemma file was rejected: %s' % st)
    i, j, r, c, w, w2, p, p2 = z3.Ints('i j r c w w2 p p2')
    x, y, m, m2, pen, pen2, d = z3.Consts('x y m m2 pen pen2 d', Val)
    le = lambda a, b: z3.Not(vlt(b, a))
    obs = []

    def ob(name, hyps, goal, note, ax=()):
        obs.append(Obligation('bridge::' + name, 'bridge', hyps, goal, 'lemma:C10-bridge', props=('C10',), note=note,
                              axioms=list(ax)))
    ob('window-relaxes-band', [w >= 1, w <= w2, band(i, j, r, c, w)], band(i, j, r, c, w2),
       'a wider window only adds cells to the band (allowed ⊆ allowed\')')
    ob('max_step-relaxes-allowed', [le(m, m2), z3.Not(vlt(m, d))], z3.Not(vlt(m2, d)),
       'a larger max_step only adds admissible pairs', order_axioms())
    ob('psi-relaxes-border', [p <= p2, 0 <= j], le(z3.If(j <= p2, vzero, vinf), z3.If(j <= p, vzero, vinf)),
       'more psi relaxation only lowers the virtual border (init\' <= init)', order_axioms())
    ob('penalty-monotone', [le(pen, pen2), le(x, y), x != z3.Const('vninf', Val), y != z3.Const('vninf', Val)],
       le(vadd(x, pen), vadd(y, pen2)), 'x <= y and pen <= pen\' give x+pen <= y+pen\' (rounded addition is monotone)',
       order_axioms() + arith_axioms())
    ob('band-symmetric', [w >= 1], band(i, j, r, c, w) == band(j, i, c, r, w),
       'the band of the swapped problem is the transposed band')
    mt = z3.Int('metric')
    ob('cost-symmetric', [z3.Or(mt == 0, mt == 1)], idist_term(mt, x, y) == idist_term(mt, y, x),
       'the point distance is symmetric ((a-b)^2 and |a-b| under sign-symmetric rounding)',
       float_sym_axioms() + [z3.ForAll([x, y], __import__('dvc.vals', fromlist=['vabs']).vabs(
           __import__('dvc.vals', fromlist=['vsub']).vsub(x, y)) == __import__('dvc.vals', fromlist=['vabs']).vabs(
           __import__('dvc.vals', fromlist=['vsub']).vsub(y, x)))])
    return obs


PROPS['C10'] = dict(
    modules=['contracts.dtw_py', 'contracts.dtw_c'],
    contracts=[],
    lemmas=[],
    extra_obligations=_law_bridges,
    bounded={'laws-on-real-code': lambda run: __import__('bounded.laws_sweep', fromlist=['x']).sweep_laws(run)},
    level='proof',
    level_text='Symmetry and option monotonicity are proved for the specification W that both engines are proved to compute '
               '(C01, C02): Lean lemmas W_swap (swapped problem = transposed matrix) and W_relax (wider window, larger '
               'max_step, more psi, smaller penalty never increase a cell), with z3 bridge obligations showing that '
               'comparable settings satisfy the lemma hypotheses. Identity, non-negativity, window-1 = Euclidean and all '
               'laws on the real code of both engines are checked by a bounded sweep.',
    level_note='Trusted: correspondence between the z3 spec text and the Lean Params structure (A4, by inspection), '
               'IEEE sign-symmetric rounding, solvers. Identity / non-negativity / window-1 are bounded only.',
    trusted_base=['A4: z3 spec <-> Lean definitions', 'Lean kernel', A7],
    assumptions=['A4', A7],
    not_decided=['identity, non-negativity, window 1 = Euclidean: bounded sweep only',
                 'monotonicity of the psi-relaxed *end* selection (Dend): follows from min over a larger set, argued not machine-checked'],
    technique='Lean 4 lemmas over the DTW recurrence + z3 bridge obligations + bounded law sweep on the real engines',
)

PROPS['C19'] = dict(
    modules=['contracts.similarity_py'],
    contracts=['similarity.distance_to_similarity', 'similarity.squash'],
    lemmas=[],
    level='proof',
    level_text='The real distance_to_similarity and squash are executed symbolically on two arbitrary elements of a '
               'non-negative array (array statistics are symbols constrained only by what every such array satisfies) and '
               'proved over the reals, per method and parameter form: non-increasing (resp. non-decreasing) in the input, '
               'zero distance gives the maximal similarity, values in [0,1] under the default scale, and the documented '
               'formula when parameters are explicit; every method name reaches its own branch.',
    level_note='Level R: machine arithmetic treated as mathematical; exp/log/sqrt/power are uninterpreted functions with '
               'their defining properties (specs/reals.py); NumPy broadcasting and statistics per A3. Idempotence of '
               're-applying with returned parameters is immediate from the explicit-parameter cases and is not a separate '
               'obligation. cover_quantile tuple forms and keep_sign with negative inputs are not covered.',
    trusted_base=['A1', 'A3: NumPy elementwise semantics / statistics', 'machine arithmetic treated as mathematical', A7],
    assumptions=['A1', 'A3', 'reals for floats', A7],
    not_decided=['cover_quantile tuple forms; keep_sign on arrays with negative entries; return_params=True tuple results'],
)


C20_C_FUNCS = ['dtw_distance', 'dtw_distance_ndim', 'dtw_distance_euclidean', 'dtw_distance_ndim_euclidean',
               'ub_euclidean', 'ub_euclidean_ndim', 'lb_keogh', 'lb_keogh_euclidean', 'dtw_distances_length',
               'dtw_distances_ptrs', 'dtw_distances_ndim_ptrs', 'dtw_distances_matrix', 'dtw_distances_ndim_matrix',
               'dtw_distances_matrices', 'dtw_distances_ndim_matrices', 'dtw_wps_parts', 'dtw_wps_loc', 'dtw_wps_loc_columns',
               'dtw_wps_max', 'dtw_best_path', 'dtw_best_path_isclose', 'dtw_best_path_prob', 'dtw_expand_wps',
               'dtw_expand_wps_slice', 'dtw_warping_paths_ndim', 'dtw_warping_paths_ndim_euclidean', 'dtw_warping_path_ndim',
               'dtw_dba_ptrs', 'dtw_dba_matrix']
C20_PY = {
    'dtw.distance': {'s1': 'series', 's2': 'series', 'only_ub': ('const', False),
                     'kwargs': {'window': 'opt:int', 'penalty': 'opt:val', 'psi': 'nat', 'inner_dist': ('const', 'squared euclidean')}},
    'dtw.warping_paths': {'s1': 'series', 's2': 'series', 'psi_neg': 'bool', 'keep_int_repr': ('const', False),
                          'kwargs': {'window': 'opt:int', 'penalty': 'opt:val', 'inner_dist': ('const', 'squared euclidean')}},
    'dtw.lb_keogh': {'s1': 'series', 's2': 'series', 'kwargs': {'window': 'opt:int', 'inner_dist': ('const', 'squared euclidean')}},
    'ed.distance': {'s1': 'series', 's2': 'series', 'inner_dist': ('const', 'squared euclidean'), 'use_ndim': ('const', False)},
    'dtw._distance_matrix_idxs': {'block': 'block', 'nb_series': 'nat'},
    'dtw._distance_matrix_length': {'block': 'block', 'nb_series': 'nat'},
}


def _c20_frames(run):
    from dvc import frames, cfront
    prog = run.program
    tu = cfront.load_tu(prog, 'dd_dtw.c')
    cfront.load_tu(prog, 'dd_ed.c')
    jobs = []
    skipped = {}
    for n in C20_C_FUNCS:
        fi = tu.functions.get(n)
        if fi is None:
            skipped[n] = 'not found'
            continue
        params = frames.c_params(prog, fi)
        if params is None:
            skipped[n] = 'parameter types outside the model'
            continue
        jobs.append(('dd_dtw.c::' + n, params, sorted(p for p in params if p in frames.C_OUTPUTS) + ['block.re', 'block.ce']))
    for n in ('euclidean_distance', 'euclidean_distance_euclidean', 'euclidean_distance_ndim', 'euclidean_distance_ndim_euclidean'):
        fi = prog.function('dd_ed.c::' + n)
        jobs.append(('dd_ed.c::' + n, frames.c_params(prog, fi), []))
    for n, params in C20_PY.items():
        jobs.append((n, params, []))
    res = frames.run(prog, jobs, timeout=150 if run.tier == 'quick' else 1500)
    obs = []
    table = {}
    for r in res:
        if r['ok']:
            obs += r['obligations']
            table[r['name']] = dict(status='frame proved' if not r['obligations'] else 'FRAME VIOLATED', paths=r['paths'],
                                    stores_examined=r['stores'], seconds=r['seconds'])
        else:
            table[r['name']] = dict(status='not covered', reason=r['error'], seconds=r['seconds'])
    for n, why in skipped.items():
        table['dd_dtw.c::' + n] = dict(status='not covered', reason=why)
    run.evidence_extra['frame_analysis'] = table
    # one positive obligation per analysed function so that the count reflects the coverage
    import z3
    from dvc.state import Obligation
    for name, t in table.items():
        if t['status'] == 'frame proved':
            obs.append(Obligation('%s::frame-summary' % name, 'frame-summary', [], z3.BoolVal(True) == z3.BoolVal(True), name,
                                  note='%d stores on %d paths, none into a caller-owned object outside the designated outputs '
                                       'and none into a file-scope variable' % (t['stores_examined'], t['paths'])))
    return obs


def _c20_native(run):
    import json
    import subprocess
    import os
    here = os.path.dirname(os.path.abspath(__file__))
    n = 25 if run.tier == 'quick' else 200
    p = subprocess.run(['/venv/bin/python', os.path.join(here, 'bounded', 'purity_native.py'), run.program.native_root(), str(run.seed), str(n)],
                       capture_output=True, text=True, timeout=3000)
    line = [l for l in p.stdout.splitlines() if l.startswith('@@JSON@@')]
    if not line:
        return dict(evaluations=0, distinct_nontrivial=0, rule='native sweep failed to run: ' + p.stderr[-300:], samples=[], violations=[],
                    label='bounded')
    d = json.loads(line[0][8:])
    return dict(evaluations=d['evaluations'], distinct_nontrivial=d['distinct_nontrivial'],
                rule='public routines on identical content in list / tuple / array.array / ndarray / strided-view containers: inputs '
                     'byte-identical after the call, result independent of the container, repeated call identical; distance '
                     'matrices and the barycenter update leave the collection untouched', samples=d['samples'],
                violations=[dict(function=x.get('routine'), what=x['what'], failing_input=x) for x in d['problems']], label='bounded')


PROPS['C20'] = dict(
    modules=['contracts.dtw_c', 'contracts.ed_c', 'contracts.bounds_c', 'contracts.dtw_matrix_c', 'contracts.dtw_py',
             'contracts.bounds_py', 'contracts.dtw_matrix_py'],
    contracts=[],
    lemmas=[],
    extra_obligations=_c20_frames,
    bounded={'native-container-and-purity-sweep': _c20_native},
    level='proof',
    level_text='Frame conditions, unbounded: for the analysed C routines (28 in the quick tier, see evidence.frame_analysis) and the core Python routines every store on every path is '
               'resolved to its target object; none goes through a series / pointer-table / settings / mask parameter or a '
               'file-scope variable (only designated outputs: wps, full, output, index arrays, the average c, block.re/ce). '
               'The functional contracts of C01-C09 carry the same frame obligations. Container independence: the verified '
               'text uses a series only through len() and indexing, so the proofs are parametric in the container; the '
               'NumPy/Cython copy logic is assumed (A3/A5). A native sweep checks inputs-untouched / container-independence / '
               'repeatability on the public API.',
    level_note='Frame analysis cuts loops with the trivial invariant (pointer targets survive havoc, contents do not) and treats '
               'callees by their assigns sets. Class-level state (SubsequenceSearch, clustering objects), strided/transposed '
               'views inside NumPy/Cython and NumPy-absent operation are not covered beyond the native sweep.',
    trusted_base=['A1/A2 semantics', 'A3: NumPy', 'A5: Cython pass-through', A7],
    assumptions=['A1', 'A2', 'A3', 'A5', A7],
    not_decided=['history independence of objects with state (search / clustering classes)', 'NumPy-absent runs'],
    technique='frame analysis by symbolic execution (every store resolved to its heap object) + native purity sweep',
)


def _native_sweep(script, rule, n_quick, n_thorough):
    def f(run):
        import json
        import subprocess
        import os
        here = os.path.dirname(os.path.abspath(__file__))
        n = n_quick if run.tier == 'quick' else n_thorough
        p = subprocess.run(['/venv/bin/python', os.path.join(here, 'bounded', script), run.program.native_root(), str(run.seed), str(n)],
                           capture_output=True, text=True, timeout=6000)
        line = [l for l in p.stdout.splitlines() if l.startswith('@@JSON@@')]
        if not line:
            return dict(evaluations=0, distinct_nontrivial=0, rule='native sweep failed to run: ' + p.stderr[-300:], samples=[],
                        violations=[dict(function=script, what='sweep crashed', failing_input={'stderr': p.stderr[-500:]})], label='bounded')
        d = json.loads(line[0][8:])
        return dict(evaluations=d['evaluations'], distinct_nontrivial=d['distinct_nontrivial'], rule=rule, samples=d['samples'],
                    violations=[dict(function=x.get('route') or x.get('routine'), what=x['what'], failing_input=x) for x in d['problems']],
                    label='bounded')
    return f


PROPS['C03'] = dict(
    modules=['contracts.dtw_py', 'contracts.dtw_c', 'contracts.pruning_py', 'contracts.ed_c', 'contracts.bounds_c', 'contracts.bounds_py'],
    contracts=['dtw.distance#maxdist', 'dtw.warping_paths#maxdist', 'dd_dtw.c::dtw_distance_euclidean#maxdist',
               'dd_dtw.c::dtw_distance#maxdist', 'dd_dtw.c::dtw_distance_ndim_euclidean#maxdist',
               'dd_dtw.c::dtw_distance_ndim#maxdist',
               # use_pruning: the bound handed to the engines (value pinned; validity of the bound is C09's sandwich)
               'dtw.DTWSettings.for_dtw#pruning', 'ed.distance',
               'dd_ed.c::euclidean_distance', 'dd_ed.c::euclidean_distance_euclidean', 'dd_ed.c::euclidean_distance_ndim',
               'dd_ed.c::euclidean_distance_ndim_euclidean', 'dd_dtw.c::ub_euclidean', 'dd_dtw.c::ub_euclidean_euclidean',
               'dd_dtw.c::ub_euclidean_ndim', 'dd_dtw.c::ub_euclidean_ndim_euclidean'],
    lemmas=['CellAbove', 'RowAboveLeft', 'RowAboveRight', 'AgreeStep', 'RowAllInf', 'RowLeadInf', 'InnerNdNonneg'],
    bounded={'early-abandoning-native-sweep': _native_sweep(
        'pruning_native.py',
        'random small pairs (lengths <= 6, ndim 1..2) x window/penalty/psi/inner distance x four routes (Python/C distance, '
        'Python/C cost matrix): max_dist at 0.5/0.9/1.1/2.0 times the unbounded distance must give that distance resp. inf; '
        'use_pruning where the Euclidean distance is a valid upper bound must give the unpruned result', 1500, 20000)},
    level='proof',
    level_text='Both engines, single pairs, without psi: the PrunedDTW bookkeeping (start column sc, end column ec, early break, final '
               'test) is proved, for all lengths, values, windows, penalties and max_step, never to change a result. Python '
               'dtw.distance(max_dist=m), dtw.warping_paths(max_dist=m) (Euclidean inner distance, or keep_int_repr=True) and the C '
               'kernels dtw_distance_euclidean, dtw_distance_ndim_euclidean: result_fn of the unbounded accumulated cost W(r, c) whenever that cost is below the '
               'internal bound, inf whenever it is above it, never another finite number; cells of the returned matrix that the '
               'specification does not put above the bound are exact. C kernels dtw_distance, dtw_distance_ndim (squared inner distance) and '
               'warping_paths with square-rooted output: a distance below the user bound is returned unchanged (the final test there '
               'is on the square-rooted value; what is returned above the bound is bounded-sweep only). Loop invariant: every buffer '
               'cell either equals W or both are above the bound; columns left of sc and right of ec are above the bound in W. '
               'use_pruning: the value of the bound is pinned by contract (for_dtw#pruning, ed.distance, C euclidean_distance* / '
               'ub_euclidean*). All other routes (C cost-matrix routines, distance matrices, psi) are bounded sweeps only.',
    level_note='The proof speaks about the internal bound (max_dist squared for the squared-Euclidean inner distance): the '
               'property excludes a rounding-width neighbourhood of the true distance, and the contract avoids it by '
               'comparing accumulated costs with the adjusted bound exactly as the code does. Trusted: dvc Python semantics '
               '(A1), dvc C semantics (A2), order axioms of non-NaN doubles (level O), pow(x,2)==x*x, correctly rounded sqrt is monotone '
               'and sqrt(fl(x*x))==x when x*x is finite and normal (A3), solvers (A7). '
               'The bounded sweep has recorded three families of genuine defects (known_findings.json: KF-C03-1..3), all '
               'outside the proved route (psi, C cost matrices).',
    trusted_base=[PY_A1, 'A2', A3_NUMPY, A7],
    assumptions=[PY_A1, 'A2', A3_NUMPY, A7, 'sqrt(fl(x*x)) == x for finite normal x*x (theory sqrtsq)', 'bounded part: lengths <= 6, sampled options'],
    not_decided=['C kernels dtw_distance / dtw_distance_ndim and square-rooted warping_paths above the bound: bounded only',
                 'C cost-matrix routines with max_dist: bounded only',
                 'dtw.warping_paths(max_dist) with the squared inner distance and keep_int_repr=False: the final test compares a '
                 'square-rooted value with the user bound (sqrt/square round trip, excluded by the property): bounded only',
                 'use_pruning: the bound is under contract (DTWSettings.for_dtw#pruning sets inner_val of ed.distance with the same inner '
                 'distance; ed.distance, the four C euclidean_distance* and ub_euclidean* routines are code = padded Euclidean sum); '
                 'that the bound is valid is C09 (Lean sandwich); the composition with the abandoning proof at a bound equal to the '
                 'distance (sqrt/square round trip, KF-C03-3) and the C kernels reading settings->use_pruning stay bounded',
                 'max_dist together with psi relaxation: bounded only (KF-C03-* live there)',
                 'distance matrices with max_dist: bounded only'],
    technique='sidecar contract on the real dtw.distance (AST re-read every run), weakest-precondition style VCs discharged by '
              'z3 / cvc5; induction lemmas CellAbove / RowAboveLeft / RowAboveRight / AgreeStep proved separately; bounded '
              'sweep of the real engines for the routes not under contract',
)

PROPS['C11'] = dict(
    modules=['contracts.dtw_py', 'contracts.dtw_c', 'contracts.ed_c', 'contracts.bounds_c'],
    contracts=['dtw.distance#ndim', 'dd_dtw.c::dtw_distance_ndim', 'dd_dtw.c::dtw_distance_ndim_euclidean',
               'dd_ed.c::euclidean_distance_ndim', 'dd_ed.c::euclidean_distance_ndim_euclidean',
               'dd_dtw.c::ub_euclidean_ndim', 'dd_dtw.c::ub_euclidean_ndim_euclidean'],
    lemmas=['BufFold', 'BufFold2', 'RowAllInf', 'RowLeadInf', 'FoldMinIsMin'],
    bounded={'c-kernels-vs-path-enumeration-and-python': lambda run: __import__('bounded.dtw_sweep', fromlist=['x']).sweep_c_distance(run)},
    level='proof',
    level_text='The multivariate routes of both engines are proved against the univariate specification W with the point '
               'distance replaced by the (squared) Euclidean distance between the vectors (left-to-right sum over the '
               'dimensions): dtw.distance(use_ndim=True) through the real DTWSettings / inner_dist_fns, dtw_distance_ndim, '
               'dtw_distance_ndim_euclidean; the multivariate Euclidean upper bound (C) against the padded multivariate sum.',
    level_note='Trusted: NumPy vector point distance np.sum((x-y)**2) (A3, contract on innerdistance.*Ndim.inner_dist); '
               'd = 1 coinciding with the univariate routine and the cost-matrix / path / distance-matrix multivariate routes '
               'are covered by the bounded sweeps only; Python ed.distance(use_ndim=True) is not under contract.',
    trusted_base=[PY_A1, 'A2', A3_NUMPY, A7],
    assumptions=[PY_A1, 'A2', A3_NUMPY, A7],
    not_decided=['d = 1 equals the univariate result: bounded (C sweep calls both kernels)', 'multivariate cost matrix / path / '
                 'distance matrix: bounded or covered under C04-C06 only', 'pruning with the multivariate bound: C03'],
)

PROPS['C18'] = dict(
    modules=['contracts.affinity_py', 'contracts.wps_c', 'contracts.bestpath_c'],
    contracts=['dtw.warping_paths_affinity', 'dd_dtw.c::dtw_wps_loc', 'dd_dtw.c::dtw_wps_loc_columns'] + _WPS_VALUE
    + ['dd_dtw.c::dtw_best_path_affinity'],
    lemmas=[],
    bounded=dict(_CAFF, **{'affinity-native-sweep': lambda run: _native_sweep(
        'affinity_native.py',
        'random small pairs and self-comparisons x gamma/tau/delta/delta_factor x penalty (incl. None) x window x only_triu: Python '
        'matrix against the recurrence recomputed cell by cell; warping_paths_affinity_fast full and compact+wps_expand_slice against '
        'Python; use_c dispatch; LocalConcurrences.kbest_matches (Python and C compact, restart and continued calls): contiguous '
        'monotone paths through positive cells, no cell used twice', 1000, 8000)(run)}),
    level='proof',
    level_text='Python: dtw.warping_paths_affinity is proved (unbounded) to fill every cell of the (len1+1)x(len2+1) matrix '
               'with the affinity recurrence A of specs/affinity.py (exp(-gamma*diff^2) plus best penalised predecessor, or '
               'delta + delta_factor*predecessor below tau, clipped at 0; -inf outside the band and below the diagonal under '
               'only_triu) for every window, penalty (incl. None), gamma, tau, delta, delta_factor, begin-psi.',
    level_note='C helpers of the match search under contract (unbounded): dtw_wps_max returns the location / row / column of the first '
               'strictly largest positive stored cell of the compact matrix (0 when none) and reads only stored cells; '
               'dtw_wps_negativize_value / positivize_value flip the sign of exactly the addressed finite cell and change nothing else; '
               'dtw_wps_loc(_columns) address the compact layout; dtw_best_path_affinity (the traceback of a match from a start cell in the band) '
               'stays inside the buffers for every matrix content and emits series indices, non-increasing in both coordinates. The C '
               'affinity kernels, the range routines dtw_wps_negativize / positivize, that the traceback follows the largest predecessor, '
               'and the kbest_matches histories are bounded only.',
    trusted_base=[PY_A1, A3_NUMPY, A7],
    assumptions=[PY_A1, A3_NUMPY, A7],
    not_decided=['end-of-series psi selection of the returned value', 'C engine unbounded', 'kbest_matches histories'],
)

def _nw_bridges(run):
    """the step functions of the alignment recurrence are monotone (hypothesis `Mono` of specs/lean/NW.lean)"""
    import z3
    from dvc.state import Obligation, CannotBind
    from dvc.vals import Val, vlt, vadd, vlit, order_axioms, arith_axioms
    from dvc import leancheck
    st = leancheck.ensure(['NW.lean'])
    run.evidence_extra['lean'] = st
    if not all(v['accepted'] for v in st.values()):
        raise CannotBind('a Lean lemma file was rejected: %s' % st)
    x, y, g, s = z3.Consts('x y g s', Val)
    ninf = z3.Const('vninf', Val)
    le = lambda a, b: z3.Not(vlt(b, a))      # noqa: E731
    fin = [x != ninf, y != ninf]
    return [
        Obligation('bridge::gap-step-monotone', 'bridge', [le(x, y)] + fin, le(vadd(vadd(g, x), vlit(0)), vadd(vadd(g, y), vlit(0))),
                   'lemma:C17-bridge', props=('C17',), axioms=order_axioms() + arith_axioms(),
                   note='x <= y gives gap + x + 0 <= gap + y + 0 (rounded addition is monotone): NW.Mono.monoL / monoU'),
        Obligation('bridge::substitution-step-monotone', 'bridge', [le(x, y)] + fin, le(vadd(s, x), vadd(s, y)),
                   'lemma:C17-bridge', props=('C17',), axioms=order_axioms() + arith_axioms(),
                   note='x <= y gives sub + x <= sub + y: NW.Mono.monoD'),
    ]


PROPS['C17'] = dict(
    extra_obligations=_nw_bridges,
    modules=['contracts.nw_py'],
    contracts=['dp.dp'],
    lemmas=[],
    bounded={'alignment-native-sweep': lambda run: _native_sweep(
        'nw_native.py',
        'pairs of sequences over {A,B,C} (lengths 0..3 sampled, some up to 5) x substitution (default, dictionary with gap 1/0.5/2, '
        'max/min orientation) x traceback order: value == exhaustive maximum over all global alignments; best_alignment gives '
        'equal-length gapped sequences that reduce to the inputs, no gap/gap column, score == value', 1500, 0)(run)},
    level='proof',
    level_text='dp.dp as needleman_wunsch calls it (default substitution function executed; an arbitrary callback as an '
               'uninterpreted function with a constant gap cost) is proved to fill the score matrix with the alignment-cost '
               'recurrence NWS (border = number of leading gaps times the gap cost, taken from the property statement) and the '
               'traceback matrix with exactly the arrows of the minimising predecessors. That NWS(r, c) is the least total cost '
               'over all edit scripts is the Lean lemma NW.S_isLeast (specs/lean/NW.lean) with z3 bridge obligations for its '
               'monotonicity hypothesis. best_alignment and the negating wrapper needleman_wunsch are bounded only.',
    level_note='NumPy string cells are modelled as character sets (only `ch in cell` is observable). Trusted: correspondence '
               'between the z3 text of NWS and the Lean Params structure (by inspection). Known findings: custom gap cost (border), '
               'empty second sequence.',
    trusted_base=[PY_A1, A3_NUMPY, A7, 'A4: Lean kernel + Mathlib'],
    assumptions=[PY_A1, A3_NUMPY, A7, 'A4: Lean kernel + Mathlib'],
    not_decided=['contract for alignment.best_alignment (traceback over the arrow matrix, list building) - bounded only',
                 'windows / max_dist / max_step / psi of dp.dp other than the values needleman_wunsch passes by default'],
)

PROPS['C12'] = dict(
    modules=[],
    contracts=[],
    lemmas=[],
    bounded=dict({'c12-native-sweep': _native_sweep('dba_native.py',
        'random collections (1..5 series, lengths 2..5, ndim 1..3, list / matrix) x initial average x mask x window / penalty x engine: one DBA step is the mean along the library path, that path is optimal, range, fixed point, mask, fit does not get worse, C = Python for unique paths, dba_loop step bound', 1500, 10000)}, **{'c-dba-chains': lambda run: __import__('bounded.c_sweeps', fromlist=['x']).sweep_c_dba_for(run, 'C12')}),
    level='exploration',
    level_text='Bounded stand-in only. The averaging step is swept on small collections in both engines; the C routines dtw_dba_ptrs / dtw_dba_matrix additionally run in sanitizer chains (C08).',
    level_note='No unbounded claim: dba() builds lists of aligned points through warping_path (C05, not under contract).',
    trusted_base=[],
    assumptions=['bounded: small random inputs, stated in the sweep'],
    not_decided=['unbounded contract for dtw_barycenter.dba / dtw_dba_*: needs the traceback contracts of C05'],
    technique='bounded sweep of the real routines against an independent brute-force oracle (stand-in; no contract of this class-level routine is within reach of the verifier)',
)

PROPS['C13'] = dict(
    modules=['contracts.subseq_py'],
    contracts=['subsequence.subsequencealignment.subsequence_alignment'],
    lemmas=[],
    bounded=dict({'c13-native-sweep': _native_sweep('subseq_native.py',
        'random (query 1..4, series 1..7, ndim 1..2) x penalty x engine: matching function == min over start points of the penalised DTW of the query and series[b..e] / len(query) (independent DP per segment); best match value / segment / path; kbest_matches distinct end points, ascending values, length limits, overlap, repeated iteration; Python == C', 2000, 20000)}),
    level='proof',
    level_text='Python engine: subsequence_alignment(query, series, penalty) -- construction of SubsequenceAlignment, align(), '
               '_compute_matching() executed through the real DTWSettings, with dtw.warping_paths as a callee under its end-psi '
               'contract (C04 stage 2) -- is proved to return a matching function with matching[e] == sqrt(W(len(query), e+1)) / '
               'len(query), where W is the accumulated-cost recurrence with a free start along the series (psi_2b = len(series)): '
               'by the Bellman lemma (specs/lean/Bellman.lean) the minimum over all paths that start in any border cell (0, b), i.e. '
               'over all start points b <= e. Best match, k-best iterator, the C engine: bounded sweep only.',
    level_note='Not machine-checked: the identification of border-cell paths with warping paths of (query, series[b..e]) (the same '
               'L1-prime gap as C01). NumPy views are modelled as element-wise sequences (A3).',
    trusted_base=[PY_A1, A3_NUMPY, A7],
    assumptions=[PY_A1, A3_NUMPY, A7, 'bounded parts: small random inputs, stated in the sweep'],
    not_decided=['contract for SubsequenceAlignment.align / _best_matches (needs the end-psi stage of dtw.warping_paths and a lemma W(free start) = min over segments)'],
)

PROPS['C14'] = dict(
    modules=[],
    contracts=[],
    lemmas=[],
    bounded=dict({'c14-native-sweep': _native_sweep('knn_native.py',
        'random query x 1..6 candidates (duplicates, ties) x k in 1..N+1 / None x window / penalty / max_dist / max_value x use_lb x use_c x ndim x sequences of kbest_matches / best_match calls on one object: k smallest exhaustive distances, ascending, right indices, same answers as a fresh object', 3000, 30000)}),
    level='exploration',
    level_text='Bounded stand-in only: SubsequenceSearch is compared with an exhaustive independent DTW on small candidate lists, including call histories.',
    level_note='The callee contracts exist (dtw.distance C01, dtw.lb_keogh C09: LB computed as specified), but LB <= DTW itself is not machine-checked and the heap / cache logic is not under contract.',
    trusted_base=[],
    assumptions=['bounded: small random inputs, stated in the sweep'],
    not_decided=['contract for SubsequenceSearch.align (heap invariant, threshold monotonicity) on top of C01/C09'],
    technique='bounded sweep of the real routines against an independent brute-force oracle (stand-in; no contract of this class-level routine is within reach of the verifier)',
)

PROPS['C15'] = dict(
    modules=[],
    contracts=[],
    lemmas=[],
    bounded=dict({'c15-native-sweep': _native_sweep('hier_native.py',
        'random collections of 2..7 series (ties, duplicates) x max_dist x weight / order hooks x Python / C distance matrix x refit: partition keyed by contained prototypes, merges non-decreasing and <= max_dist, stop condition, HierarchicalTree n-1 merges forming one rooted binary tree, LinkageTree == scipy.linkage', 200, 2500)}),
    level='exploration',
    level_text='Bounded stand-in only: the three clustering variants are swept on small collections.',
    level_note='Hierarchical.fit is a NumPy argwhere / min loop over a distance matrix produced by C06 routines (under contract); the merge loop itself is not.',
    trusted_base=[],
    assumptions=['bounded: small random inputs, stated in the sweep'],
    not_decided=['contract for Hierarchical.fit (alive-set / partition invariant)'],
    technique='bounded sweep of the real routines against an independent brute-force oracle (stand-in; no contract of this class-level routine is within reach of the verifier)',
)

PROPS['C16'] = dict(
    modules=['contracts.kmeans_py', 'contracts.kmeans_sib_py'],
    contracts=['clustering.kmeans._distance_with_params', 'clustering.kmeans._distance_ndim_with_params',
               'clustering.kmeans._distance_c_with_params'],
    lemmas=[],
    bounded=dict({'c16-native-sweep': _native_sweep('kmeans_native.py',
        'random data sets (3..8 series, ndim 1..2, duplicates) x k x seeds x initialisation (k-means++, random, sample size) x drop_stddev x window / penalty x use_c x serial / a few parallel fits: exactly k index sets 0..k-1 partitioning all series, k means, every series with a nearest mean (recomputed with the pure-Python distance), iterations <= max_it + 1', 150, 1500)}),
    level='exploration',
    level_text='The assignment steps clustering.kmeans._distance_with_params (pure-Python, 1-D), _distance_ndim_with_params (multivariate Python kernel) and _distance_c_with_params (univariate C kernel) are proved to return the first mean at the least kernel value (each kernel as an opaque function of the two series: C01 / C11 / C02). Everything else of KMeans.fit is a bounded stand-in: swept on small data sets.',
    level_note='Randomised seeding, multiprocessing and DBA (C12) are outside the verifier. _distance_ndim_c_with_params has the same text as its proved siblings and is not separately proved.',
    trusted_base=[],
    assumptions=['bounded: small random inputs, stated in the sweep'],
    not_decided=['contract for the assignment step / final re-assignment'],
    technique='bounded sweep of the real routines against an independent brute-force oracle (stand-in; no contract of this class-level routine is within reach of the verifier)',
)

NOT_APPLICABLE = {p: 'not decided yet: machinery for this property is still being built (see DESIGN.md §9 order of work)' for p in ['C01', 'C02', 'C03', 'C04', 'C05', 'C06', 'C07', 'C08', 'C09', 'C10', 'C11', 'C12', 'C13', 'C14', 'C15', 'C16', 'C17', 'C18', 'C19', 'C20'] if p not in PROPS}
