"""Sidecar contract: dtw_best_path of dd_dtw.c, the traceback over the compact cost matrix (C05, C08, C20).

Value-independent part, for *every* content of the matrix: every read stays inside the buffer of the advertised size, every
write inside the index arrays of l1 + l2 entries, the emitted pairs are series indices, at most l1 + l2 of them, in
non-increasing order in both coordinates with steps of at most one, and nothing but i1 / i2 is written."""
from dvc.contracts import contract
import specs.bounds  # noqa: F401
import specs.dtw  # noqa: F401
from contracts.wps_c import parts_facts, SIZES, MAXL, EFFW

SH = lambda R: '(0 if {R} <= p.ri2 else ({R} - p.ri2 if {R} <= p.ri3 else p.ri3 - p.ri2))'.format(R=R)   # noqa: E731
PF = parts_facts('p')
def common(sr, sc):
    START = '%s * p.width + %s - %s' % (sr, sc, SH(sr))
    return _common(START, sr, sc)


def _common(START, sr, sc):
    return PF + SIZES + ['p.window == ' + EFFW, 'off(wps) == 0', 'length(wps) >= p.length', 'off(i1) == 0', 'off(i2) == 0',
                       'length(i1) >= l1 + l2', 'length(i2) >= l1 + l2',
                       '0 <= rip <= %s' % sr, '0 <= cip <= %s' % sc, 'ri_width == p.width * rip', 'ri_widthp == ri_width - p.width',
                       'implies(rip >= 1, wpsi == cip - %s)' % SH('rip'),
                       'ri_width + wpsi <= ' + START,
                       '0 <= i <= (%s - rip) + (%s - cip)' % (sr, sc),
                       'forall(lambda k: implies(0 <= k < i, 0 <= i1[k] < l1 and 0 <= i2[k] < l2 and i1[k] >= rip - 1 and i2[k] >= cip - 1))',
                       'forall(lambda k: implies(0 <= k < i - 1, i1[k + 1] <= i1[k] and i2[k + 1] <= i2[k]))',
                       'forall(lambda k: wps[k] == old(wps[k]))']


def gen_bp(rng, n):
    from contracts import gens
    from contracts.wps_c import py_parts
    for _ in range(n):
        l1, l2 = rng.randint(1, 6), rng.randint(1, 6)
        st = gens.settings(rng, plain=True)
        st['struct']['window'] = rng.choice([0, 1, 1, 2, 2, 3, 4])
        st['struct']['penalty'] = gens.fx(rng.choice([0.0, 0.0, 0.5]))
        L = py_parts(l1, l2, st['struct']['window'])['length']
        vals = [rng.choice([0.0, 1.0, 2.5, 4.0, float('inf'), -1.0]) for _ in range(L)]
        yield dict(wps={'buf': [gens.fx(v) for v in vals]}, i1={'buf': [0] * (l1 + l2), 'elem': 'long'},
                   i2={'buf': [0] * (l1 + l2), 'elem': 'long'}, l1=l1, l2=l2, settings=st)



BASE_REQ = SIZES + ['0 <= settings.window <= ' + MAXL, 'off(wps) == 0', 'off(i1) == 0', 'off(i2) == 0',
                    'length(i1) >= l1 + l2', 'length(i2) >= l1 + l2',
                    'length(wps) >= (l1 + 1) * mini(l2 + 1, (l1 - l2 if l1 > l2 else l2 - l1) + 2 * %s + 1)' % EFFW]
ENS = ['0 <= result <= l1 + l2',
       'forall(lambda k: implies(0 <= k < result, 0 <= i1[k] < l1 and 0 <= i2[k] < l2))',
       'forall(lambda k: implies(0 <= k < result - 1, i1[k + 1] <= i1[k] and i2[k + 1] <= i2[k]))',
       'forall(lambda k: wps[k] == old(wps[k]))']


def traceback(name, extra_params, extra_req, sr, sc, gen, arith=False):
    C = common(sr, sc)
    contract(
        'dd_dtw.c::' + name,
        params=dict([('wps', 'cptr:val'), ('i1', 'cptr:int'), ('i2', 'cptr:int'), ('l1', 'int'), ('l2', 'int')] + extra_params
                    + [('settings', ('cstruct', 'DTWSettings'))]),
        requires=BASE_REQ + extra_req,
        ensures=ENS,
        loops={
            0: dict(head='while rip > p.ri3 and cip > 0', inv=C + ['rip >= p.ri3 or rip == %s' % sr], variant='rip + cip'),
            1: dict(head='while rip > p.ri2 and cip > 0', inv=C + ['p.ri2 <= rip or rip == %s' % sr, 'rip <= p.ri3 or cip == 0'],
                    variant='rip + cip'),
            2: dict(head='while rip > 0 and cip > 0', inv=C + ['rip <= p.ri2 or cip == 0'], variant='rip + cip'),
        },
        assigns=['i1', 'i2'],
        returns='int',
        replay=gen,
        theories=('bounds', 'dtw'),
        order_axioms=True,
        props=('C05', 'C08', 'C20'),
    )


def gen_bp_start(rng, n):
    """start cells inside the band (the precondition of the custom-start routine)"""
    for a in gen_bp(rng, 3 * n):
        l1, l2, w0 = a['l1'], a['l2'], a['settings']['struct']['window']
        w = max(l1, l2) if w0 == 0 else min(w0, max(l1, l2))
        rs, cs = rng.randint(1, l1), rng.randint(1, l2)
        i, j = rs - 1, cs - 1
        if i - max(0, l1 - l2) - w < j < i + max(0, l2 - l1) + w:
            a = dict(a)
            st = a.pop('settings')
            a.update(rs=rs, cs=cs, settings=st)
            yield a


def gen_bp_isclose(rng, n):
    from contracts import gens
    for a in gen_bp(rng, n):
        a = dict(a)
        st = a.pop('settings')
        a.update(rtol=gens.fx(1e-5), atol=gens.fx(1e-8), settings=st)
        yield a


traceback('dtw_best_path', [], [], 'l1', 'l2', gen_bp)
traceback('dtw_best_path_isclose', [('rtol', 'val'), ('atol', 'val')], [], 'l1', 'l2', gen_bp_isclose)
traceback('dtw_best_path_customstart', [('rs', 'int'), ('cs', 'int')],
          ['1 <= rs <= l1', '1 <= cs <= l2',
           # the start cell lies in the band (so it is stored: dtw_wps_loc's contract)
           'JSrow(rs - 1, l1, l2, %s) <= cs - 1 < JErow(rs - 1, l1, l2, %s)' % (EFFW, EFFW)], 'rs', 'cs', gen_bp_start)
# the max-oriented traceback of the affinity matrix: same index skeleton, returns at the first non-positive cell
traceback('dtw_best_path_affinity', [('rs', 'int'), ('cs', 'int')],
          ['1 <= rs <= l1', '1 <= cs <= l2',
           'JSrow(rs - 1, l1, l2, %s) <= cs - 1 < JErow(rs - 1, l1, l2, %s)' % (EFFW, EFFW)], 'rs', 'cs', gen_bp_start)
