"""Sidecar contracts: dtw.warping_paths, dtw.distance (pure Python; C01, C04, C10, C11, C20)."""
from dvc.contracts import contract
import specs.dtw  # noqa: F401
import specs.bounds  # noqa: F401

KW = {'window': 'opt:int', 'penalty': 'opt:val', 'max_step': 'opt:val', 'max_length_diff': 'opt:int'}


def kw_cases():
    out = []
    for il, inner, m in (('sq', 'squared euclidean', 0), ('eu', 'euclidean', 1)):
        for pl, psi in (('nopsi', 'none'), ('psi', 'nat'), ('psi4', ('tuple', 'nat', 'nat', 'nat', 'nat'))):
            kw = dict(KW, inner_dist=('const', inner), psi=psi)
            out.append(dict(label='%s/%s' % (il, pl), params={'kwargs': kw}, metric=m, psi=pl))
    return out


R, C = 'length(s1)', 'length(s2)'
P1B = '(0 if kwargs["psi"] is None else (kwargs["psi"][0] if type(kwargs["psi"]) is tuple else kwargs["psi"]))'
P2B = '(0 if kwargs["psi"] is None else (kwargs["psi"][2] if type(kwargs["psi"]) is tuple else kwargs["psi"]))'
P1E = '(0 if kwargs["psi"] is None else (kwargs["psi"][1] if type(kwargs["psi"]) is tuple else kwargs["psi"]))'
P2E = '(0 if kwargs["psi"] is None else (kwargs["psi"][3] if type(kwargs["psi"]) is tuple else kwargs["psi"]))'
METRIC = '(0 if kwargs["inner_dist"] == "squared euclidean" else 1)'
CTX = 'DTWctx(s1, s2, kwargs["window"], kwargs["penalty"], kwargs["max_step"], %s, %s, %s)' % (P1B, P2B, METRIC)

ROWS_DONE = ('forall(lambda a, b: implies(0 <= a <= {upto} and 0 <= b <= %s, dtw[a, b] == W(a, b)))' % C)
ROWS_TODO = ('forall(lambda a, b: implies({frm} < a <= %s and 0 <= b <= %s, '
             'dtw[a, b] == (0 if (b == 0 and a <= psi_1b) else inf)))' % (R, C))
SETTLED = ['s.window == Wnd()', 's.adj_penalty == Pen()', 's.adj_max_step == MaxStep()', 's.adj_max_dist == inf',
           'psi_1b == %s' % P1B, 'psi_2b == %s' % P2B, 'psi_1e == %s' % P1E, 'psi_2e == %s' % P2E,
           'r == %s' % R, 'c == %s' % C, 'sc == 0']

contract(
    'dtw.warping_paths',
    params={'s1': 'series', 's2': 'series', 'psi_neg': 'bool', 'keep_int_repr': ('const', False), 'kwargs': KW},
    cases=[c for c in kw_cases()],
    bind={'ctx': CTX},
    requires=['%s >= 1' % R, '%s >= 1' % C, 'kwargs["window"] is None or kwargs["window"] >= 1',
              # end-of-series psi handled by the second contract stage
              '%s == 0' % P1E, '%s == 0' % P2E, '%s <= %s' % (P1B, R), '%s <= %s' % (P2B, C),
              'kwargs["penalty"] is None or kwargs["penalty"] >= 0',
              'kwargs["max_length_diff"] is None or kwargs["max_length_diff"] >= 0'],
    ensures=[
        # too different in length: the routine gives up with infinity
        'implies(kwargs["max_length_diff"] is not None and abs(%s - %s) > kwargs["max_length_diff"], result == inf)' % (R, C),
        'implies(kwargs["max_length_diff"] is None or abs(%s - %s) <= kwargs["max_length_diff"], '
        'result[0] == vsqrt_if(%s, W(%s, %s)) and '
        'forall(lambda a, b: implies(0 <= a <= %s and 0 <= b <= %s, result[1][a, b] == vsqrt_if(%s, W(a, b)))))'
        % (R, C, METRIC, R, C, R, C, METRIC),
    ],
    loops={
        0: dict(head='for i in range(psi_2b + 1)',
                inv=['forall(lambda a, b: implies(0 <= a <= %s and 0 <= b <= %s, '
                     'dtw[a, b] == (0 if (a == 0 and b < i) else inf)))' % (R, C),
                     'psi_2b == %s' % P2B, 'psi_1b == %s' % P1B, 'r == %s' % R, 'c == %s' % C],
                variant='psi_2b + 1 - i'),
        1: dict(head='for i in range(psi_1b + 1)',
                inv=['forall(lambda a, b: implies(0 <= a <= %s and 0 <= b <= %s, '
                     'dtw[a, b] == (0 if ((a == 0 and b <= psi_2b) or (b == 0 and a < i)) else inf)))' % (R, C),
                     'psi_2b == %s' % P2B, 'psi_1b == %s' % P1B, 'r == %s' % R, 'c == %s' % C],
                variant='psi_1b + 1 - i'),
        2: dict(head='for i in range(r)',
                inv=SETTLED + ['i1 == i', ROWS_DONE.format(upto='i'), ROWS_TODO.format(frm='i')],
                variant='r - i'),
        3: dict(head='for j in range(j_start, j_end)',
                inv=SETTLED + ['i0 == i', 'i1 == i + 1', '0 <= i < r',
                               'j_start == JSrow(i, r, c, s.window)', 'j_end == JErow(i, r, c, s.window)',
                               ROWS_DONE.format(upto='i'), ROWS_TODO.format(frm='i + 1'),
                               'forall(lambda b: implies(0 <= b <= %s, dtw[i + 1, b] == (W(i + 1, b) if b <= j else '
                               '(0 if (b == 0 and i + 1 <= psi_1b) else inf))))' % C],
                variant='j_end - j'),
    },
    theories=('dtw', 'bounds'),
    order_axioms=True,
    props=('C04', 'C01', 'C20'),
)
