"""Sidecar contracts: dtw.warping_paths, dtw.distance (pure Python; C01, C04, C10, C11, C20)."""
from dvc.contracts import contract
import specs.dtw  # noqa: F401
import specs.bounds  # noqa: F401

for _cls, _res in (('SquaredEuclideanNdim', 'InnerNd(x, 0, y, 0, NdimOf(x))'), ('EuclideanNdim', 'vsqrt(InnerNd(x, 0, y, 0, NdimOf(x)))')):
    contract(
        'innerdistance.%s.inner_dist' % _cls,
        params={'x': 'series', 'y': 'series'},
        requires=['NdimOf(x) >= 1', 'NdimOf(x) == NdimOf(y)'],
        ensures=['result == ' + _res],
        returns='val',
        trusted=True,
        props=('C11',),
        note='A3: np.sum((x - y) ** 2) over the values of two points = left-to-right sum of the squared differences '
             '(np.sqrt of it for the Euclidean variant)',
    )

KW = {'window': 'opt:int', 'penalty': 'opt:val', 'max_step': 'opt:val', 'max_length_diff': 'opt:int'}


def kw_cases():
    out = []
    for il, inner, m in (('sq', 'squared euclidean', 0), ('eu', 'euclidean', 1)):
        for pl, psi in (('nopsi', 'none'), ('psi', 'nat'), ('psi4', ('tuple', 'nat', 'nat', 'nat', 'nat'))):
            kw = dict(KW, inner_dist=('const', inner), psi=psi)
            out.append(dict(label='%s/%s' % (il, pl), params={'kwargs': kw}, metric=m, psi=pl))
    return out


R, C = 'length(s1)', 'length(s2)'
P1B = '(0 if kwargs["psi"] is None else (kwargs["psi"][0] if type(kwargs["psi"]) in (tuple, list) else kwargs["psi"]))'
P2B = '(0 if kwargs["psi"] is None else (kwargs["psi"][2] if type(kwargs["psi"]) in (tuple, list) else kwargs["psi"]))'
P1E = '(0 if kwargs["psi"] is None else (kwargs["psi"][1] if type(kwargs["psi"]) in (tuple, list) else kwargs["psi"]))'
P2E = '(0 if kwargs["psi"] is None else (kwargs["psi"][3] if type(kwargs["psi"]) in (tuple, list) else kwargs["psi"]))'
METRIC = '(0 if kwargs["inner_dist"] == "squared euclidean" else 1)'
CTX = 'DTWctx(s1, s2, kwargs["window"], kwargs["penalty"], kwargs["max_step"], %s, %s, %s, NdimOf(s1))' % (P1B, P2B, METRIC)

ROWS_DONE = ('forall(lambda a, b: implies(0 <= a <= {upto} and 0 <= b <= %s, dtw[a, b] == W(a, b)))' % C)
ROWS_TODO = ('forall(lambda a, b: implies({frm} < a <= %s and 0 <= b <= %s, '
             'dtw[a, b] == (0 if (b == 0 and a <= psi_1b) else inf)))' % (R, C))
SETTLED = ['s.window == Wnd()', 's.adj_penalty == Pen()', 's.adj_max_step == MaxStep()', 's.adj_max_dist == inf',
           'psi_1b == %s' % P1B, 'psi_2b == %s' % P2B, 'psi_1e == %s' % P1E, 'psi_2e == %s' % P2E,
           'r == %s' % R, 'c == %s' % C, 'sc == 0']

contract(
    'dtw.warping_paths',
    params={'s1': 'series', 's2': 'series', 'psi_neg': 'bool', 'keep_int_repr': ('const', False), 'kwargs': KW},
    cases=[c for c in kw_cases()],
    bind={'ctx': CTX},
    requires=['%s >= 1' % R, '%s >= 1' % C, 'kwargs["window"] is None or kwargs["window"] >= 1',
              # end-of-series psi handled by the second contract stage
              '%s == 0' % P1E, '%s == 0' % P2E, '%s <= %s' % (P1B, R), '%s <= %s' % (P2B, C),
              'kwargs["penalty"] is None or kwargs["penalty"] >= 0',
              'kwargs["max_length_diff"] is None or kwargs["max_length_diff"] >= 0'],
    ensures=[
        # too different in length: the routine gives up with infinity
        'implies(kwargs["max_length_diff"] is not None and abs(%s - %s) > kwargs["max_length_diff"], result == inf)' % (R, C),
        'implies(kwargs["max_length_diff"] is None or abs(%s - %s) <= kwargs["max_length_diff"], '
        'result[0] == vsqrt_if(%s, W(%s, %s)) and '
        'forall(lambda a, b: implies(0 <= a <= %s and 0 <= b <= %s, result[1][a, b] == vsqrt_if(%s, W(a, b)))))'
        % (R, C, METRIC, R, C, R, C, METRIC),
    ],
    loops={
        0: dict(head='for i in range(psi_2b + 1)',
                inv=['forall(lambda a, b: implies(0 <= a <= %s and 0 <= b <= %s, '
                     'dtw[a, b] == (0 if (a == 0 and b < i) else inf)))' % (R, C),
                     'psi_2b == %s' % P2B, 'psi_1b == %s' % P1B, 'r == %s' % R, 'c == %s' % C],
                variant='psi_2b + 1 - i'),
        1: dict(head='for i in range(psi_1b + 1)',
                inv=['forall(lambda a, b: implies(0 <= a <= %s and 0 <= b <= %s, '
                     'dtw[a, b] == (0 if ((a == 0 and b <= psi_2b) or (b == 0 and a < i)) else inf)))' % (R, C),
                     'psi_2b == %s' % P2B, 'psi_1b == %s' % P1B, 'r == %s' % R, 'c == %s' % C],
                variant='psi_1b + 1 - i'),
        2: dict(head='for i in range(r)',
                inv=SETTLED + ['i1 == i', ROWS_DONE.format(upto='i'), ROWS_TODO.format(frm='i')],
                variant='r - i'),
        3: dict(head='for j in range(j_start, j_end)',
                inv=SETTLED + ['i0 == i', 'i1 == i + 1', '0 <= i < r',
                               'j_start == JSrow(i, r, c, s.window)', 'j_end == JErow(i, r, c, s.window)',
                               ROWS_DONE.format(upto='i'), ROWS_TODO.format(frm='i + 1'),
                               'forall(lambda b: implies(0 <= b <= %s, dtw[i + 1, b] == (W(i + 1, b) if b <= j else '
                               '(0 if (b == 0 and i + 1 <= psi_1b) else inf))))' % C],
                variant='j_end - j'),
    },
    theories=('dtw', 'bounds'),
    order_axioms=True,
    props=('C04', 'C01', 'C20'),
)


_CT_base = __import__('dvc.contracts', fromlist=['CONTRACTS']).CONTRACTS['dtw.warping_paths']
_CT_base.returns = ('tuple', 'val', 'matrix')        # what a caller that uses this contract receives (C05: dtw.warping_path)
_CT_base.ensures = list(_CT_base.ensures) + [
    'implies(kwargs["max_length_diff"] is None or abs(%s - %s) <= kwargs["max_length_diff"], result[1].shape == (%s + 1, %s + 1))'
    % (R, C, R, C)]


# ---------------------------------------------------------------------------------------------
# dtw.distance: rolling two-row buffer.  Buffer row `x` (x in {0,1}) holds, for the matrix row it
# currently represents, column `col` at position x*length + col - skip.
LEN = 'mini(c + 1, abs(r - c) + 2 * (s.window - 1) + 3)'
SKIP = lambda i: '(0 if length == c + 1 else JSrow(%s, r, c, s.window))' % i     # noqa: E731
PREV_ROW = ('forall(lambda col: implies(JSrow({i} - 1, r, c, s.window) <= col <= c and 0 <= col - {skip} < length, '
            'dtw[{row} * length + col - {skip}] == W({i}, col)), pattern=W({i}, col))')
LEFT = 'implies(length == c + 1, forall(lambda col: implies(T1(col) and 0 <= col < JSrow({i} - 1, r, c, s.window), dtw[{row} * length + col] == inf), alt=(W({i}, col), T1(col))))'
D_SETTLED = ['s.window == Wnd()', 's.adj_penalty == Pen()', 's.adj_max_step == MaxStep()', 's.adj_max_dist == inf',
             'psi_1b == %s' % P1B, 'psi_2b == %s' % P2B, 'psi_1e == %s' % P1E, 'psi_2e == %s' % P2E,
             'r == %s' % R, 'c == %s' % C, 'sc == 0', 'length == %s' % LEN, 'nelems(dtw) == 2 * length',
             's.window >= 1', 'r >= 1', 'c >= 1', '(i0 == 0 and i1 == 1) or (i0 == 1 and i1 == 0)']

def nd_cases():
    out = []
    for il, inner, m in (('sq', 'squared euclidean', 0), ('eu', 'euclidean', 1)):
        kw = dict(KW, inner_dist=('const', inner), psi=('tuple', 'nat', 'nat', 'nat', 'nat'), use_ndim=('const', True))
        out.append(dict(label='%s/ndim' % il, params={'kwargs': kw, 's1': 'series_nd', 's2': 'series_nd'},
                        requires=['NdimOf(s1) == NdimOf(s2)'], metric=m, psi='psi4'))
    return out


contract(
    'dtw.distance',
    params={'s1': 'series', 's2': 'series', 'only_ub': ('const', False), 'kwargs': KW},
    cases=[c for c in kw_cases()],
    bind={'ctx': CTX},
    requires=['%s >= 1' % R, '%s >= 1' % C, 'kwargs["window"] is None or kwargs["window"] >= 1',
              '%s <= %s' % (P1E, R), '%s <= %s' % (P2E, C), '%s <= %s' % (P1B, R), '%s <= %s' % (P2B, C),
              'kwargs["penalty"] is None or kwargs["penalty"] >= 0',
              'kwargs["max_length_diff"] is None or kwargs["max_length_diff"] >= 0',
              # the degenerate combinations that admit an empty alignment are outside the quantifier
              'not (%s == %s and %s == %s)' % (P2E, C, P1B, R), 'not (%s == %s and %s == %s)' % (P1E, R, P2B, C)],
    ensures=[
        'implies(kwargs["max_length_diff"] is not None and abs(%s - %s) > kwargs["max_length_diff"], result == inf)' % (R, C),
        'implies(kwargs["max_length_diff"] is None or abs(%s - %s) <= kwargs["max_length_diff"], '
        'result == vsqrt_if(%s, Dend(%s, %s)))' % (R, C, METRIC, P1E, P2E),
    ],
    returns='val',
    loops={
        0: dict(head='for i in range(min(psi_2b + 1, length))',
                inv=['forall(lambda k: implies(0 <= k < 2 * length, dtw[k] == (0 if k < i else inf)))',
                     'nelems(dtw) == 2 * length', 'length == %s' % LEN, 'psi_2b == %s' % P2B, 'r == %s' % R, 'c == %s' % C,
                     's.window >= 1', 's.window == Wnd()'],
                variant='mini(psi_2b + 1, length) - i'),
        1: dict(head='for i in range(r)',
                inv=D_SETTLED + ['skip == ' + SKIP('i - 1'), 'psi_shortest == PsiCol(psi_1e, i)',
                                 PREV_ROW.format(i='i', skip='skip', row='i1'), LEFT.format(i='i', row='i1')],
                variant='r - i'),
        2: dict(head='for ii in range(i1 * length, i1 * length + length)',
                inv=D_SETTLED + ['0 <= i < r', 'skipp == ' + SKIP('i - 1'), 'skip == JSrow(i, r, c, s.window)',
                                 'psi_shortest == PsiCol(psi_1e, i)',
                                 PREV_ROW.format(i='i', skip='skipp', row='i0'),
                                 'forall(lambda k: implies(i1 * length <= k < ii, dtw[k] == inf))'],
                variant='i1 * length + length - ii'),
        3: dict(head='for j in range(j_start, j_end)',
                inv=D_SETTLED + ['0 <= i < r', 'skipp == ' + SKIP('i - 1'), 'skip == ' + SKIP('i'), 'psi_shortest == PsiCol(psi_1e, i)',
                                 'j_start == JSrow(i, r, c, s.window)', 'j_end == JErow(i, r, c, s.window)',
                                 PREV_ROW.format(i='i', skip='skipp', row='i0'),
                                 'forall(lambda col: implies(JSrow(i, r, c, s.window) <= col <= c and 0 <= col - skip < length, '
                                 'dtw[i1 * length + col - skip] == (W(i + 1, col) if col <= j else inf)), pattern=W(i + 1, col))',
                                 LEFT.format(i='i + 1', row='i1')],
                variant='j_end - j'),
    },
    # ghost assertions that only name the columns the body touches (instantiation seeds)
    hints={'d = idist_fn(': ['Mention(W(i, j)) and Mention(W(i, j + 1)) and Mention(W(i + 1, j)) and Mention(W(i + 1, j + 1))'],
           'ec = ec_next': ['Mention(W(i + 1, c))'],
           'ic = min(': ['Mention(WRowMin(r, maxi(c - psi_2e, skip), c + 1)) and Mention(WRowMin(r, c - psi_2e, c + 1))']},
    theories=('dtw', 'bounds'),
    lemmas=['BufFold2', 'RowAllInf', 'RowLeadInf'],
    order_axioms=True,
    props=('C01', 'C20'),
)


# the same contract restricted to the multivariate cases (C11)
import copy as _copy  # noqa: E402
from dvc.contracts import CONTRACTS as _CT  # noqa: E402
_nd = _copy.copy(_CT['dtw.distance'])
_nd.name = 'dtw.distance#ndim'
_nd.cases = nd_cases()
_nd.props = ('C11', 'C01')
_CT['dtw.distance#ndim'] = _nd


# ---------------------------------------------------------------------------------------------
# dtw.warping_paths, second stage: end-of-series psi relaxation (value selection by argmin over the
# reversed last column / last row), without the -1 marking (psi_neg=False), with and without the
# internal representation.  This is the configuration SubsequenceAlignment (C13) uses.
_wp = _copy.copy(_CT['dtw.warping_paths'])
_wp.name = 'dtw.warping_paths#endpsi'
_wp.params = dict(_CT['dtw.warping_paths'].params, keep_int_repr='bool', psi_neg=('const', False))
_wp.cases = [c for c in kw_cases() if c['psi'] == 'psi4']
_RES = 'Dend(%s, %s)' % (P1E, P2E)
_wp.requires = ['%s >= 1' % R, '%s >= 1' % C, 'kwargs["window"] is None or kwargs["window"] >= 1',
                '%s <= %s' % (P1E, R), '%s <= %s' % (P2E, C), '%s <= %s' % (P1B, R), '%s <= %s' % (P2B, C),
                'kwargs["penalty"] is None or kwargs["penalty"] >= 0',
                'kwargs["max_length_diff"] is None',
                'not (%s == %s and %s == %s)' % (P2E, C, P1B, R), 'not (%s == %s and %s == %s)' % (P1E, R, P2B, C)]
_wp.ensures = [
    'implies(keep_int_repr, result[0] == %s)' % _RES,
    'implies(not keep_int_repr, result[0] == vsqrt_if(%s, %s))' % (METRIC, _RES),
    'implies(keep_int_repr, forall(lambda a, b: implies(0 <= a <= %s and 0 <= b <= %s, result[1][a, b] == W(a, b))))' % (R, C),
    'implies(not keep_int_repr, forall(lambda a, b: implies(0 <= a <= %s and 0 <= b <= %s, result[1][a, b] == vsqrt_if(%s, W(a, b)))))'
    % (R, C, METRIC),
]
_wp.lemmas = ['ArgMinRow', 'ArgMinCol', 'ArgMinRowSqrt', 'ArgMinColSqrt', 'PsiColZero', 'RowLeadInf', 'RowAllInf']
_wp.theories = tuple(_CT['dtw.warping_paths'].theories) + ('sqrtmono',)
_PC, _WR = 'PsiCol(psi_1e, r)', 'WRowMin(r, c - psi_2e, c + 1)'
_wp.hints = {'vc_mic = vc[mic]': [
    # instances of the monotonicity of the square root for the two candidates (ghost assertions: proved, then used)
    'implies(not (%s < %s), not (vsqrt(%s) < vsqrt(%s)))' % (_PC, _WR, _PC, _WR),
    'implies(not (%s < %s), not (vsqrt(%s) < vsqrt(%s)))' % (_WR, _PC, _WR, _PC)]}
_wp.hints['vc_mic = vc[mic]'] = _wp.hints['vc_mic = vc[mic]'] + [
    'implies(not keep_int_repr and %s == 0 and psi_1e != 0, vr_mir == vsqrt(%s))' % (METRIC, _PC)]
for _k in ('d = vr_mir', 'd = vc_mic'):
    _wp.hints[_k] = ['implies(not keep_int_repr and %s == 0 and psi_2e != 0, vc_mic == vsqrt(%s))' % (METRIC, _WR)]
_wp.kwdefaults = {'inner_dist': 'squared euclidean'}      # DTWSettings' default, for call sites that omit the key
_wp.returns = ('tuple', 'val', 'matrix')
_wp.ensures = list(_wp.ensures) + ['implies(%s >= 1, result[1].shape == (%s + 1, %s + 1))' % (R, R, C)]
_wp.props = ('C04', 'C13')
_CT['dtw.warping_paths#endpsi'] = _wp


# ---------------------------------------------------------------------------------------------
# Third stage: the -1 marking of the cells skipped by end-of-series psi relaxation (psi_neg=True).
# M = result[1], d = result[0], RF(x) = x (internal representation) or result_fn(x).
_wn = _copy.copy(_wp)
_wn.name = 'dtw.warping_paths#psineg'
_wn.params = dict(_wp.params, psi_neg=('const', True))
_RF = '(W({a}, {b}) if keep_int_repr else vsqrt_if(%s, W({a}, {b})))' % METRIC
_M = 'result[1]'
_INCOL = '(b == %s and 1 <= a <= %s and %s - a <= %s and %s != 0)' % (C, R, R, P1E, P1E)
_INROW = '(a == %s and 1 <= b <= %s and %s - b <= %s)' % (R, C, C, P2E)
_wn.ensures = [
    'implies(keep_int_repr, result[0] == %s)' % _RES,
    'implies(not keep_int_repr, result[0] == vsqrt_if(%s, %s))' % (METRIC, _RES),
    # every cell is either marked or holds its value
    'forall(lambda a, b: implies(0 <= a <= %s and 0 <= b <= %s, %s[a, b] == -1 or %s[a, b] == %s))'
    % (R, C, _M, _M, _RF.format(a='a', b='b')),
    # marks only on the relaxed end of the last column / last row ...
    'forall(lambda a, b: implies(0 <= a <= %s and 0 <= b <= %s, implies(%s[a, b] == -1 and %s != -1, %s or %s)))'
    % (R, C, _M, _RF.format(a='a', b='b'), _INCOL, _INROW),
    # ... as a run that is closed towards the corner ...
    'forall(lambda a: implies(1 <= a < %s, implies(%s[a, %s] == -1 and %s != -1, %s[a + 1, %s] == -1)))'
    % (R, _M, C, _RF.format(a='a', b=C), _M, C),
    'forall(lambda b: implies(1 <= b < %s, implies(%s[%s, b] == -1 and %s != -1, %s[%s, b + 1] == -1)))'
    % (C, _M, R, _RF.format(a=R, b='b'), _M, R),
    # ... whose cells are strictly worse than the returned value ...
    'forall(lambda a, b: implies(0 <= a <= %s and 0 <= b <= %s, implies(%s[a, b] == -1 and %s != -1, result[0] < %s)))'
    % (R, C, _M, _RF.format(a='a', b='b'), _RF.format(a='a', b='b')),
    # ... and the cell in front of the run (or the corner, if nothing is marked) holds the returned value
    'implies(%s >= 1, implies(%s[%s, %s] != -1, result[0] == %s[%s, %s]))' % (R, _M, R, C, _M, R, C),
    'forall(lambda a: implies(1 <= a < %s - 1, implies(%s[a + 1, %s] == -1 and %s != -1 and %s[a, %s] != -1, result[0] == %s[a, %s])))'
    % (R, _M, C, _RF.format(a='a + 1', b=C), _M, C, _M, C),
    'forall(lambda b: implies(1 <= b < %s - 1, implies(%s[%s, b + 1] == -1 and %s != -1 and %s[%s, b] != -1, result[0] == %s[%s, b])))'
    % (C, _M, R, _RF.format(a=R, b='b + 1'), _M, R, _M, R),
    # a marked corner: the run continues along the column or the row, or the unmarked neighbour on that edge holds the value
    'implies(%s >= 1, implies(%s[%s, %s] == -1 and %s != -1, '
    '%s[%s - 1, %s] == -1 or %s[%s, %s - 1] == -1 or result[0] == %s[%s - 1, %s] or result[0] == %s[%s, %s - 1]))'
    % (R, _M, R, C, _RF.format(a=R, b=C), _M, R, C, _M, R, C, _M, R, C, _M, R, C),
]
_wn.props = ('C04',)
_CT['dtw.warping_paths#psineg'] = _wn


# ---------------------------------------------------------------------------------------------
# dtw.distance with early abandoning (max_dist; C03).  M = s.adj_max_dist.  Every buffer cell *agrees* with the
# specification: equal to W unless both are above M; the cells left of `sc` and right of `ec` of the previous row are above M.
M_ = 's.adj_max_dist'
AG_PREV = ('forall(lambda col: implies(JSrow({i} - 1, r, c, s.window) <= col <= c and 0 <= col - {skip} < length, '
           'Agree(%s, dtw[{row} * length + col - {skip}], W({i}, col))), pattern=W({i}, col))' % M_)
ABOVE_L = 'forall(lambda col: implies(1 <= col <= {sc} and col <= c, %s < W({i}, col)), pattern=W({i}, col))' % M_
ABOVE_R = 'forall(lambda col: implies({ec} < col <= c, %s < W({i}, col)), pattern=W({i}, col))' % M_
E_SETTLED = [x for x in D_SETTLED if x not in ('s.adj_max_dist == inf', 'sc == 0')] + [
    '%s < inf' % M_, 'not (%s < 0)' % M_, 'sc >= 0', 'ec >= 0', 'psi_1b == 0', 'psi_2b == 0', 'psi_1e == 0', 'psi_2e == 0',
    'psi_shortest == inf', '%s == MaxDistAdj(%s, kwargs["max_dist"])' % (M_, METRIC)]


def ea_cases():
    out = []
    for il, inner, m in (('sq', 'squared euclidean', 0), ('eu', 'euclidean', 1)):
        kw = dict(KW, inner_dist=('const', inner), psi='none', max_dist='val+', use_pruning=('const', False), max_length_diff='none')
        out.append(dict(label='%s/maxdist' % il, params={'kwargs': kw}, metric=m, psi='nopsi'))
    return out


_ea = _copy.copy(_CT['dtw.distance'])
_ea.name = 'dtw.distance#maxdist'
_ea.cases = ea_cases()
_ea.requires = ['%s >= 1' % R, '%s >= 1' % C, 'kwargs["window"] is None or kwargs["window"] >= 1',
                'kwargs["penalty"] is None or kwargs["penalty"] >= 0', 'kwargs["max_length_diff"] is None',
                'kwargs["max_dist"] > 0', 'MaxDistAdj(%s, kwargs["max_dist"]) < inf' % METRIC,
                'not (MaxDistAdj(%s, kwargs["max_dist"]) < 0)' % METRIC, 'MaxDistAdj(%s, kwargs["max_dist"]) != 0' % METRIC]
_ea.ensures = [
    # early abandoning does not change the result: the unbounded value if it is within the (internal) bound, else inf
    # (as the property states it: below the bound -> the unbounded value, above -> inf, never another finite number; which of
    #  the two is returned when the accumulated cost equals the internal bound exactly is left open by the property)
    'implies(Dend(0, 0) < MaxDistAdj(%s, kwargs["max_dist"]), result == vsqrt_if(%s, Dend(0, 0)))' % (METRIC, METRIC),
    'implies(MaxDistAdj(%s, kwargs["max_dist"]) < Dend(0, 0), result == inf)' % METRIC,
    'result == inf or result == vsqrt_if(%s, Dend(0, 0))' % METRIC,
]
_ea.loops = {
    0: _CT['dtw.distance'].loops[0],
    1: dict(head='for i in range(r)',
            inv=E_SETTLED + ['skip == ' + SKIP('i - 1'),
                             AG_PREV.format(i='i', skip='skip', row='i1'), LEFT.format(i='i', row='i1'),
                             'implies(i == 0, sc == 0 and ec == 0)',
                             ABOVE_L.format(sc='sc', i='i'), ABOVE_R.format(ec='ec', i='i')],
            variant='r - i'),
    2: dict(head='for ii in range(i1 * length, i1 * length + length)',
            inv=E_SETTLED + ['0 <= i < r', 'skipp == ' + SKIP('i - 1'), 'skip == JSrow(i, r, c, s.window)',
                             AG_PREV.format(i='i', skip='skipp', row='i0'),
                             'implies(i == 0, sc == 0 and ec == 0)',
                             ABOVE_L.format(sc='sc', i='i'), ABOVE_R.format(ec='ec', i='i'),
                             'forall(lambda k: implies(i1 * length <= k < ii, dtw[k] == inf))'],
            variant='i1 * length + length - ii'),
    3: dict(head='for j in range(j_start, j_end)',
            inv=E_SETTLED + ['0 <= i < r', 'skipp == ' + SKIP('i - 1'), 'skip == ' + SKIP('i'),
                             'j_start >= JSrow(i, r, c, s.window)', 'j_end == JErow(i, r, c, s.window)',
                             AG_PREV.format(i='i', skip='skipp', row='i0'),
                             # the previous row beyond ec is above the bound (needed when the row is abandoned)
                             ABOVE_R.format(ec='ec', i='i'),
                             # this row: visited or skipped cells agree, the others still hold inf
                             'forall(lambda col: implies(JSrow(i, r, c, s.window) <= col <= j and col <= c and 0 <= col - skip < length, '
                             'Agree(%s, dtw[i1 * length + col - skip], W(i + 1, col))), pattern=W(i + 1, col))' % M_,
                             'forall(lambda k: implies(i1 * length <= k < i1 * length + length and i1 * length + j - skip < k, dtw[k] == inf))',
                             LEFT.format(i='i + 1', row='i1'),
                             # pruning bookkeeping
                             ABOVE_L.format(sc='sc', i='i + 1'),
                             'implies(not smaller_found, forall(lambda col: implies(1 <= col <= j, %s < W(i + 1, col)), pattern=W(i + 1, col)))' % M_,
                             'forall(lambda col: implies(ec_next < col <= j, %s < W(i + 1, col)), pattern=W(i + 1, col))' % M_,
                             'ec_next >= 0'],
            variant='j_end - j'),
}
_ea.hints = {'d = idist_fn(': ['Mention(W(i, j)) and Mention(W(i, j + 1)) and Mention(W(i + 1, j)) and Mention(W(i + 1, j + 1))',
                               # without a window the band is the whole matrix (spares the solver the case analysis on max(r, c))
                               'implies(kwargs["window"] is None, skip == 0 and skipp == 0 and length == c + 1 and '
                               'JSrow(i, r, c, s.window) == 0 and JErow(i, r, c, s.window) == c)',
                               # the three cells read by the step agree with the specification
                               'Agree(%s, dtw[i0 * length + j - skipp], W(i, j))' % M_,
                               'Agree(%s, dtw[i0 * length + j + 1 - skipp], W(i, j + 1))' % M_,
                               'Agree(%s, dtw[i1 * length + j - skip], W(i + 1, j))' % M_],
             # before the row is filled: the border cell of this row is above the bound (term + fact for RowAboveLeft)
             'smaller_found = False': ['%s < W(i + 1, 0)' % M_, 'implies(i >= 1, %s < W(i, 0))' % M_],
             # the cell just written is above the bound (both branches of the pruning test that follow rely on it)
             'sc = j + 1': ['%s < W(i + 1, j + 1)' % M_],
             # after the cell is written: name the step (trigger of lemma AgreeStep), then state its agreement
             'dtw[i1 * length + j + 1 - skip] = d + min(': [
                 'AStep(%s, i + 1, j + 1, dtw[i0 * length + j - skipp], dtw[i0 * length + j + 1 - skipp], dtw[i1 * length + j - skip])' % M_,
                 'Agree(%s, dtw[i1 * length + j + 1 - skip], W(i + 1, j + 1))' % M_,
                 # the row so far (stated once here, before the pruning bookkeeping branches)
                 'forall(lambda col: implies(JSrow(i, r, c, s.window) <= col <= j + 1 and col <= c and 0 <= col - skip < length, '
                 'Agree(%s, dtw[i1 * length + col - skip], W(i + 1, col))), pattern=W(i + 1, col))' % M_]}
_ea.hints_before = {
             # a cell whose point cost exceeds max_step is inf in the specification, hence above the bound
             'continue': ['%s < W(i + 1, j + 1)' % M_],
             # first statement of the branch "cell above the bound": the specification cell is above the bound too
             'if not smaller_found': ['%s < W(i + 1, j + 1)' % M_],
             'break': ['%s < W(i + 1, j + 1)' % M_,
                       'forall(lambda col: implies(j + 1 <= col <= c, %s < W(i + 1, col)), pattern=W(i + 1, col))' % M_,
                       # the row as it is left behind: agreement up to the cell just written, inf beyond it
                       'forall(lambda col: implies(JSrow(i, r, c, s.window) <= col <= j + 1 and col <= c and 0 <= col - skip < length, '
                       'Agree(%s, dtw[i1 * length + col - skip], W(i + 1, col))), pattern=W(i + 1, col))' % M_,
                       'forall(lambda k: implies(i1 * length <= k < i1 * length + length and i1 * length + j + 1 - skip < k, dtw[k] == inf))']}
_ea.theories = ('dtw', 'bounds', 'nonneg', 'astep', 'sqrtmono')
_ea.lemmas = ['CellAbove', 'RowAboveLeft', 'RowAboveRight', 'AgreeStep', 'RowAllInf', 'RowLeadInf']
_ea.props = ('C03',)
_CT['dtw.distance#maxdist'] = _ea


# ---------------------------------------------------------------------------------------------
# dtw.warping_paths with max_dist (C03, cost-matrix route of the Python engine): the value obeys the same
# postcondition as dtw.distance#maxdist, and every cell of the returned matrix that the specification puts at or
# below the bound is exact.  Where the final test compares a square-rooted value with the user's bound
# (squared-Euclidean inner distance without keep_int_repr) the answer depends on the sqrt/square round trip, which
# the property excludes and level O cannot express: that configuration stays with the bounded sweep.
def wpea_cases():
    out = []
    for il, inner, m, kir in (('eu', 'euclidean', 1, 'bool'), ('sq', 'squared euclidean', 0, 'bool')):
        kw = dict(KW, inner_dist=('const', inner), psi='none', max_dist='val+', use_pruning=('const', False), max_length_diff='none')
        out.append(dict(label='%s/maxdist' % il, params={'kwargs': kw, 'keep_int_repr': kir}, metric=m, psi='nopsi'))
    return out


_MA = 'MaxDistAdj(%s, kwargs["max_dist"])' % METRIC
_WRES = lambda x: '(%s if keep_int_repr else vsqrt_if(%s, %s))' % (x, METRIC, x)      # noqa: E731
W_SETTLED = [x for x in SETTLED if x not in ('s.adj_max_dist == inf', 'sc == 0')] + [
    '%s < inf' % M_, 'not (%s < 0)' % M_, 'sc >= 0', 'ec >= 0', 'psi_1b == 0', 'psi_2b == 0', 'psi_1e == 0', 'psi_2e == 0',
    '%s == %s' % (M_, _MA), 's.window >= 1', 'r >= 1', 'c >= 1']
ROWS_AG = ('forall(lambda a, b: implies(0 <= a <= {upto} and 0 <= b <= %s, Agree(%s, dtw[a, b], W(a, b))), pattern=W(a, b))' % (C, M_))
ROWS_INF = 'forall(lambda a, b: implies({frm} < a <= %s and 0 <= b <= %s, dtw[a, b] == inf))' % (R, C)
_we = _copy.copy(_CT['dtw.warping_paths'])
_we.name = 'dtw.warping_paths#maxdist'
_we.params = dict(_CT['dtw.warping_paths'].params, keep_int_repr='bool', psi_neg=('const', False))
_we.cases = wpea_cases()
_we.requires = ['%s >= 1' % R, '%s >= 1' % C, 'kwargs["window"] is None or kwargs["window"] >= 1',
                'kwargs["penalty"] is None or kwargs["penalty"] >= 0',
                'kwargs["max_dist"] > 0', '%s < inf' % _MA, 'not (%s < 0)' % _MA, '%s != 0' % _MA]
_EXACT = '(keep_int_repr or %s == 1)' % METRIC       # the final test compares like with like
_we.ensures = [
    'implies(%s and W(%s, %s) < %s, result[0] == %s)' % (_EXACT, R, C, _MA, _WRES('W(%s, %s)' % (R, C))),
    'implies(%s and %s < W(%s, %s), result[0] == inf)' % (_EXACT, _MA, R, C),
    'implies(%s, result[0] == inf or result[0] == %s)' % (_EXACT, _WRES('W(%s, %s)' % (R, C))),
    # squared inner distance, square-rooted output: the final test is on the square-rooted value against the user's bound.
    # As the property states it: a distance below the bound is returned unchanged (what is returned above the bound depends
    # on the sqrt/square round trip within a rounding width of the bound: bounded sweep only)
    'implies(not %s and vsqrt(W(%s, %s)) < kwargs["max_dist"], result[0] == vsqrt(W(%s, %s)))' % (_EXACT, R, C, R, C),
    # the matrix: a cell the specification does not put above the bound is exact
    'forall(lambda a, b: implies(0 <= a <= %s and 0 <= b <= %s and not (%s < W(a, b)), result[1][a, b] == %s))'
    % (R, C, _MA, _WRES('W(a, b)')),
]
# (on the early return for max_length_diff, which is infeasible here, `result` is not a pair: the guard makes that an
#  obligation "this path is infeasible" instead of an undefined contract expression)
_we.ensures = ['implies(%s >= 1, %s)' % (R, e_) for e_ in _we.ensures]
_we.loops = {
    0: _CT['dtw.warping_paths'].loops[0],
    1: _CT['dtw.warping_paths'].loops[1],
    2: dict(head='for i in range(r)',
            inv=W_SETTLED + ['i1 == i', ROWS_AG.format(upto='i'), ROWS_INF.format(frm='i'),
                             'implies(i == 0, sc == 0 and ec == 0)',
                             ABOVE_L.format(sc='sc', i='i'), ABOVE_R.format(ec='ec', i='i')],
            variant='r - i'),
    3: dict(head='for j in range(j_start, j_end)',
            inv=W_SETTLED + ['i0 == i', 'i1 == i + 1', '0 <= i < r',
                             'j_start >= JSrow(i, r, c, s.window)', 'j_end == JErow(i, r, c, s.window)',
                             ROWS_AG.format(upto='i'), ROWS_INF.format(frm='i + 1'), ABOVE_R.format(ec='ec', i='i'),
                             'forall(lambda b: implies(0 <= b <= j and b <= %s, Agree(%s, dtw[i + 1, b], W(i + 1, b))), '
                             'pattern=W(i + 1, b))' % (C, M_),
                             'forall(lambda b: implies(j < b <= %s, dtw[i + 1, b] == inf))' % C,
                             ABOVE_L.format(sc='sc', i='i + 1'),
                             'implies(not smaller_found, forall(lambda col: implies(1 <= col <= j, %s < W(i + 1, col)), pattern=W(i + 1, col)))' % M_,
                             'forall(lambda col: implies(ec_next < col <= j, %s < W(i + 1, col)), pattern=W(i + 1, col))' % M_,
                             'ec_next >= 0'],
            variant='j_end - j'),
}
_we.hints = {'d = cost(': ['Mention(W(i, j)) and Mention(W(i, j + 1)) and Mention(W(i + 1, j)) and Mention(W(i + 1, j + 1))',
                           'Agree(%s, dtw[i0, j], W(i, j))' % M_, 'Agree(%s, dtw[i0, j + 1], W(i, j + 1))' % M_,
                           'Agree(%s, dtw[i1, j], W(i + 1, j))' % M_],
             'smaller_found = False': ['%s < W(i + 1, 0)' % M_, 'implies(i >= 1, %s < W(i, 0))' % M_],
             'dtw[i1, j + 1] = d + min(': [
                 'AStep(%s, i + 1, j + 1, dtw[i0, j], dtw[i0, j + 1], dtw[i1, j])' % M_,
                 'Agree(%s, dtw[i1, j + 1], W(i + 1, j + 1))' % M_,
                 'forall(lambda b: implies(0 <= b <= j + 1 and b <= %s, Agree(%s, dtw[i + 1, b], W(i + 1, b))), pattern=W(i + 1, b))' % (C, M_)]}
_we.hints_before = {
    'continue': ['%s < W(i + 1, j + 1)' % M_],
    'if not smaller_found': ['%s < W(i + 1, j + 1)' % M_],
    'break': ['%s < W(i + 1, j + 1)' % M_,
              'forall(lambda col: implies(j + 1 <= col <= c, %s < W(i + 1, col)), pattern=W(i + 1, col))' % M_,
              'forall(lambda b: implies(0 <= b <= j + 1 and b <= %s, Agree(%s, dtw[i + 1, b], W(i + 1, b))), pattern=W(i + 1, b))' % (C, M_),
              'forall(lambda b: implies(j + 1 < b <= %s, dtw[i + 1, b] == inf))' % C]}
_we.hints['dtw = result_fn(dtw)'] = ['implies(%s == 0, vsqrt(%s) == kwargs["max_dist"])' % (METRIC, M_)]
_we.theories = ('dtw', 'bounds', 'nonneg', 'astep', 'sqrtmono', 'sqrtsq')
_we.lemmas = ['CellAbove', 'RowAboveLeft', 'RowAboveRight', 'AgreeStep']
_we.returns = ('tuple', 'val', 'matrix')
_we.props = ('C03',)
_CT['dtw.warping_paths#maxdist'] = _we
