"""Sidecar contracts: the serial pure-Python routes of the top-level dtw.distance_matrix (C06): option decoding through
DTWSettings, the early exits, the call of distance_matrix_python and -- for compact=False -- distances_array_to_matrix, each by
its contract.  The result is the property's statement for the public entry point, not only for its helpers."""
from dvc.contracts import contract
import specs.layout  # noqa: F401
import specs.dtwspec  # noqa: F401
import contracts.dtw_matrix_py as M
from contracts.dtw_mp_py import KW

# result shape of the callee when it is used by contract: an array.array of doubles
M._C['dtw.distance_matrix_python'].returns = 'array:val'
# ... and the square form: a 2-D ndarray of doubles
M._C['dtw.distances_array_to_matrix'].returns = 'mat:val'

REQ = ['ValidBlock(block, length(s))', '1 <= length(s) <= 2**26',
       'forall(lambda k: implies(0 <= k < length(s), length(s[k]) >= 1))',
       'kwargs["window"] is None or kwargs["window"] >= 1', 'kwargs["penalty"] is None or kwargs["penalty"] >= 0',
       'kwargs["max_step"] is None or kwargs["max_step"] >= 0',
       'kwargs["max_length_diff"] is None or kwargs["max_length_diff"] >= 0',
       'kwargs["psi"] is None or kwargs["psi"] >= 0']
VAL = 'DTWP(s[r2], s[c2], False, kw)'

contract(
    'dtw.distance_matrix#serial',
    params={'s': 'series_collection', 'block': 'none', 'compact': ('const', True), 'parallel': ('const', False),
            'use_mp': ('const', False), 'show_progress': ('const', False), 'only_triu': ('const', False), 'kwargs': KW},
    cases=[dict(label=c['label'], params=dict(c['params'])) for c in M.BLOCK_CASES],
    bind={'block0': 'block', 'kw': 'DTWSettings(**kwargs).kwargs()'},
    callee_views={'dtw.distance': 'dtw.distance#value'},
    requires=REQ + ['Len(block, length(s)) >= 1'],
    ensures=['length(result) == Len(block0, length(s))',
             'forall(lambda r2, c2: implies(T2(r2, c2) and Sel(block0, length(s), r2, c2), '
             'result[Rank(block0, length(s), r2, c2)] == %s))' % VAL],
    theories=('layout',),
    lemmas=['LenFullClosed', 'LenRectClosed', 'RowsBefore', 'LenRowsNonneg'],
    props=('C06',),
)

contract(
    'dtw.distance_matrix#square',
    params={'s': 'series_collection', 'block': 'none', 'compact': ('const', False), 'parallel': ('const', False),
            'use_mp': ('const', False), 'show_progress': ('const', False), 'only_triu': 'bool', 'kwargs': KW},
    cases=[dict(label=c['label'], params=dict(c['params'])) for c in M.BLOCK_CASES[:2]],
    bind={'block0': 'block', 'kw': 'DTWSettings(**kwargs).kwargs()'},
    callee_views={'dtw.distance': 'dtw.distance#value'},
    requires=REQ + ['Len(block, length(s)) >= 1'],
    ensures=[
        'forall(lambda r2, c2: implies(T2(r2, c2) and Sel(block0, length(s), r2, c2), result[r2, c2] == %s))' % VAL,
        'forall(lambda r2, c2: implies(T2(r2, c2) and Sel(block0, length(s), r2, c2) and not only_triu, result[c2, r2] == %s))' % VAL,
        'forall(lambda r2, c2: implies(T2(r2, c2) and 0 <= r2 < length(s) and 0 <= c2 < length(s) and not only_triu '
        'and r2 == c2, result[r2, c2] == 0))',
        'forall(lambda r2, c2: implies(T2(r2, c2) and 0 <= r2 < length(s) and 0 <= c2 < length(s) and r2 != c2 and '
        'not Sel(block0, length(s), r2, c2) and (only_triu or not Sel(block0, length(s), c2, r2)), result[r2, c2] == inf))'],
    theories=('layout',),
    lemmas=['LenFullClosed', 'LenRectClosed', 'RowsBefore', 'LenRowsNonneg'],
    props=('C06', 'C10'),
)
