"""Sidecar contracts: distance-matrix routines of dd_dtw.c (C06, C08, C20) and the assumed
contract of the kernels they call (proved under C02 when that is claimed)."""
from dvc.contracts import contract
import specs.layout  # noqa: F401
import specs.dtwspec  # noqa: F401
from contracts import gens

E = 'EffBlock(block, nb_series_r, nb_series_c)'

SETTINGS_OK = ['settings.psi_1b >= 0', 'settings.psi_1e >= 0', 'settings.psi_2b >= 0', 'settings.psi_2e >= 0',
               'settings.window >= 0', 'settings.max_length_diff >= 0']

for name, nd in (('dtw_distance', False), ('dtw_distance_ndim', True)):
    contract(
        'dd_dtw.c::' + name + '#value',
        params=dict([('s1', 'cptr:val'), ('l1', 'int'), ('s2', 'cptr:val'), ('l2', 'int')]
                    + ([('ndim', 'int')] if nd else []) + [('settings', ('cstruct', 'DTWSettings'))]),
        requires=['l1 >= 1', 'l2 >= 1', 'off(s1) >= 0', 'off(s2) >= 0',
                  'length(s1) - off(s1) >= l1 * %s' % ('ndim' if nd else '1'),
                  'length(s2) - off(s2) >= l2 * %s' % ('ndim' if nd else '1'),
                  'settings.psi_1b <= l1', 'settings.psi_1e <= l1', 'settings.psi_2b <= l2', 'settings.psi_2e <= l2']
        + SETTINGS_OK + (['ndim >= 1'] if nd else []),
        ensures=['result == DTWCnd(s1, l1, s2, l2, ndim, settings)' if nd else 'result == DTWC(s1, l1, s2, l2, settings)'],
        returns='val',
        trusted=True,
        props=('C02',),
        note='assumed here: the kernel is a function of the series contents and the settings and writes nothing '
             'the caller can see; its functional contract is C02.',
    )

_LEN_LOOPS = {0: dict(head='for(;ir < block.re;)',
                      inv=['block.rb <= ir <= block.re',
                           'length == LenRowsTo(%s, 0, ir)' % E,
                           '0 <= length <= (ir - block.rb) * 2**31'],
                      variant='block.re - ir')}

contract(
    'dd_dtw.c::dtw_distances_length',
    params={'block': ('cstruct', 'DTWBlock'), 'nb_series_r': 'int', 'nb_series_c': 'int'},
    cases=[dict(label='null', params={'block': 'cnull'}), dict(label='block')],
    requires=['1 <= nb_series_r <= 2**31', '1 <= nb_series_c <= 2**31',
              'DecodableBlock(block, nb_series_r, nb_series_c)'],
    ensures=['result == Len(%s, 0)' % E],
    loops=_LEN_LOOPS,
    replay=gens.gen_length,
    hints={18: ['pure:2 * length == nb_series_r * (nb_series_r - 1)'],
           20: ['pure:2 * length == nb_series_r * (nb_series_r - 1)'],
           26: ['pure:2 * length == nb_series_c * (nb_series_c - 1)'],
           28: ['pure:2 * length == nb_series_c * (nb_series_c - 1)'],
           34: ['pure:2 * length == nb_series_c * (nb_series_c - 1)'],
           36: ['pure:2 * length == nb_series_c * (nb_series_c - 1)'],
           40: ['pure:2 * ((nb_series_c // 2) * (nb_series_c - 1)) == nb_series_c * (nb_series_c - 1)',
                'pure:2 * length == old(nb_series_c) * (old(nb_series_c) - 1) - nb_series_c * (nb_series_c - 1)'],
           42: ['pure:2 * ((nb_series_c - 1) // 2) == nb_series_c - 1',
                'pure:2 * (nb_series_c * ((nb_series_c - 1) // 2)) == nb_series_c * (nb_series_c - 1)',
                'pure:2 * length == old(nb_series_c) * (old(nb_series_c) - 1) - nb_series_c * (nb_series_c - 1)']},
    returns='int',
    theories=('layout',),
    lemmas=['LenFullClosed', 'LenRectClosed', 'RowsBeyond', 'LenFullBeyond'],
    props=('C06', 'C08', 'C20'),
)

contract(
    'dd_dtw.c::dtw_block_is_valid',
    params={'block': ('cstruct', 'DTWBlock'), 'nb_series_r': 'int', 'nb_series_c': 'int'},
    requires=[],
    ensures=['result == (block.rb < block.re and block.cb < block.ce and block.rb < nb_series_r and '
             'block.re <= nb_series_r and block.cb < nb_series_c and block.ce <= nb_series_c)'],
    returns='bool',
    props=('C06', 'C08', 'C20'),
)


# ---------------------------------------------------------------------------------------------
# dtw_distances_{ptrs, ndim_ptrs, matrix, ndim_matrix, matrices, ndim_matrices}
LAYOUT_LEMMAS = ['LenFullClosed', 'LenRectClosed', 'RowsBeyond', 'LenFullBeyond', 'RowsBefore', 'LenRowsNonneg']


def _distances(name, kind, nd):
    """kind: 'ptrs' | 'matrix' | 'matrices'"""
    nd_s = 'ndim' if nd else '1'
    if kind == 'ptrs':
        params = [('ptrs', 'cptrs'), ('nb_ptrs', 'int'), ('lengths', 'cptr:int')]
        nr = nc = 'nb_ptrs'
        row = lambda r: 'ptrs[%s]' % r
        col = row
        rlen = lambda r: 'lengths[%s]' % r
        clen = rlen
        req = ['length(ptrs) >= nb_ptrs', 'length(lengths) >= nb_ptrs', 'off(lengths) == 0',
               'forall(lambda k: implies(0 <= k < nb_ptrs, 1 <= lengths[k] <= 2**31 and '
               'length(ptrs[k]) >= lengths[k] * %s and settings.psi_1b <= lengths[k] and settings.psi_1e <= lengths[k] '
               'and settings.psi_2b <= lengths[k] and settings.psi_2e <= lengths[k]))' % nd_s]
        callee_dims = ''
    elif kind == 'matrix':
        params = [('matrix', 'cptr:val'), ('nb_rows', 'int'), ('nb_cols', 'int')]
        nr = nc = 'nb_rows'
        row = (lambda r: 'matrix + %s * nb_cols * ndim' % r) if nd else (lambda r: 'matrix + %s * nb_cols' % r)
        col = row
        rlen = clen = lambda r: 'nb_cols'
        req = ['off(matrix) == 0', '1 <= nb_cols <= 2**20', 'length(matrix) >= nb_rows * nb_cols * %s' % nd_s,
               'settings.psi_1b <= nb_cols', 'settings.psi_1e <= nb_cols', 'settings.psi_2b <= nb_cols',
               'settings.psi_2e <= nb_cols']
    else:
        params = [('matrix_r', 'cptr:val'), ('nb_rows_r', 'int'), ('nb_cols_r', 'int'),
                  ('matrix_c', 'cptr:val'), ('nb_rows_c', 'int'), ('nb_cols_c', 'int')]
        nr, nc = 'nb_rows_r', 'nb_rows_c'
        row = (lambda r: 'matrix_r + %s * nb_cols_r * ndim' % r) if nd else (lambda r: 'matrix_r + %s * nb_cols_r' % r)
        col = (lambda c: 'matrix_c + %s * nb_cols_c * ndim' % c) if nd else (lambda c: 'matrix_c + %s * nb_cols_c' % c)
        rlen = lambda r: 'nb_cols_r'
        clen = lambda c: 'nb_cols_c'
        req = ['off(matrix_r) == 0', 'off(matrix_c) == 0', '1 <= nb_cols_r <= 2**20', '1 <= nb_cols_c <= 2**20',
               'length(matrix_r) >= nb_rows_r * nb_cols_r * %s' % nd_s,
               'length(matrix_c) >= nb_rows_c * nb_cols_c * %s' % nd_s,
               'settings.psi_1b <= nb_cols_r', 'settings.psi_1e <= nb_cols_r', 'settings.psi_2b <= nb_cols_c',
               'settings.psi_2e <= nb_cols_c']
    if nd:
        params.append(('ndim', 'int'))
        req.append('1 <= ndim <= 2**10')
    params += [('output', 'cptr:val'), ('block', ('cstruct', 'DTWBlock')), ('settings', ('cstruct', 'DTWSettings'))]
    if nd:
        dtw = lambda r, c: 'DTWCnd(%s, %s, %s, %s, ndim, settings)' % (row(r), rlen(r), col(c), clen(c))
    else:
        dtw = lambda r, c: 'DTWC(%s, %s, %s, %s, settings)' % (row(r), rlen(r), col(c), clen(c))
    pairs = ('forall(lambda r2, c2: implies(T2(r2, c2) and Sel(E, 0, r2, c2) and {cond}, '
             'output[Rank(E, 0, r2, c2)] == ' + dtw('r2', 'c2') + '))')
    frame = 'forall(lambda k: implies(k < 0 or k >= {hi}, output[k] == old(output[k])))'
    blockfix = ('block.rb == E["rb"] and block.cb == E["cb"] and block.re == E["re"] and block.ce == E["ce"] '
                'and block.triu == E["triu"]')
    contract(
        'dd_dtw.c::' + name,
        params=dict(params),
        bind={'E': 'EffBlock(block, %s, %s)' % (nr, nc)},
        requires=['1 <= %s <= 2**31' % nr, '1 <= %s <= 2**31' % nc,
                  'DecodableBlock(block, %s, %s)' % (nr, nc),
                  'off(output) >= 0', 'length(output) - off(output) >= Len(E, 0)'] + req + SETTINGS_OK,
        ensures=['result == Len(E, 0)',
                 pairs.format(cond='True'),
                 frame.format(hi='Len(E, 0)'),
                 'block.rb == old(block.rb) and block.cb == old(block.cb) and block.triu == old(block.triu)',
                 'block.re == old(block.re) or (old(block.re) == 0 and block.re == %s)' % nr,
                 'block.ce == old(block.ce) or (old(block.ce) == 0 and block.ce == %s)' % nc],
        assigns=['output', 'block.re', 'block.ce'],
        loops={
            0: dict(head='for(;r < block.re;)',
                    inv=[blockfix, 'block.rb <= r <= block.re', 'length == Len(E, 0)', 'length > 0',
                         'i == LenRowsTo(E, 0, r)', pairs.format(cond='r2 < r'), frame.format(hi='i')],
                    variant='block.re - r'),
            1: dict(head='for(;c < block.ce;)',
                    inv=[blockfix, 'block.rb <= r < block.re', 'length == Len(E, 0)', 'length > 0',
                         'cb == CBrow(E, 0, r)', 'cb <= c', 'c <= block.ce or c == cb',
                         'i == LenRowsTo(E, 0, r) + (c - cb)',
                         pairs.format(cond='(r2 < r or (r2 == r and c2 < c))'), frame.format(hi='i')],
                    variant='block.ce - c + 1 + (cb - c if c < cb else 0)'),
        },
        returns='int',
        replay=gens.gen_distances(kind, nd),
        callee_views={'dd_dtw.c::dtw_distance': 'dd_dtw.c::dtw_distance#value',
                      'dd_dtw.c::dtw_distance_ndim': 'dd_dtw.c::dtw_distance_ndim#value'},
        theories=('layout',),
        lemmas=LAYOUT_LEMMAS,
        props=('C06', 'C08', 'C20', 'C07'),
    )


_distances('dtw_distances_ptrs', 'ptrs', False)
_distances('dtw_distances_ndim_ptrs', 'ptrs', True)
_distances('dtw_distances_matrix', 'matrix', False)
_distances('dtw_distances_ndim_matrix', 'matrix', True)
_distances('dtw_distances_matrices', 'matrices', False)
_distances('dtw_distances_ndim_matrices', 'matrices', True)
