"""Sidecar contract: the assignment step of KMeans (clustering/kmeans.py _distance_with_params; C16)."""
from dvc.contracts import contract
import contracts.dtw_matrix_py  # noqa: F401  (dtw.distance#value view)
import specs.dtwspec  # noqa: F401

D = 'DTWP(t[0], t[1][{k}], False, t[2])'

contract(
    'clustering.kmeans._distance_with_params',
    params={'t': ('tuple', 'series', 'series_collection', {})},
    callee_views={'dtw.distance': 'dtw.distance#value'},
    requires=['length(t[0]) >= 1', 'forall(lambda k: implies(0 <= k < length(t[1]), length(t[1][k]) >= 1))'],
    ensures=[
        # no mean is strictly nearer than the reported distance
        'forall(lambda k: implies(0 <= k < length(t[1]), not (%s < result[1])))' % D.format(k='k'),
        # the reported cluster is a mean at exactly that distance, and the first such mean
        'implies(result[0] >= 0, result[0] < length(t[1]) and result[1] == %s)' % D.format(k='result[0]'),
        'implies(result[0] >= 0, forall(lambda k: implies(0 <= k < result[0], result[1] < %s)))' % D.format(k='k'),
        # -1 only if every distance is infinite (or there is no mean)
        'implies(result[0] < 0, result[0] == -1 and result[1] == inf)',
    ],
    loops={
        0: dict(head='for (i, avg) in enumerate(avgs)',
                inv=['-1 <= min_i < __it0 or (min_i == -1 and __it0 == 0)', 'implies(min_i == -1, min_d == inf)',
                     'implies(min_i >= 0, min_d == %s)' % D.format(k='min_i'),
                     'forall(lambda k: implies(0 <= k < __it0, not (%s < min_d)))' % D.format(k='k'),
                     'implies(min_i >= 0, forall(lambda k: implies(0 <= k < min_i, min_d < %s)))' % D.format(k='k')],
                variant='length(t[1]) - __it0'),
    },
    order_axioms=True,
    props=('C16',),
)
