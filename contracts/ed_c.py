"""Sidecar contracts: src/DTAIDistanceC/DTAIDistanceC/dd_ed.c (C09, C08, C11, C20)."""
from dvc.contracts import contract
import specs.bounds  # noqa: F401
from contracts import gens

_REQ = ['l1 >= 1', 'l2 >= 1', 'length(s1) - off(s1) >= l1', 'length(s2) - off(s2) >= l2', 'off(s1) >= 0', 'off(s2) >= 0']


def _ed(name, metric, result):
    contract(
        'dd_ed.c::' + name,
        params={'s1': 'cptr:val', 'l1': 'int', 's2': 'cptr:val', 'l2': 'int'},
        requires=_REQ,
        ensures=['result == %s' % result],
        loops={
            0: dict(head='for(;i < n;)', inv=['0 <= i <= n', 'n == mini(l1, l2)', 'ub == EDsum(s1, l1, s2, l2, %d, i)' % metric],
                    variant='n - i'),
            1: dict(head='for(;i < l1;)', inv=['n <= i <= l1', 'n == l2', 'l1 > l2', 'ub == EDsum(s1, l1, s2, l2, %d, i)' % metric],
                    variant='l1 - i'),
            2: dict(head='for(;i < l2;)', inv=['n <= i <= l2', 'n == l1', 'l1 < l2', 'ub == EDsum(s1, l1, s2, l2, %d, i)' % metric],
                    variant='l2 - i'),
        },
        theories=('bounds',),
        replay=gens.gen_ed(False),
        props=('C09', 'C08', 'C20'),
    )


_ed('euclidean_distance', 0, 'vsqrt(EDsum(s1, l1, s2, l2, 0, maxi(l1, l2)))')
_ed('euclidean_distance_euclidean', 1, 'EDsum(s1, l1, s2, l2, 1, maxi(l1, l2))')


def _ed_nd(name, metric, result):
    """Contract written for the multivariate routines as the property states them (every dimension
    of every point, surplus points against the last *point* of the shorter series)."""
    inner = dict(inv=['0 <= di <= ndim', 'd == InnerNd(s1, {b1}, s2, {b2}, di)'], variant='ndim - di')

    def il(b1, b2):
        return dict(head='for(;di < ndim;)', inv=[x.format(b1=b1, b2=b2) for x in inner['inv']], variant=inner['variant'])
    contract(
        'dd_ed.c::' + name,
        params={'s1': 'cptr:val', 'l1': 'int', 's2': 'cptr:val', 'l2': 'int', 'ndim': 'int'},
        requires=['l1 >= 1', 'l2 >= 1', '1 <= ndim <= 2**10', 'l1 <= 2**40', 'l2 <= 2**40',
                  'length(s1) - off(s1) >= l1 * ndim', 'length(s2) - off(s2) >= l2 * ndim',
                  'off(s1) >= 0', 'off(s2) >= 0'],
        ensures=['result == %s' % result],
        loops={
            0: dict(head='for(;i < n;)', inv=['0 <= i <= n', 'n == mini(l1, l2)',
                                              'ub == EDsumNd(s1, l1, s2, l2, ndim, %d, i)' % metric], variant='n - i'),
            1: il('i * ndim', 'i * ndim'),
            2: dict(head='for(;i < l1;)', inv=['n <= i <= l1', 'n == l2', 'l1 > l2',
                                               'ub == EDsumNd(s1, l1, s2, l2, ndim, %d, i)' % metric], variant='l1 - i'),
            3: il('i * ndim', '(n - 1) * ndim'),
            4: dict(head='for(;i < l2;)', inv=['n <= i <= l2', 'n == l1', 'l1 < l2',
                                               'ub == EDsumNd(s1, l1, s2, l2, ndim, %d, i)' % metric], variant='l2 - i'),
            5: il('(n - 1) * ndim', 'i * ndim'),
        },
        theories=('bounds',),
        replay=gens.gen_ed(True),
        props=('C09', 'C11', 'C08', 'C20'),
    )


_ed_nd('euclidean_distance_ndim', 0, 'vsqrt(EDsumNd(s1, l1, s2, l2, ndim, 0, maxi(l1, l2)))')
_ed_nd('euclidean_distance_ndim_euclidean', 1, 'EDsumNd(s1, l1, s2, l2, ndim, 1, maxi(l1, l2))')
