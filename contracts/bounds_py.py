"""Sidecar contracts: ed.distance, dtw.lb_keogh, dtw.ub_euclidean (Python; C09, C20)."""
from dvc.contracts import contract
import specs.bounds  # noqa: F401

M = '(0 if inner_dist == "squared euclidean" else 1)'
ED = 'EDsum(s1, length(s1), s2, length(s2), %s, maxi(length(s1), length(s2)))'
EDK = 'EDsum(s1, length(s1), s2, length(s2), ' + M + ', %s)'

contract(
    'ed.distance',
    params={'s1': 'series', 's2': 'series', 'inner_dist': 'none', 'use_ndim': ('const', False)},
    cases=[dict(label='sqeuclid', params={'inner_dist': ('const', 'squared euclidean')}),
           dict(label='euclid', params={'inner_dist': ('const', 'euclidean')})],
    requires=['length(s1) >= 1', 'length(s2) >= 1', 'inner_dist == "squared euclidean" or inner_dist == "euclidean"'],
    ensures=['result == (vsqrt(%s) if inner_dist == "squared euclidean" else %s)' % (ED % '0', ED % '1')],
    returns='val',
    kinds={'ub': 'val'},
    loops={
        0: dict(head='for (v1, v2) in zip(s1, s2)',
                inv=['n == mini(length(s1), length(s2))', 'ub == ' + EDK % '_it'],
                variant='n - _it'),
        1: dict(head='for v1 in s1[n:]',
                inv=['n == length(s2)', 'length(s1) > length(s2)', 'v2 == s2[n - 1]', 'ub == ' + EDK % 'n + _it'],
                variant='length(s1) - n - _it'),
        2: dict(head='for v2 in s2[n:]',
                inv=['n == length(s1)', 'length(s1) < length(s2)', 'v1 == s1[n - 1]', 'ub == ' + EDK % 'n + _it'],
                variant='length(s2) - n - _it'),
    },
    theories=('bounds',),
    props=('C09', 'C20'),
)


WPY = '(maxi(length(s1), length(s2)) if kwargs["window"] is None else kwargs["window"])'

for m, inner in ((0, 'squared euclidean'), (1, 'euclidean')):
    lb = 'LBsum(s1, length(s1), s2, length(s2), %s, %d, %s)'
    contract(
        'dtw.lb_keogh' + ('' if m == 0 else '#euclid'),
        params={'s1': 'series', 's2': 'series',
                'kwargs': {'window': 'opt:int', 'inner_dist': ('const', inner)}},
        requires=['length(s1) >= 1', 'length(s2) >= 1', 'kwargs["window"] is None or kwargs["window"] >= 1',
                  'forall(lambda k: implies(0 <= k < length(s2), s2[k] != inf and s2[k] != vneginf()))'],
        ensures=['result == ' + (('vsqrt(%s)' if m == 0 else '%s') % (lb % (WPY, m, 'length(s1)')))],
        kinds={'t': 'val'},
        loops={0: dict(head='for i in range(len(s1))',
                       inv=['s.window == %s' % WPY,
                            'imin_diff == maxi(0, length(s1) - length(s2)) + s.window - 1',
                            'imax_diff == maxi(0, length(s2) - length(s1)) + s.window',
                            't == ' + lb % ('s.window', m, 'i')],
                       variant='length(s1) - i')},
        theories=('bounds',),
        order_axioms=True,
        props=('C09', 'C20'),
    )

contract(
    'dtw.ub_euclidean',
    params={'s1': 'series', 's2': 'series', 'inner_dist': ('const', 'squared euclidean')},
    requires=['length(s1) >= 1', 'length(s2) >= 1'],
    ensures=['result == vsqrt(%s)' % (ED % '0')],
    theories=('bounds',),
    props=('C09', 'C20'),
)
