"""Sidecar contracts: similarity.distance_to_similarity and similarity.squash (C19), level R.
`D` / `X` are two arbitrary elements of a non-negative array; array statistics (max, min, mean,
quantile) are symbols constrained only by what holds for every array containing those elements."""
from dvc.contracts import contract
import specs.reals  # noqa: F401

MONO = 'implies(D[0] <= D[1], result[0] >= result[1])'
RANGE = '0 <= result[0] <= 1 and 0 <= result[1] <= 1'
ZERO = 'implies(D[0] == 0, result[0] >= result[1])'


def d2s(label, method, params, requires, ensures):
    return dict(label=label, params=dict({'method': ('const', method)}, **params), requires=requires, ensures=ensures)


contract(
    'similarity.distance_to_similarity',
    params={'D': 'nonneg_pair', 'r': 'none', 'a': 'none', 'method': ('const', 'exponential'),
            'return_params': ('const', False), 'cover_quantile': ('const', False)},
    cases=[
        d2s('exp/default', 'exponential', {}, [], [MONO, RANGE, ZERO]),
        d2s('exp/r', 'Exponential', {'r': 'real'}, ['r > 0'], [MONO, RANGE, ZERO, 'result[0] == rexp(-D[0] / r)']),
        d2s('exp/quantile', 'exponential', {'cover_quantile': 'real'},
            ['0 < cover_quantile < 1', 'NpQuantile(D) > 0'], [MONO, RANGE, ZERO]),
        d2s('gauss/default', 'gaussian', {}, [], [MONO, RANGE, ZERO]),
        d2s('gauss/r', 'gaussian', {'r': 'real'}, ['r > 0'], [MONO, RANGE, ZERO, 'result[0] == rexp(-(D[0] * D[0]) / (r * r))']),
        d2s('recip/default', 'reciprocal', {}, [], [MONO, RANGE, ZERO, 'result[0] == 1 / (1 + D[0] * 1)']),
        d2s('recip/r,a', 'reciprocal', {'r': 'real', 'a': 'real'}, ['r > 0', 'a > 0'],
            [MONO, ZERO, 'result[0] == 1 / (r + D[0] * a)', 'result[0] > 0']),
        d2s('reverse/default', 'reverse', {}, [], [MONO, RANGE, ZERO]),
        d2s('reverse/r', 'reverse', {'r': 'real'}, ['r > 0'], [MONO, ZERO, 'result[0] == (r - D[0]) / r']),
        # data-derived scale from a covered quantile (plain and (quantile, value) forms)
        d2s('gauss/quantile', 'gaussian', {'cover_quantile': 'real'},
            ['0 < cover_quantile < 1', 'NpQuantile(D) > 0'], [MONO, RANGE, ZERO]),
        d2s('recip/quantile', 'reciprocal', {'cover_quantile': 'real'},
            ['0 < cover_quantile < 1', 'NpQuantile(D) > 0'], [MONO, RANGE, ZERO]),
        d2s('exp/quantile2', 'exponential', {'cover_quantile': ('tuple', 'real', 'real')},
            ['0 < cover_quantile[0] < 1', '0 < cover_quantile[1] < 1', 'NpQuantile(D) > 0'], [MONO, RANGE, ZERO]),
        d2s('gauss/quantile2', 'gaussian', {'cover_quantile': ('tuple', 'real', 'real')},
            ['0 < cover_quantile[0] < 1', '0 < cover_quantile[1] < 1', 'NpQuantile(D) > 0'], [MONO, RANGE, ZERO]),
        # reported parameters: re-applying the transform with them is the explicit-parameter case above
        d2s('exp/report', 'exponential', {'return_params': ('const', True)}, ['NpMax(D) > 0'],
            ['result[1] > 0', 'result[0][0] == rexp(-D[0] / result[1])', 'result[0][1] == rexp(-D[1] / result[1])']),
        d2s('gauss/report', 'gaussian', {'return_params': ('const', True)}, ['NpMax(D) > 0'],
            ['result[1] > 0', 'result[0][0] == rexp(-(D[0] * D[0]) / (result[1] * result[1]))']),
        d2s('reverse/report', 'reverse', {'return_params': ('const', True)}, ['NpMax(D) > 0'],
            ['result[1] > 0', 'result[0][0] == (result[1] - D[0]) / result[1]']),
        d2s('recip/report', 'reciprocal', {'return_params': ('const', True)}, [],
            ['result[1] > 0', 'result[0][0] == 1 / (result[1] + D[0] * 1)']),
        d2s('recip/report-quantile', 'reciprocal', {'return_params': ('const', True), 'cover_quantile': 'real'},
            ['0 < cover_quantile < 1', 'NpQuantile(D) > 0'],
            ['result[1] > 0', 'result[0][0] == 1 / (result[1] + D[0] * 1)']),
    ],
    theories=('reals',),
    props=('C19',),
)


SMONO = 'implies(X[0] <= X[1], result[0] <= result[1])'
SRANGE = '0 <= result[0] <= 1 and 0 <= result[1] <= 1'


def sq(label, method, params, requires, ensures):
    return dict(label=label, params=dict({'method': ('const', method)}, **params), requires=requires, ensures=ensures)


contract(
    'similarity.squash',
    params={'X': 'nonneg_pair', 'r': 'none', 'base': 'none', 'x0': 'none', 'method': ('const', 'logistic'),
            'return_params': ('const', False), 'keep_sign': ('const', False), 'cover_quantile': ('const', False)},
    cases=[
        sq('logistic/default', 'logistic', {}, ['NpMean(X) > 0'], [SMONO, SRANGE]),
        sq('logistic/r,x0', 'logistic', {'r': 'real', 'x0': 'real'}, ['r > 0'],
           [SMONO, SRANGE, 'result[0] == 1 / (1 + rexp(-(X[0] - x0) / r))']),
        sq('logistic/base', 'logistic', {'r': 'real', 'x0': 'real', 'base': 'real'}, ['r > 0', 'base > 1'], [SMONO, SRANGE]),
        sq('gaussian/default', 'gaussian', {}, [], [SMONO, SRANGE]),
        sq('gaussian/r', 'gaussian', {'r': 'real'}, ['r > 0'], [SMONO, SRANGE, 'result[0] == 1 - rexp(-(X[0] * X[0]) / (r * r))']),
        sq('exponential/default', 'exponential', {}, [], [SMONO, SRANGE]),
        sq('exponential/r', 'exponential', {'r': 'real'}, ['r > 0'], [SMONO, SRANGE, 'result[0] == 1 - rexp(-X[0] / r)']),
        sq('logistic/keep_sign', 'logistic', {'r': 'real', 'x0': 'real', 'keep_sign': ('const', True)}, ['r > 0'], [SMONO]),
        # an explicit midpoint is documented as unsupported for these two methods: the result must not depend on it
        sq('gaussian/r,x0', 'gaussian', {'r': 'real', 'x0': 'real'}, ['r > 0'],
           [SMONO, SRANGE, 'result[0] == 1 - rexp(-(X[0] * X[0]) / (r * r))']),
        sq('exponential/r,x0', 'exponential', {'r': 'real', 'x0': 'real'}, ['r > 0'],
           [SMONO, SRANGE, 'result[0] == 1 - rexp(-X[0] / r)']),
        sq('gaussian/base', 'gaussian', {'r': 'real', 'x0': 'real', 'base': 'real'}, ['r > 0', 'base > 1'], [SMONO, SRANGE]),
        sq('exponential/base', 'exponential', {'r': 'real', 'x0': 'real', 'base': 'real'}, ['r > 0', 'base > 1'], [SMONO, SRANGE]),
        sq('logistic/base,keep_sign', 'logistic', {'r': 'real', 'x0': 'real', 'base': 'real', 'keep_sign': ('const', True)},
           ['r > 0', 'base > 1'], [SMONO, SRANGE]),
        sq('gaussian/base,keep_sign', 'gaussian', {'r': 'real', 'base': 'real', 'keep_sign': ('const', True)}, ['r > 0', 'base > 1'],
           [SMONO, SRANGE]),
        sq('exponential/base,keep_sign', 'exponential', {'r': 'real', 'base': 'real', 'keep_sign': ('const', True)}, ['r > 0', 'base > 1'],
           [SMONO, SRANGE]),
        sq('gaussian/keep_sign', 'gaussian', {'r': 'real', 'keep_sign': ('const', True)}, ['r > 0'], [SMONO]),
        sq('exponential/keep_sign', 'exponential', {'r': 'real', 'keep_sign': ('const', True)}, ['r > 0'], [SMONO]),
        sq('gaussian/quantile', 'gaussian', {'cover_quantile': 'real'}, ['0 < cover_quantile < 1', 'NpQuantile(X) > 0'], [SMONO, SRANGE]),
        sq('exponential/quantile', 'exponential', {'cover_quantile': 'real'}, ['0 < cover_quantile < 1', 'NpQuantile(X) > 0'],
           [SMONO, SRANGE]),
        sq('logistic/quantile', 'logistic', {'cover_quantile': 'real'},
           ['0 < cover_quantile < 1', 'cover_quantile != 0.5', 'NpMean(X) > 0'], [SMONO, SRANGE]),
        sq('logistic/report', 'logistic', {'return_params': ('const', True)}, ['NpMean(X) > 0'],
           ['result[1] > 0', 'result[0][0] == 1 / (1 + rexp(-(X[0] - result[2]) / result[1]))']),
        sq('gaussian/report', 'gaussian', {'return_params': ('const', True)}, [],
           ['result[1] > 0', 'result[0][0] == 1 - rexp(-(X[0] * X[0]) / (result[1] * result[1]))']),
        sq('exponential/report', 'exponential', {'return_params': ('const', True)}, [],
           ['result[1] > 0', 'result[0][0] == 1 - rexp(-X[0] / result[1])']),
    ],
    theories=('reals',),
    props=('C19',),
)
