"""Sidecar contracts: two sibling assignment steps of KMeans (clustering/kmeans.py; C16): the same selection logic as
_distance_with_params around the multivariate Python kernel and the univariate C kernel (the multivariate C sibling has the same text and is not separately proved).  Each kernel enters as an assumed *function*
of its arguments (its meaning is C01 / C02 / C11); what is proved is the selection: the first mean at the least distance."""
from dvc.contracts import contract, spec
import z3
from dvc.vals import Val, IntS
from specs.bounds import series_parts, AV
import contracts.dtw_matrix_py  # noqa: F401

# an uninterpreted "value the kernel returns" per kernel: a function of the two series' contents and lengths (options are the
# same object in every call of one assignment step, so they need not be arguments)
_K = {n: z3.Function('KVal_' + n, AV, IntS, AV, IntS, Val) for n in ('ndim_py', 'c', 'ndim_c')}


def _kval(which):
    def f(ex, st, s1, s2):
        a1, _ = series_parts(ex, st, s1)
        a2, _ = series_parts(ex, st, s2)
        from dvc.ops import zint
        return _K[which](a1, zint(ex.bi_len([s1], {}, None, st)), a2, zint(ex.bi_len([s2], {}, None, st)))
    return f


for _n in _K:
    spec('KVal_' + _n, z3=_kval(_n), doc='value returned by the kernel for a pair of series (options fixed)')

for fn, kernel, which, loopvar, coll in (
        ('_distance_ndim_with_params', 'dtw_ndim.distance', 'ndim_py', 'avg', 'avgs'),
        ('_distance_c_with_params', 'dtw_cc.distance', 'c', 'mean', 'means')):
    D = 'KVal_%s(t[0], t[1][{k}])' % which
    contract(
        kernel + '#kval',
        params={'s1': 'series', 's2': 'series', 'kwargs': {}},
        requires=['length(s1) >= 1', 'length(s2) >= 1'],
        ensures=['result == KVal_%s(s1, s2)' % which],
        returns='val',
        trusted=True,
        props=('C16',),
        note='assumed: the kernel is a function of the series contents (for fixed options) and leaves its arguments untouched',
    )
    contract(
        'clustering.kmeans.' + fn,
        params={'t': ('tuple', 'series', 'series_collection', {})},
        callee_views={kernel: kernel + '#kval'},
        requires=['length(t[0]) >= 1', 'forall(lambda k: implies(0 <= k < length(t[1]), length(t[1][k]) >= 1))'],
        ensures=[
            'forall(lambda k: implies(0 <= k < length(t[1]), not (%s < result[1])))' % D.format(k='k'),
            'implies(result[0] >= 0, result[0] < length(t[1]) and result[1] == %s)' % D.format(k='result[0]'),
            'implies(result[0] >= 0, forall(lambda k: implies(0 <= k < result[0], result[1] < %s)))' % D.format(k='k'),
            'implies(result[0] < 0, result[0] == -1 and result[1] == inf)',
        ],
        loops={
            0: dict(head='for (i, %s) in enumerate(%s)' % (loopvar, coll),
                    inv=['-1 <= min_i < __it0 or (min_i == -1 and __it0 == 0)', 'implies(min_i == -1, min_d == inf)',
                         'implies(min_i >= 0, min_d == %s)' % D.format(k='min_i'),
                         'forall(lambda k: implies(0 <= k < __it0, not (%s < min_d)))' % D.format(k='k'),
                         'implies(min_i >= 0, forall(lambda k: implies(0 <= k < min_i, min_d < %s)))' % D.format(k='k')],
                    variant='length(t[1]) - __it0'),
        },
        order_axioms=True,
        props=('C16',),
    )
