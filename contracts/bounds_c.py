"""Sidecar contracts: lb_keogh*, ub_euclidean* of dd_dtw.c (C09, C08, C20)."""
from dvc.contracts import contract
from contracts import gens
import specs.bounds  # noqa: F401

W = '(maxi(l1, l2) if settings.window == 0 else settings.window)'
REQ = ['l1 >= 1', 'l2 >= 1', 'l1 <= 2**40', 'l2 <= 2**40', 'off(s1) >= 0', 'off(s2) >= 0',
       'length(s1) - off(s1) >= l1', 'length(s2) - off(s2) >= l2', '0 <= settings.window <= 2**40',
       # finite data (quantifier of C09): no +-inf inside the second series
       'forall(lambda k: implies(0 <= k < l2, s2[k] != inf and s2[k] != vneginf()))']


def gen_lb(rng, n):
    for _ in range(n):
        l1, l2 = rng.randint(1, 5), rng.randint(1, 5)
        s = gens.settings(rng, plain=True)
        s['struct']['window'] = rng.choice([0, 1, 2, 3])
        s['struct']['inner_dist'] = rng.choice([0, 1])
        sign = rng.choice([1, 1, -1])
        yield dict(s1={'buf': [gens.fx(sign * abs(float.fromhex(x['f'])) if sign < 0 else float.fromhex(x['f'])) for x in gens.series(rng, l1)]},
                   l1=l1,
                   s2={'buf': [gens.fx(-abs(float.fromhex(x['f'])) - 1 if sign < 0 else float.fromhex(x['f'])) for x in gens.series(rng, l2)]},
                   l2=l2, settings=s)


def _lb(name, metric, result, requires_extra):
    contract(
        'dd_dtw.c::' + name,
        params={'s1': 'cptr:val', 'l1': 'int', 's2': 'cptr:val', 'l2': 'int', 'settings': ('cstruct', 'DTWSettings')},
        requires=REQ + requires_extra,
        ensures=['result == ' + result],
        loops={
            0: dict(head='for(;i < l1;)',
                    inv=['0 <= i <= l1', 'window == %s' % W,
                         'imin_diff == window - 1 + (l1 - l2 if l1 > l2 else 0)',
                         'imax_diff == window + (l2 - l1 if l2 > l1 else 0)',
                         't == LBsum(s1, l1, s2, l2, window, %d, i)' % metric],
                    variant='l1 - i'),
            1: dict(head='for(;j < imax;)',
                    inv=['imin <= j <= imax', 'imin == JSrow(i, l1, l2, window)', 'imax == JErow(i, l1, l2, window)',
                         'imin < imax',
                         'ui == (vneginf() if j == imin else WinMax(s2, imin, j))'],
                    variant='imax - j'),
            2: dict(head='for(;j < imax;)',
                    inv=['imin <= j <= imax', 'imin == JSrow(i, l1, l2, window)', 'imax == JErow(i, l1, l2, window)',
                         'imin < imax', 'ui == WinMax(s2, imin, imax)',
                         'li == (inf if j == imin else WinMin(s2, imin, j))'],
                    variant='imax - j'),
        },
        theories=('bounds',),
        order_axioms=True,
        replay=gen_lb,
        props=('C09', 'C08', 'C20'),
    )


_lb('lb_keogh', 0, '(vsqrt(LBsum(s1, l1, s2, l2, %s, 0, l1)) if settings.inner_dist != 1 else LBsum(s1, l1, s2, l2, %s, 1, l1))' % (W, W), [])
_lb('lb_keogh_euclidean', 1, 'LBsum(s1, l1, s2, l2, %s, 1, l1)' % W, [])

for nm, callee, nd in (('ub_euclidean', 'euclidean_distance', False), ('ub_euclidean_euclidean', 'euclidean_distance_euclidean', False),
                       ('ub_euclidean_ndim', 'euclidean_distance_ndim', True),
                       ('ub_euclidean_ndim_euclidean', 'euclidean_distance_ndim_euclidean', True)):
    from dvc.contracts import CONTRACTS
    import contracts.ed_c  # noqa: F401
    base = CONTRACTS['dd_ed.c::' + callee]
    contract('dd_dtw.c::' + nm, params=dict(base.params), requires=list(base.requires), ensures=list(base.ensures),
             theories=('bounds',), replay=base.replay, props=('C09', 'C08', 'C20'))
