"""Sidecar contract: the bound `use_pruning` hands to the Python engine (C03, C09).

DTWSettings.for_dtw(s1, s2, use_pruning=True, ...) must set the internal abandoning bound to inner_val of the Euclidean upper
bound computed with the same inner distance: ED**2 for the squared-Euclidean inner distance (whose internal representation is
squared), ED itself for the Euclidean one.  That this bound is valid (DTW <= ED, C09) and that abandoning at a valid bound does
not change the result (C03, dtw.distance#maxdist) are separate contracts; this one pins the value that connects them."""
from dvc.contracts import contract
import specs.bounds  # noqa: F401
import specs.dtw  # noqa: F401
import contracts.bounds_py  # noqa: F401

ED = 'EDsum(s1, length(s1), s2, length(s2), %d, maxi(length(s1), length(s2)))'

contract(
    'dtw.DTWSettings.for_dtw#pruning',
    params={'s1': 'series', 's2': 'series',
            'kwargs': {'window': 'opt:int', 'penalty': 'opt:val', 'max_step': 'opt:val', 'use_pruning': ('const', True),
                       'inner_dist': ('const', 'squared euclidean')}},
    cases=[dict(label='sq', params={'kwargs': {'window': 'opt:int', 'penalty': 'opt:val', 'max_step': 'opt:val',
                                               'use_pruning': ('const', True), 'inner_dist': ('const', 'squared euclidean')}},
                ensures=['result.adj_max_dist == MaxDistAdj(0, vsqrt(%s))' % (ED % 0)]),
           dict(label='eu', params={'kwargs': {'window': 'opt:int', 'penalty': 'opt:val', 'max_step': 'opt:val',
                                               'use_pruning': ('const', True), 'inner_dist': ('const', 'euclidean')}},
                ensures=['result.adj_max_dist == MaxDistAdj(1, %s)' % (ED % 1), 'result.adj_max_dist == %s' % (ED % 1)])],
    requires=['length(s1) >= 1', 'length(s2) >= 1', 'kwargs["window"] is None or kwargs["window"] >= 1'],
    ensures=['result.use_pruning == True',
             'result.window == (maxi(length(s1), length(s2)) if kwargs["window"] is None else kwargs["window"])'],
    theories=('bounds', 'dtw'),
    props=('C03', 'C09'),
)
