"""Sidecar contracts: the four C DTW kernels dtw_distance{,_ndim}{,_euclidean} (C02, C08, C20)."""
from dvc.contracts import contract
from contracts import gens
import specs.dtw  # noqa: F401
import specs.bounds  # noqa: F401

R, C = 'l1', 'l2'
LEN = 'mini(l2 + 1, ldiff + 2 * window + 1)'
SKIP = lambda i: '(0 if length == l2 + 1 else JSrow(%s, l1, l2, window))' % i     # noqa: E731
PREV_ROW = ('forall(lambda col: implies(JSrow({i} - 1, l1, l2, window) <= col <= l2 and 0 <= col - {skip} < length, '
            'dtw[{row} * length + col - {skip}] == W({i}, col)), pattern=W({i}, col))')
LEFT = ('implies(length == l2 + 1, forall(lambda col: implies(T1(col) and 0 <= col < JSrow({i} - 1, l1, l2, window), '
        'dtw[{row} * length + col] == inf), alt=(W({i}, col), T1(col))))')


def _rel_lines(name):
    """relative line numbers (from the function's first line) of the statements the ghost hints are
    attached to, located in the real source by their text"""
    import os
    from dvc.program import REPO, CDIR
    src = open(os.path.join(REPO, CDIR, 'dd_dtw.c')).read().split('\n')
    start = [k for k, l in enumerate(src) if l.startswith('seq_t %s(' % name)][0]
    out = {}
    for k in range(start, len(src)):
        t = src[k].strip()
        if t in ('j_idx = j * ndim;', 'd = SEDIST(s1[i], s2[j]);', 'd = fabs(s1[i] - s2[j]);') and 'cur' not in out:
            out['cur'] = k - start
        if t == 'ec = ec_next;' and 'ec' not in out:
            out['ec'] = k - start
        if k > start and src[k].startswith('}'):
            break
    return out


def kernel(name, metric, nd):
    settled = ['window == Wnd()', 'penalty == Pen()', 'max_step == MaxStep()', 'max_dist == inf',
               'ldiff == (l1 - l2 if l1 > l2 else l2 - l1)', 'dl == (l1 - l2 if l1 > l2 else 0)',
               'length == ' + LEN, 'nelems(dtw) == 2 * length', 'off(dtw) == 0', 'window >= 1',
               'dl_window == dl + window - 1', 'ldiff_window == window + (l2 - l1 if l2 > l1 else 0)',
               'sc == 0', '(i0 == 0 and i1 == 1) or (i0 == 1 and i1 == 0)', 'l1 >= 1', 'l2 >= 1']
    params = [('s1', 'cptr:val'), ('l1', 'int'), ('s2', 'cptr:val'), ('l2', 'int')]
    if nd:
        params.append(('ndim', 'int'))
        settled = settled + ['1 <= ndim <= 2**10']
    params.append(('settings', ('cstruct', 'DTWSettings')))
    rel = _rel_lines(name)
    end_loop = 6 if nd else 5
    loops = {
        0: dict(head='for(;j < length * 2;)',
                inv=['0 <= j <= 2 * length', 'forall(lambda k: implies(0 <= k < j, dtw[k] == inf))',
                     'nelems(dtw) == 2 * length', 'off(dtw) == 0', 'length == ' + LEN, 'window >= 1',
                     'ldiff == (l1 - l2 if l1 > l2 else l2 - l1)'],
                variant='2 * length - j'),
        1: dict(head='for(;i < settings.psi_2b + 1 and i < length;)',
                inv=['0 <= i <= length', 'i <= settings.psi_2b + 1',
                     'forall(lambda k: implies(0 <= k < 2 * length, dtw[k] == (0 if k < i else inf)))',
                     'nelems(dtw) == 2 * length', 'off(dtw) == 0', 'length == ' + LEN, 'window >= 1',
                     'ldiff == (l1 - l2 if l1 > l2 else l2 - l1)'],
                variant='length - i'),
        2: dict(head='for(;i < l1;)',
                inv=settled + ['0 <= i <= l1', 'skip == ' + SKIP('i - 1'),
                               'psi_shortest == PsiCol(settings.psi_1e, i)',
                               PREV_ROW.format(i='i', skip='skip', row='i1'), LEFT.format(i='i', row='i1')],
                variant='l1 - i'),
        3: dict(head='for(;j < length;)',
                inv=settled + ['0 <= i < l1', '0 <= j <= length', 'skipp == ' + SKIP('i - 1'),
                               'skip == JSrow(i, l1, l2, window)', 'maxj == JSrow(i, l1, l2, window)',
                               'minj == JErow(i, l1, l2, window)',
                               'psi_shortest == PsiCol(settings.psi_1e, i)',
                               PREV_ROW.format(i='i', skip='skipp', row='i0'), LEFT.format(i='i', row='i0'),
                               'forall(lambda k: implies(i1 * length <= k < i1 * length + j, dtw[k] == inf))']
                + (['i_idx == i * ndim'] if nd else []),
                variant='length - j'),
        4: dict(head='for(;j < minj;)',
                inv=settled + ['0 <= i < l1', 'skipp == ' + SKIP('i - 1'), 'skip == ' + SKIP('i'),
                               'maxj == JSrow(i, l1, l2, window)', 'minj == JErow(i, l1, l2, window)',
                               'maxj <= j <= minj',
                               'psi_shortest == PsiCol(settings.psi_1e, i)',
                               PREV_ROW.format(i='i', skip='skipp', row='i0'), LEFT.format(i='i', row='i0'),
                               'forall(lambda col: implies(JSrow(i, l1, l2, window) <= col <= l2 and 0 <= col - skip < length, '
                               'dtw[i1 * length + col - skip] == (W(i + 1, col) if col <= j else inf)), pattern=W(i + 1, col))',
                               LEFT.format(i='i + 1', row='i1')] + (['i_idx == i * ndim'] if nd else []),
                variant='minj - j'),
        end_loop: dict(head='for(;i < l2 - skip + 1;)',
                       inv=settled + ['skip == ' + SKIP('l1 - 1'), 'settings.psi_2e != 0',
                                      'maxi(0, l2 - skip - settings.psi_2e) <= i <= l2 - skip + 1',
                                      PREV_ROW.format(i='l1', skip='skip', row='i1'), LEFT.format(i='l1', row='i1'),
                                      'psi_shortest == (PsiCol(settings.psi_1e, l1) if i == maxi(0, l2 - skip - settings.psi_2e) else '
                                      'FoldMin(PsiCol(settings.psi_1e, l1), l1, maxi(skip, l2 - settings.psi_2e), i + skip))'],
                       variant='l2 - skip + 1 - i'),
    }
    if nd:
        loops[5] = dict(head='for(;d_i < ndim;)',
                        inv=['0 <= d_i <= ndim', 'd == InnerNd(s1, i_idx, s2, j_idx, d_i)', 'i_idx == i * ndim',
                             'j_idx == j * ndim', '0 <= i < l1', 'maxj <= j < minj', 'minj <= l2', 'maxj >= 0',
                             '1 <= ndim <= 2**10'],
                        variant='ndim - d_i')
    nds = 'ndim' if nd else '1'
    contract(
        'dd_dtw.c::' + name,
        params=dict(params),
        bind={'ctx': 'DTWctxC(s1, l1, s2, l2, settings, %d, %s)' % (metric, 'ndim' if nd else '0')},
        requires=['1 <= l1 <= 2**40', '1 <= l2 <= 2**40', 'off(s1) >= 0', 'off(s2) >= 0',
                  'length(s1) - off(s1) >= l1 * %s' % nds, 'length(s2) - off(s2) >= l2 * %s' % nds,
                  '0 <= settings.window <= 2**40', '0 <= settings.max_length_diff',
                  '0 <= settings.psi_1b <= l1', '0 <= settings.psi_1e <= l1',
                  '0 <= settings.psi_2b <= l2', '0 <= settings.psi_2e <= l2',
                  'not (settings.psi_2e == l2 and settings.psi_1b == l1)',
                  'not (settings.psi_1e == l1 and settings.psi_2b == l2)',
                  'settings.penalty >= 0',
                  # early abandoning is C03; the kernel variant is selected by inner_dist
                  'not settings.use_pruning', 'not settings.only_ub', 'settings.max_dist == 0',
                  'settings.inner_dist == %d' % metric] + (['1 <= ndim <= 2**10'] if nd else []),
        ensures=['implies(settings.max_length_diff != 0 and abs(l1 - l2) > settings.max_length_diff, result == inf)',
                 'implies(settings.max_length_diff == 0 or abs(l1 - l2) <= settings.max_length_diff, '
                 'result == vsqrt_if(%d, Dend(settings.psi_1e, settings.psi_2e)))' % metric],
        loops=loops,
        hints={rel['cur']: ['Mention(W(i, j)) and Mention(W(i, j + 1)) and Mention(W(i + 1, j)) and Mention(W(i + 1, j + 1))'],
               rel['ec']: ['Mention(W(i + 1, l2))']},
        theories=('dtw', 'bounds', 'floatzero'),
        lemmas=['RowAllInf', 'RowLeadInf', 'FoldMinIsMin'],
        order_axioms=True,
        replay=gens.gen_kernel(metric, nd),
        props=('C02', 'C08', 'C11', 'C20'),
    )


kernel('dtw_distance', 0, False)
kernel('dtw_distance_ndim', 0, True)
kernel('dtw_distance_euclidean', 1, False)
kernel('dtw_distance_ndim_euclidean', 1, True)


# ---------------------------------------------------------------------------------------------
# C03 on the C engine: the Euclidean kernel with an early-abandoning bound.  Same invariant as the Python
# dtw.distance#maxdist (contracts/dtw_py.py): every buffer cell agrees with W unless both are above the bound; the
# columns up to sc and beyond ec are above the bound in W.  (The squared kernel compares a square-rooted result
# with the user's bound in its final test -- the sqrt/square round trip the property excludes -- and stays bounded.)
M_ = 'max_dist'
AG_PREV = ('forall(lambda col: implies(JSrow({i} - 1, l1, l2, window) <= col <= l2 and 0 <= col - {skip} < length, '
           'Agree(%s, dtw[{row} * length + col - {skip}], W({i}, col))), pattern=W({i}, col))' % M_)
ABOVE_L = 'forall(lambda col: implies(1 <= col <= {sc} and col <= l2, %s < W({i}, col)), pattern=W({i}, col))' % M_
ABOVE_R = 'forall(lambda col: implies({ec} < col <= l2, %s < W({i}, col)), pattern=W({i}, col))' % M_


def _rel_lines_ea(name):
    import os
    from dvc.program import REPO, CDIR
    src = open(os.path.join(REPO, CDIR, 'dd_dtw.c')).read().split('\n')
    start = [k for k, l in enumerate(src) if l.startswith('seq_t %s(' % name)][0]
    want = {'cur': ('d = fabs(s1[i] - s2[j]);', 'd = SEDIST(s1[i], s2[j]);', 'if (d > max_step) {'), 'cont': ('continue;',), 'store': ('dtw[curidx] = d + minv;',),
            'ifnot': ('if (!smaller_found) {',), 'brk': ('break;',), 'sf': ('smaller_found = false;',), 'ec': ('ec = ec_next;',),
            'res': ('seq_t result = sqrt(dtw[length * i1 + l2 - skip]);', 'seq_t result = dtw[length * i1 + l2 - skip];')}
    out = {}
    for k in range(start, len(src)):
        t = src[k].strip()
        for key, texts in want.items():
            if t in texts and key not in out:
                out[key] = k - start
        if k > start and src[k].startswith('}'):
            break
    return out


def kernel_ea(name, metric, nd=False):
    settled = ['window == Wnd()', 'penalty == Pen()', 'max_step == MaxStep()',
               'ldiff == (l1 - l2 if l1 > l2 else l2 - l1)', 'dl == (l1 - l2 if l1 > l2 else 0)',
               'length == ' + LEN, 'nelems(dtw) == 2 * length', 'off(dtw) == 0', 'window >= 1',
               'dl_window == dl + window - 1', 'ldiff_window == window + (l2 - l1 if l2 > l1 else 0)',
               '(i0 == 0 and i1 == 1) or (i0 == 1 and i1 == 0)', 'l1 >= 1', 'l2 >= 1',
               '%s == MaxDistAdj(%d, settings.max_dist)' % (M_, metric), '%s < inf' % M_, 'not (%s < 0)' % M_, 'sc >= 0', 'ec >= 0',
               'psi_shortest == inf']
    params = [('s1', 'cptr:val'), ('l1', 'int'), ('s2', 'cptr:val'), ('l2', 'int')]
    if nd:
        params.append(('ndim', 'int'))
        settled = settled + ['1 <= ndim <= 2**10']
    params.append(('settings', ('cstruct', 'DTWSettings')))
    rel = _rel_lines_ea(name)
    JS, JE = 'JSrow(i, l1, l2, window)', 'JErow(i, l1, l2, window)'
    loops = {
        0: dict(head='for(;j < length * 2;)',
                inv=['0 <= j <= 2 * length', 'forall(lambda k: implies(0 <= k < j, dtw[k] == inf))',
                     'nelems(dtw) == 2 * length', 'off(dtw) == 0', 'length == ' + LEN, 'window >= 1',
                     'ldiff == (l1 - l2 if l1 > l2 else l2 - l1)'],
                variant='2 * length - j'),
        1: dict(head='for(;i < settings.psi_2b + 1 and i < length;)',
                inv=['0 <= i <= length', 'i <= settings.psi_2b + 1',
                     'forall(lambda k: implies(0 <= k < 2 * length, dtw[k] == (0 if k < i else inf)))',
                     'nelems(dtw) == 2 * length', 'off(dtw) == 0', 'length == ' + LEN, 'window >= 1',
                     'ldiff == (l1 - l2 if l1 > l2 else l2 - l1)'],
                variant='length - i'),
        2: dict(head='for(;i < l1;)',
                inv=settled + ['0 <= i <= l1', 'skip == ' + SKIP('i - 1'),
                               AG_PREV.format(i='i', skip='skip', row='i1'), LEFT.format(i='i', row='i1'),
                               'implies(i == 0, sc == 0 and ec == 0)',
                               ABOVE_L.format(sc='sc', i='i'), ABOVE_R.format(ec='ec', i='i')],
                variant='l1 - i'),
        3: dict(head='for(;j < length;)',
                inv=settled + ['0 <= i < l1', '0 <= j <= length', 'skipp == ' + SKIP('i - 1'),
                               'skip == ' + JS, 'maxj == ' + JS, 'minj == ' + JE,
                               AG_PREV.format(i='i', skip='skipp', row='i0'), LEFT.format(i='i', row='i0'),
                               'implies(i == 0, sc == 0 and ec == 0)',
                               ABOVE_L.format(sc='sc', i='i'), ABOVE_R.format(ec='ec', i='i'),
                               'forall(lambda k: implies(i1 * length <= k < i1 * length + j, dtw[k] == inf))']
                + (['i_idx == i * ndim'] if nd else []),
                variant='length - j'),
        4: dict(head='for(;j < minj;)',
                inv=settled + ['0 <= i < l1', 'skipp == ' + SKIP('i - 1'), 'skip == ' + SKIP('i'),
                               'maxj >= ' + JS, 'minj == ' + JE, 'maxj <= j',
                               AG_PREV.format(i='i', skip='skipp', row='i0'), LEFT.format(i='i', row='i0'),
                               ABOVE_R.format(ec='ec', i='i'),
                               'forall(lambda col: implies(%s <= col <= j and col <= l2 and 0 <= col - skip < length, '
                               'Agree(%s, dtw[i1 * length + col - skip], W(i + 1, col))), pattern=W(i + 1, col))' % (JS, M_),
                               'forall(lambda k: implies(i1 * length <= k < i1 * length + length and i1 * length + j - skip < k, dtw[k] == inf))',
                               LEFT.format(i='i + 1', row='i1'),
                               ABOVE_L.format(sc='sc', i='i + 1'),
                               'implies(not smaller_found, forall(lambda col: implies(1 <= col <= j, %s < W(i + 1, col)), pattern=W(i + 1, col)))' % M_,
                               'forall(lambda col: implies(ec_next < col <= j, %s < W(i + 1, col)), pattern=W(i + 1, col))' % M_,
                               'ec_next >= 0'] + (['i_idx == i * ndim'] if nd else []),
                variant='minj - j'),
    }
    if nd:
        loops[5] = dict(head='for(;d_i < ndim;)',
                        inv=['0 <= d_i <= ndim', 'd == InnerNd(s1, i_idx, s2, j_idx, d_i)', 'i_idx == i * ndim',
                             'j_idx == j * ndim', '0 <= i < l1', 'maxj <= j < minj', 'minj <= l2', 'maxj >= 0',
                             '1 <= ndim <= 2**10'],
                        variant='ndim - d_i')
    nds = 'ndim' if nd else '1'
    row_so_far = ('forall(lambda col: implies(%s <= col <= j + 1 and col <= l2 and 0 <= col - skip < length, '
                  'Agree(%s, dtw[i1 * length + col - skip], W(i + 1, col))), pattern=W(i + 1, col))' % (JS, M_))
    above_cell = '%s < W(i + 1, j + 1)' % M_
    contract(
        'dd_dtw.c::' + name + '#maxdist',
        params=dict(params),
        bind={'ctx': 'DTWctxC(s1, l1, s2, l2, settings, %d, %s)' % (metric, 'ndim' if nd else '0')},
        requires=['1 <= l1 <= 2**40', '1 <= l2 <= 2**40', 'off(s1) >= 0', 'off(s2) >= 0',
                  'length(s1) - off(s1) >= l1 * %s' % nds, 'length(s2) - off(s2) >= l2 * %s' % nds] + (['1 <= ndim <= 2**10'] if nd else []) + [
                  '0 <= settings.window <= 2**40', 'settings.max_length_diff == 0',
                  'settings.psi_1b == 0', 'settings.psi_1e == 0', 'settings.psi_2b == 0', 'settings.psi_2e == 0',
                  'settings.penalty >= 0', 'not settings.use_pruning', 'not settings.only_ub',
                  'settings.max_dist > 0', 'settings.max_dist < inf', 'MaxDistAdj(%d, settings.max_dist) < inf' % metric,
                  'settings.inner_dist == %d' % metric],
        ensures=([
                 'implies(Dend(0, 0) < MaxDistAdj(1, settings.max_dist), result == Dend(0, 0))',
                 'implies(MaxDistAdj(1, settings.max_dist) < Dend(0, 0), result == inf)',
                 'result == inf or result == Dend(0, 0)'] if metric == 1 else [
                 # as the property states it: the (square-rooted) distance is below the user's bound
                 'implies(vsqrt(Dend(0, 0)) < settings.max_dist, result == vsqrt(Dend(0, 0)))']),
        loops=loops,
        hints={rel['cur']: ['Mention(W(i, j)) and Mention(W(i, j + 1)) and Mention(W(i + 1, j)) and Mention(W(i + 1, j + 1))',
                            'Agree(%s, dtw[i0 * length + j - skipp], W(i, j))' % M_,
                            'Agree(%s, dtw[i0 * length + j + 1 - skipp], W(i, j + 1))' % M_,
                            'Agree(%s, dtw[i1 * length + j - skip], W(i + 1, j))' % M_],
               rel['sf']: ['%s < W(i + 1, 0)' % M_, 'implies(i >= 1, %s < W(i, 0))' % M_],
               rel['store']: ['AStep(%s, i + 1, j + 1, dtw[i0 * length + j - skipp], dtw[i0 * length + j + 1 - skipp], '
                              'dtw[i1 * length + j - skip])' % M_,
                              'Agree(%s, dtw[i1 * length + j + 1 - skip], W(i + 1, j + 1))' % M_, row_so_far],
               rel['ec']: ['Mention(W(i + 1, l2))'],
               # the square root of the squared bound is the bound (theory sqrtsq): links the internal test to the final one
               rel['res']: (['vsqrt(%s) == settings.max_dist' % M_] if metric == 0 else [])},
        theories=('dtw', 'bounds', 'floatzero', 'nonneg', 'astep', 'sqrtmono') + (('sqrtsq',) if metric == 0 else ()),
        lemmas=['CellAbove', 'RowAboveLeft', 'RowAboveRight', 'AgreeStep', 'RowAllInf', 'RowLeadInf'] + (['InnerNdNonneg'] if nd else []),
        order_axioms=True,
        replay=gens.gen_kernel_ea(metric, nd),
        props=('C03',),
    )
    from dvc.contracts import CONTRACTS
    CONTRACTS['dd_dtw.c::' + name + '#maxdist'].hints_before = {
        rel['cont']: [above_cell], rel['ifnot']: [above_cell],
        rel['brk']: [above_cell,
                     'forall(lambda col: implies(j + 1 <= col <= l2, %s < W(i + 1, col)), pattern=W(i + 1, col))' % M_,
                     row_so_far,
                     'forall(lambda k: implies(i1 * length <= k < i1 * length + length and i1 * length + j + 1 - skip < k, dtw[k] == inf))']}


kernel_ea('dtw_distance_euclidean', 1)
# the squared kernel: only the clause "below the bound -> the unbounded value" (its final test is on the square-rooted result;
# what it answers above the bound depends on the round trip within a rounding width of the bound)
kernel_ea('dtw_distance', 0)
kernel_ea('dtw_distance_ndim_euclidean', 1, True)
kernel_ea('dtw_distance_ndim', 0, True)
