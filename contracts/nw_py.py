"""Sidecar contract: dp.dp as needleman_wunsch calls it (C17)."""
from dvc.contracts import contract
import specs.dtw  # noqa: F401
import specs.bounds  # noqa: F401
import specs.nw  # noqa: F401

R, C = 'length(s1)', 'length(s2)'
L, U, D = '←', '↑', '↖'      # dp.Direction LEFT, UP, UP_LEFT

LEFTV = 'NWGap() + NWS({a}, {b} - 1) + 0'
ABOVEV = 'NWGap() + NWS({a} - 1, {b}) + 0'
DIAGV = 'NWSub({a} - 1, {b} - 1) + NWS({a} - 1, {b} - 1)'


def arrows(a, b, m):
    f = dict(a=a, b=b)
    return ('(("%s" in %s[%s, %s]) == (NWS(%s, %s) == %s)) and (("%s" in %s[%s, %s]) == (NWS(%s, %s) == %s)) and '
            '(("%s" in %s[%s, %s]) == (NWS(%s, %s) == %s))' % (
                L, m, a, b, a, b, LEFTV.format(**f), U, m, a, b, a, b, ABOVEV.format(**f), D, m, a, b, a, b, DIAGV.format(**f)))


SC_DONE = 'forall(lambda a, b: implies(0 <= a <= {upto} and 0 <= b <= %s, scores[a, b] == NWS(a, b)))' % C
SC_TODO = ('forall(lambda a, b: implies({frm} < a <= %s and 0 <= b <= %s, scores[a, b] == (NWS(a, 0) if b == 0 else inf)))' % (R, C))
PA_DONE = 'forall(lambda a, b: implies(1 <= a <= {upto} and 1 <= b <= %s and InBandNW(a - 1, b - 1), %s))' % (C, arrows('a', 'b', 'paths'))
def empty(x):
    return '(not ("%s" in %s) and not ("%s" in %s) and not ("%s" in %s))' % (L, x, U, x, D, x)


PA_TODO = 'forall(lambda a, b: implies({frm} < a <= %s and 0 <= b <= %s, %s))' % (R, C, empty('paths[a, b]'))
SETTLED = ['r == %s' % R, 'c == %s' % C, 'window == NWWnd()', 'penalty == 0', 'psi == 0', 'max_step == inf', 'max_dist == inf',
           'r >= 1', 'c >= 1', 'window >= 1']
JS = 'JSrow(i0, r, c, window)'
JE = 'JErow(i0, r, c, window)'

contract(
    'dp.dp',
    params={'s1': 'series', 's2': 'series', 'fn': ('funcref', 'alignment._default_substitution_fn'),
            'border': ('funcref', 'alignment._needleman_wunsch_border'), 'window': 'opt:int', 'max_dist': 'none',
            'max_step': 'none', 'max_length_diff': 'none', 'penalty': ('const', 0), 'psi': 'none'},
    cases=[dict(label='default', params={}, bind={'ctx': 'NWctx(s1, s2, window, 0)'}),
           dict(label='callback', params={'fn': ('specfn', 'NWSubstFn')}, bind={'ctx': 'NWctx(s1, s2, window, 1)'})],
    bind={},
    requires=['%s >= 1' % R, '%s >= 1' % C, 'window is None or window >= 1'],
    ensures=[
        'result[0] == NWS(%s, %s)' % (R, C),
        'forall(lambda a, b: implies(0 <= a <= %s and 0 <= b <= %s, result[1][a, b] == NWS(a, b)))' % (R, C),
        'forall(lambda a, b: implies(1 <= a <= %s and 1 <= b <= %s and InBandNW(a - 1, b - 1), %s))' % (R, C, arrows('a', 'b', 'result[2]')),
    ],
    loops={
        0: dict(head='for ci in range(c + 1)',
                inv=['r == %s' % R, 'c == %s' % C, 'window == NWWnd()', 'max_step == inf', 'max_dist == inf', 'penalty == 0', 'psi == 0',
                     'forall(lambda a, b: implies(0 <= a <= %s and 0 <= b <= %s, scores[a, b] == '
                     '(NWS(0, b) if (a == 0 and b < ci) else inf)))' % (R, C)],
                variant='c + 1 - ci'),
        1: dict(head='for ri in range(1, r + 1)',
                inv=['r == %s' % R, 'c == %s' % C, 'window == NWWnd()', 'max_step == inf', 'max_dist == inf', 'penalty == 0', 'psi == 0',
                     'forall(lambda a, b: implies(0 <= a <= %s and 0 <= b <= %s, scores[a, b] == '
                     '(NWS(a, b) if (a == 0 or (b == 0 and a < ri)) else inf)))' % (R, C)],
                variant='r + 1 - ri'),
        2: dict(head='for i in range(psi + 1)',
                inv=['r == %s' % R, 'c == %s' % C, 'window == NWWnd()', 'max_step == inf', 'max_dist == inf', 'penalty == 0', 'psi == 0',
                     'forall(lambda a, b: implies(0 <= a <= %s and 0 <= b <= %s, scores[a, b] == '
                     '(NWS(a, b) if (a == 0 or b == 0) else inf)))' % (R, C)],
                variant='psi + 1 - i'),
        3: dict(head='for i0 in range(r)',
                inv=SETTLED + ['i1 == i0', 'implies(i0 > 0, last_under_max_dist != -1)',
                               SC_DONE.format(upto='i0'), SC_TODO.format(frm='i0'), PA_DONE.format(upto='i0'), PA_TODO.format(frm='i0')],
                variant='r - i0'),
        4: dict(head='for j0 in range(max(0, i0 - max(0, r - c) - window + 1), min(c, i0 + max(0, c - r) + window))',
                inv=SETTLED + ['i1 == i0 + 1', '0 <= i0 < r',
                               'implies(j0 > %s, last_under_max_dist != -1)' % JS,
                               SC_DONE.format(upto='i0'), SC_TODO.format(frm='i0 + 1'), PA_DONE.format(upto='i0'), PA_TODO.format(frm='i0 + 1'),
                               'forall(lambda b: implies(j0 < b <= %s, %s))' % (C, empty('paths[i0 + 1, b]')),
                               'forall(lambda b: implies(0 <= b <= %s, scores[i0 + 1, b] == (NWS(i0 + 1, b) if (b <= j0 or b == 0) else inf)))' % C,
                               'forall(lambda b: implies(1 <= b <= j0 and InBandNW(i0, b - 1), %s))' % arrows('i0 + 1', 'b', 'paths')],
                variant='%s - j0' % JE),
    },
    theories=('nw', 'bounds', 'cset', 'floatzero', 'floatone'),
    order_axioms=True,
    props=('C17',),
)
