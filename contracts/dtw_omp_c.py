"""Sidecar contracts: dd_dtw_openmp.c (C07, C06, C08, C20).

Each *_parallel routine gets literally the postcondition of its serial twin (so "parallel == serial"
is not a separate claim but the same contract), proved for the sequential semantics of the loop; the
step from sequential to every OpenMP schedule is the data-race-freedom obligations generated for the
`#pragma omp parallel for` (dvc/omp.py): privatisation, pairwise disjoint writes, no cross-iteration
reads, re-entrant callee -- plus assumption A3 on the OpenMP runtime."""
from dvc.contracts import contract, CONTRACTS
from contracts import gens
from contracts.dtw_matrix_c import SETTINGS_OK, LAYOUT_LEMMAS
import specs.layout  # noqa: F401
import specs.dtwspec  # noqa: F401

E = 'EffBlock(block, nb_series_r, nb_series_c)'
BLOCKFIX = ('block.rb == E["rb"] and block.cb == E["cb"] and block.re == E["re"] and block.ce == E["ce"] '
            'and block.triu == E["triu"]')
TABLES = ('forall(lambda k: implies(0 <= k < {n}, {cbs}[k] == CBrow(E, 0, block.rb + k) and '
          '(block.rb + k > block.ce or {rls}[k] == LenRowsTo(E, 0, block.rb + k))))')

contract(
    'dd_dtw_openmp.c::dtw_distances_prepare',
    params={'block': ('cstruct', 'DTWBlock'), 'nb_series_r': 'int', 'nb_series_c': 'int',
            'cbs': 'cbox:ptr', 'rls': 'cbox:ptr', 'length': 'cbox:int', 'settings': ('cstruct', 'DTWSettings')},
    bind={'E': E},
    requires=['1 <= nb_series_r <= 2**31', '1 <= nb_series_c <= 2**31',
              'DecodableBlock(block, nb_series_r, nb_series_c)'],
    ensures=['result == 0', 'length[0] == Len(E, 0)', BLOCKFIX,
             'implies(block.triu, nelems(cbs[0]) == block.re - block.rb and nelems(rls[0]) == block.re - block.rb '
             'and off(cbs[0]) == 0 and off(rls[0]) == 0)',
             'implies(block.triu, ' + TABLES.format(n='block.re - block.rb', cbs='cbs[0]', rls='rls[0]') + ')',
             'implies(not block.triu, cbs[0] is None and rls[0] is None)'],
    assigns=['cbs', 'rls', 'length', 'block.re', 'block.ce'],
    allocates={'cbs': ('cptr:int', 'block.triu'), 'rls': ('cptr:int', 'block.triu')},
    loops={0: dict(head='for(;r < block.re;)',
                   inv=[BLOCKFIX, 'block.triu', 'ir == r - block.rb', 'block.rb <= r <= block.re',
                        'nelems(cbs[0]) == block.re - block.rb and nelems(rls[0]) == block.re - block.rb',
                        'off(cbs[0]) == 0 and off(rls[0]) == 0',
                        'length[0] == Len(E, 0)',
                        'r > block.ce or rs == LenRowsTo(E, 0, r)', '-(ir * 2**32) <= rs <= ir * 2**32',
                        TABLES.format(n='ir', cbs='cbs[0]', rls='rls[0]')],
                   variant='block.re - r')},
    returns='int',
    theories=('layout',),
    lemmas=LAYOUT_LEMMAS,
    props=('C07', 'C08', 'C20'),
)


def _parallel(name, kind, nd):
    serial = CONTRACTS['dd_dtw.c::' + name]
    nr, nc = {'ptrs': ('nb_ptrs', 'nb_ptrs'), 'matrix': ('nb_rows', 'nb_rows'),
              'matrices': ('nb_rows_r', 'nb_rows_c')}[kind]
    pairs = [e for e in serial.ensures if e.startswith('forall(lambda r2, c2')][0]
    body = pairs[len('forall(lambda r2, c2: implies(T2(r2, c2) and Sel(E, 0, r2, c2) and True, '):-2]
    pairs_t = 'forall(lambda r2, c2: implies(T2(r2, c2) and Sel(E, 0, r2, c2) and {cond}, ' + body + '))'
    done = ('forall(lambda k: implies(k < 0 or k >= Len(E, 0), output[k] == old(output[k])))')
    tab = 'implies(block.triu, ' + TABLES.format(n='block.re - block.rb', cbs='cbs', rls='rls') + ')'
    shape = ('implies(block.triu, length(cbs) == block.re - block.rb and length(rls) == block.re - block.rb '
             'and off(cbs) == 0 and off(rls) == 0)')
    contract(
        'dd_dtw_openmp.c::' + name + '_parallel',
        params=dict(serial.params),
        bind=dict(serial.bind),
        requires=list(serial.requires),
        ensures=list(serial.ensures),
        assigns=list(serial.assigns),
        loops={
            0: dict(head='for(;r_i < block.re - block.rb;)',
                    inv=[BLOCKFIX, '0 <= r_i <= block.re - block.rb', 'block.rb < block.re', 'length == Len(E, 0)',
                         shape, tab, pairs_t.format(cond='r2 < block.rb + r_i'), done],
                    variant='block.re - block.rb - r_i'),
            1: dict(head='for(;c < block.ce;)',
                    inv=[BLOCKFIX, '0 <= r_i < block.re - block.rb', 'r == block.rb + r_i', 'length == Len(E, 0)',
                         shape, tab, 'c >= CBrow(E, 0, r)', 'c_i == c - CBrow(E, 0, r)',
                         pairs_t.format(cond='(r2 < r or (r2 == r and c2 < c))'), done],
                    variant='block.ce - c + 1 + (CBrow(E, 0, r) - c if c < CBrow(E, 0, r) else 0)'),
        },
        returns='int',
        replay=gens.gen_distances(kind, nd),
        callee_views={'dd_dtw.c::dtw_distance': 'dd_dtw.c::dtw_distance#value',
                      'dd_dtw.c::dtw_distance_ndim': 'dd_dtw.c::dtw_distance_ndim#value'},
        theories=('layout',),
        lemmas=LAYOUT_LEMMAS,
        props=('C07', 'C06', 'C08', 'C20'),
    )


_parallel('dtw_distances_ptrs', 'ptrs', False)
_parallel('dtw_distances_ndim_ptrs', 'ptrs', True)
_parallel('dtw_distances_matrix', 'matrix', False)
_parallel('dtw_distances_ndim_matrix', 'matrix', True)
_parallel('dtw_distances_matrices', 'matrices', False)
_parallel('dtw_distances_ndim_matrices', 'matrices', True)
