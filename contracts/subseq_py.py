"""Sidecar contract: subsequence.subsequencealignment.subsequence_alignment (pure Python; C13)."""
from dvc.contracts import contract
import contracts.dtw_py  # noqa: F401
import specs.dtw  # noqa: F401

Q, S = 'length(query)', 'length(series)'
# the alignment problem the class sets up: psi = [0, 0, len(series), len(series)], squared-Euclidean inner distance
CTX = 'DTWctx(query, series, None, penalty, None, 0, %s, 0, 0)' % S

contract(
    'subsequence.subsequencealignment.subsequence_alignment',
    params={'query': 'series', 'series': 'series', 'penalty': 'val', 'use_c': ('const', False)},
    bind={'ctx': CTX},
    callee_views={'dtw.warping_paths': 'dtw.warping_paths#endpsi'},
    requires=['%s >= 1' % Q, '%s >= 1' % S, 'penalty >= 0'],
    ensures=[
        # matching[e] * len(query) is the square root of the accumulated cost of the best alignment of the whole query that
        # ends at series[e] and may start anywhere (W with free start along the series, row len(query))
        'length(result.matching) == %s' % S,
        'forall(lambda e: implies(0 <= e < %s, result.matching[e] == vsqrt(W(%s, e + 1)) / %s))' % (S, Q, Q),
    ],
    theories=('dtw', 'bounds'),
    order_axioms=True,
    props=('C13',),
)
