"""Sidecar contract: dtw.warping_paths_affinity (pure Python; C18)."""
from dvc.contracts import contract
import specs.dtw  # noqa: F401
import specs.bounds  # noqa: F401
import specs.affinity  # noqa: F401

R, C = 'length(s1)', 'length(s2)'
P1B = '(0 if psi is None else (psi[0] if type(psi) is tuple else psi))'
P2B = '(0 if psi is None else (psi[2] if type(psi) is tuple else psi))'
P1E = '(0 if psi is None else (psi[1] if type(psi) is tuple else psi))'
P2E = '(0 if psi is None else (psi[3] if type(psi) is tuple else psi))'
CTX = 'AFFctx(s1, s2, window, penalty, gamma, tau, delta, delta_factor, %s, %s, only_triu)' % (P1B, P2B)

BORDER = '(0 if ((a == 0 and b <= psi_2b) or (b == 0 and a <= psi_1b)) else vneginf())'
ROWS_DONE = ('forall(lambda a, b: implies(0 <= a <= {upto} and 0 <= b <= %s, dtw[a, b] == A(a, b)))' % C)
ROWS_TODO = ('forall(lambda a, b: implies({frm} < a <= %s and 0 <= b <= %s, '
             'dtw[a, b] == (0 if (b == 0 and a <= psi_1b) else vneginf())))' % (R, C))
SETTLED = ['s.window == AWnd()', 'psi_1b == %s' % P1B, 'psi_2b == %s' % P2B, 'psi_1e == %s' % P1E, 'psi_2e == %s' % P2E,
           'r == %s' % R, 'c == %s' % C]
JSTART = '(maxi(i, JSrow(i, r, c, s.window)) if only_triu else JSrow(i, r, c, s.window))'


def cases():
    out = []
    for pl, psi in (('nopsi', 'none'), ('psi', 'nat'), ('psi4', ('tuple', 'nat', 'nat', 'nat', 'nat'))):
        out.append(dict(label=pl, params={'psi': psi}, psi=pl))
    return out


contract(
    'dtw.warping_paths_affinity',
    params={'s1': 'series', 's2': 'series', 'window': 'opt:int', 'only_triu': 'bool', 'penalty': 'opt:val',
            'psi': 'none', 'psi_neg': 'bool', 'gamma': 'val', 'tau': 'val', 'delta': 'val', 'delta_factor': 'val',
            'use_c': ('const', False)},
    cases=cases(),
    bind={'ctx': CTX},
    requires=['%s >= 1' % R, '%s >= 1' % C, 'window is None or window >= 1',
              # end-of-series psi: not under contract (stage b)
              '%s == 0' % P1E, '%s == 0' % P2E, '%s <= %s' % (P1B, R), '%s <= %s' % (P2B, C)],
    ensures=[
        'result[0] == A(%s, %s)' % (R, C),
        'forall(lambda a, b: implies(0 <= a <= %s and 0 <= b <= %s, result[1][a, b] == A(a, b)))' % (R, C),
    ],
    loops={
        0: dict(head='for i in range(psi_2b + 1)',
                inv=['forall(lambda a, b: implies(0 <= a <= %s and 0 <= b <= %s, '
                     'dtw[a, b] == (0 if (a == 0 and b < i) else vneginf())))' % (R, C),
                     'psi_2b == %s' % P2B, 'psi_1b == %s' % P1B, 'r == %s' % R, 'c == %s' % C],
                variant='psi_2b + 1 - i'),
        1: dict(head='for i in range(psi_1b + 1)',
                inv=['forall(lambda a, b: implies(0 <= a <= %s and 0 <= b <= %s, '
                     'dtw[a, b] == (0 if ((a == 0 and b <= psi_2b) or (b == 0 and a < i)) else vneginf())))' % (R, C),
                     'psi_2b == %s' % P2B, 'psi_1b == %s' % P1B, 'r == %s' % R, 'c == %s' % C],
                variant='psi_1b + 1 - i'),
        2: dict(head='for i in range(r)',
                inv=SETTLED + ['i1 == i', ROWS_DONE.format(upto='i'), ROWS_TODO.format(frm='i')],
                variant='r - i'),
        3: dict(head='for j in range(j_start, j_end)',
                inv=SETTLED + ['i0 == i', 'i1 == i + 1', '0 <= i < r',
                               'j_start == ' + JSTART, 'j_end == JErow(i, r, c, s.window)',
                               ROWS_DONE.format(upto='i'), ROWS_TODO.format(frm='i + 1'),
                               'forall(lambda b: implies(0 <= b <= %s, dtw[i + 1, b] == (A(i + 1, b) if b <= j else '
                               '(0 if (b == 0 and i + 1 <= psi_1b) else vneginf()))))' % C],
                variant='j_end - j'),
    },
    theories=('affinity', 'bounds'),
    order_axioms=True,
    props=('C18', 'C20'),
)
