"""Sidecar contracts: the small exported constructors / setters of dd_dtw.c (C08, C02): dtw_settings_default,
dtw_settings_set_psi, dtw_block_empty.  Their values are what the Cython layer starts from (`None -> 0 -> off`)."""
from dvc.contracts import contract


def gen_void(rng, n):
    for _ in range(min(n, 3)):
        yield {}


def gen_psi(rng, n):
    from contracts import gens
    for _ in range(n):
        yield dict(psi=rng.randint(0, 9), settings=gens.settings(rng))


contract(
    'dd_dtw.c::dtw_settings_default',
    params={},
    requires=[],
    ensures=['result.window == 0', 'result.max_dist == 0', 'result.max_step == 0', 'result.max_length_diff == 0',
             'result.penalty == 0', 'result.psi_1b == 0', 'result.psi_1e == 0', 'result.psi_2b == 0', 'result.psi_2e == 0',
             'result.use_pruning == False', 'result.only_ub == False', 'result.inner_dist == 0', 'result.window_type == 0'],
    returns=('cstruct', 'DTWSettings'),
    replay=gen_void,
    props=('C08', 'C02'),
)

contract(
    'dd_dtw.c::dtw_block_empty',
    params={},
    requires=[],
    ensures=['result.rb == 0', 'result.re == 0', 'result.cb == 0', 'result.ce == 0', 'result.triu == True'],
    returns=('cstruct', 'DTWBlock'),
    replay=gen_void,
    props=('C08', 'C06'),
)

contract(
    'dd_dtw.c::dtw_settings_set_psi',
    params={'psi': 'int', 'settings': ('cstruct', 'DTWSettings')},
    requires=[],
    ensures=['settings.psi_1b == psi', 'settings.psi_1e == psi', 'settings.psi_2b == psi', 'settings.psi_2e == psi',
             'settings.window == old(settings.window)', 'settings.penalty == old(settings.penalty)',
             'settings.max_dist == old(settings.max_dist)', 'settings.max_step == old(settings.max_step)',
             'settings.max_length_diff == old(settings.max_length_diff)', 'settings.inner_dist == old(settings.inner_dist)',
             'settings.use_pruning == old(settings.use_pruning)', 'settings.only_ub == old(settings.only_ub)'],
    assigns=['settings.psi_1b', 'settings.psi_1e', 'settings.psi_2b', 'settings.psi_2e'],
    replay=gen_psi,
    props=('C08', 'C02'),
)
