"""Sidecar contract: the multiprocessing branches of dtw.distance_matrix (C07, C06).

Pool.map is order-preserving (A3: result[k] == fn(iterable[k]), every item exactly once); any other way of collecting
results (imap_unordered, apply_async callbacks) is modelled only as far as its documentation promises."""
from dvc.contracts import contract
import specs.layout  # noqa: F401
import specs.dtwspec  # noqa: F401
import contracts.dtw_matrix_py as M

KW = {'window': 'opt:int', 'penalty': 'opt:val', 'max_step': 'opt:val', 'max_length_diff': 'opt:int', 'psi': 'opt:int',
      'inner_dist': ('const', 'squared euclidean')}

contract(
    'dtw.distance_matrix#mp',
    params={'s': 'series_collection', 'block': 'none', 'compact': ('const', True), 'parallel': ('const', True),
            'use_mp': 'bool', 'show_progress': 'bool', 'only_triu': ('const', False), 'kwargs': KW},
    cases=[dict(label=c['label'], params=dict(c['params'])) for c in M.BLOCK_CASES],
    bind={'block0': 'block', 'kw': 'DTWSettings(**kwargs).kwargs()'},
    callee_views={'dtw.distance': 'dtw.distance#value'},
    requires=['ValidBlock(block, length(s))', '1 <= length(s) <= 2**26',
              'forall(lambda k: implies(0 <= k < length(s), length(s[k]) >= 1))',
              'kwargs["window"] is None or kwargs["window"] >= 1', 'kwargs["penalty"] is None or kwargs["penalty"] >= 0',
              'kwargs["max_step"] is None or kwargs["max_step"] >= 0',
              'kwargs["max_length_diff"] is None or kwargs["max_length_diff"] >= 0',
              'kwargs["psi"] is None or kwargs["psi"] >= 0'],
    ensures=['length(result) == Len(block0, length(s))',
             'forall(lambda r2, c2: implies(T2(r2, c2) and Sel(block0, length(s), r2, c2), '
             'result[Rank(block0, length(s), r2, c2)] == DTWP(s[r2], s[c2], False, kw)))'],
    theories=('layout',),
    lemmas=['LenFullClosed', 'LenRectClosed', 'RowsBefore', 'LenRowsNonneg'],
    props=('C07', 'C06'),
)
