"""Sidecar contracts: the compact warping-paths layout helpers of dd_dtw.c (C08, C04, C18, C20):
dtw_wps_parts, dtw_settings_wps_length / _width, dtw_wps_loc, dtw_wps_negativize_value / _positivize_value.

The layout (DESIGN 3.5), in matrix coordinates: matrix row R >= 1 (series row ri = R - 1) stores matrix column c at
    loc(R, c) = R * width + c - shift(R),
shift(R) = 0 for R <= ri2 (regions A, B), R - ri2 for ri2 < R <= ri3 (region C), ri3 - ri2 for R > ri3 (region D).
The postconditions tie the layout to the property's band (specs/dtw.py `band`, written from the documentation of
DTWSettings.window): every in-band cell has a location, every location lies inside its own row of the buffer of the
advertised size (so distinct cells have distinct locations and no access leaves the buffer)."""
from dvc.contracts import contract
import specs.bounds  # noqa: F401
import specs.dtw  # noqa: F401
from dvc.contracts import spec
from dvc.vals import vmul, vlit

spec('vsq', z3=lambda ex, st, x: vmul(vlit(x), vlit(x)), py=lambda ex, st, x: x * x, doc='x * x (rounded)')

MAXL = '2**30'     # (l1 + 1) * width must fit idx_t: the advertised buffer of (l1+1)*width doubles exists (A2)


def parts_facts(p, l1='l1', l2='l2'):
    """DTWWps fields as functions of (l1, l2, effective window p.window): the functional contract of dtw_wps_parts."""
    P = p
    olr = 'mini({P}.window + {P}.ldiffr, {l1} + 1)'
    orr = '(maxi({l1} + 1 - {P}.window - {P}.ldiffr, 0) if {P}.window + {P}.ldiffr <= {l1} else 0)'
    fs = ['1 <= {P}.window <= maxi({l1}, {l2})',
          '{P}.ldiff == ({l1} - {l2} if {l1} > {l2} else {l2} - {l1})',
          '{P}.ldiffr == ({l1} - {l2} if {l1} > {l2} else 0)',
          '{P}.ldiffc == (0 if {l1} > {l2} else {l2} - {l1})',
          '{P}.width == mini({l2} + 1, {P}.ldiff + 2 * {P}.window + 1)',
          '{P}.length == ({l1} + 1) * {P}.width',
          '{P}.overlap_left_ri == ' + olr,
          '{P}.overlap_right_ri == ' + orr,
          '{P}.ri1 == mini({l1}, mini({P}.overlap_left_ri, {P}.overlap_right_ri))',
          '{P}.ri2 == mini({l1}, {P}.overlap_left_ri)',
          '{P}.ri3 == mini({l1}, maxi({P}.overlap_left_ri, {P}.overlap_right_ri))']
    return [f.format(P=P, l1=l1, l2=l2) for f in fs]



def gen_parts(rng, n):
    from contracts import gens
    for _ in range(n):
        st = gens.settings(rng, maxlen=6)
        st['struct']['window'] = rng.choice([0, 1, 1, 2, 2, 3, 4, 7])
        yield dict(l1=rng.randint(1, 7), l2=rng.randint(1, 7), settings=st)


def py_parts(l1, l2, w0):
    """the DTWWps integer fields as the contract states them (brute-force twin used to build concrete inputs)"""
    w = max(l1, l2) if w0 == 0 else min(w0, max(l1, l2))
    ldiff, ldiffr, ldiffc = abs(l1 - l2), max(l1 - l2, 0), max(l2 - l1, 0)
    width = min(l2 + 1, ldiff + 2 * w + 1)
    olr = min(w + ldiffr, l1 + 1)
    orr = max(l1 + 1 - w - ldiffr, 0) if w + ldiffr <= l1 else 0
    return dict(ldiff=ldiff, ldiffr=ldiffr, ldiffc=ldiffc, window=w, width=width, length=(l1 + 1) * width,
                ri1=min(l1, min(olr, orr)), ri2=min(l1, olr), ri3=min(l1, max(olr, orr)), overlap_left_ri=olr,
                overlap_right_ri=orr, max_step={'f': float('inf').hex()}, max_dist={'f': float('inf').hex()},
                penalty={'f': float(0).hex()})


def gen_loc(rng, n):
    for _ in range(n):
        l1, l2 = rng.randint(1, 7), rng.randint(1, 7)
        yield dict(p={'struct': py_parts(l1, l2, rng.choice([0, 1, 1, 2, 2, 3, 4, 7]))}, r=rng.randint(0, l1), c=rng.randint(0, l2),
                   l1=l1, l2=l2)


EFFW = '(maxi(l1, l2) if settings.window == 0 else mini(settings.window, maxi(l1, l2)))'
SIZES = ['1 <= l1 <= ' + MAXL, '1 <= l2 <= ' + MAXL]

contract(
    'dd_dtw.c::dtw_wps_parts',
    params={'l1': 'int', 'l2': 'int', 'settings': ('cstruct', 'DTWSettings')},
    requires=SIZES + ['0 <= settings.window <= ' + MAXL],
    ensures=parts_facts('result') + [
        'result.window == ' + EFFW,
        # the advertised buffer: one row of `width` cells per matrix row, and never wider than the full matrix
        '1 <= result.width <= l2 + 1', '0 <= result.ri1 <= result.ri2 <= result.ri3 <= l1',
        'result.penalty == (vsq(settings.penalty) if settings.inner_dist == 0 else settings.penalty)',
        'result.max_step == (inf if settings.max_step == 0 else (vsq(settings.max_step) '
        'if settings.inner_dist == 0 else settings.max_step))',
        'result.max_dist == (inf if settings.max_dist == 0 else (vsq(settings.max_dist) '
        'if settings.inner_dist == 0 else settings.max_dist))'],
    returns=('cstruct', 'DTWWps'),
    replay=gen_parts,
    theories=('bounds',),
    props=('C08', 'C04', 'C20'),
)

for nm, fld in (('dtw_settings_wps_length', 'length'), ('dtw_settings_wps_width', 'width')):
    contract(
        'dd_dtw.c::' + nm,
        params={'l1': 'int', 'l2': 'int', 'settings': ('cstruct', 'DTWSettings')},
        requires=SIZES + ['0 <= settings.window <= ' + MAXL],
        ensures=['result == ' + {'length': '(l1 + 1) * mini(l2 + 1, (l1 - l2 if l1 > l2 else l2 - l1) + 2 * %s + 1)' % EFFW,
                                 'width': 'mini(l2 + 1, (l1 - l2 if l1 > l2 else l2 - l1) + 2 * %s + 1)' % EFFW}[fld],
                 'result >= 1'],
        returns='int',
        replay=gen_parts,
        theories=('bounds',),
        props=('C08', 'C04', 'C20'),
    )

# ---------------------------------------------------------------------------------------------
# dtw_wps_loc: columns stored for matrix row R, per region (read off the four loop nests) ...
SHIFT = '(0 if r <= p.ri2 else (r - p.ri2 if r <= p.ri3 else p.ri3 - p.ri2))'
MINC = ('(0 if r <= p.ri2 else (r - p.ri2 if (r <= p.ri3 or p.ri2 != p.ri3) else '
        'maxi(0, p.ri3 + 1 - p.window - p.ldiff) + (r - p.ri3 - 1)))')
MAXC = ('(p.window + p.ldiffc + r if r <= p.ri1 else (l2 + 1 if r <= p.ri2 else '
        '(2 * p.window + p.ldiff + r - p.ri2 if r <= p.ri3 else l2 + 1)))')
EXISTS = '(1 <= r <= l1 and %s <= c < %s)' % (MINC, MAXC)
LOC = '(r * p.width + c - %s)' % SHIFT
PF = parts_facts('p')
COMMON = PF + SIZES + ['0 <= r <= l1', '0 <= c <= l2']


def _outer(head, lo, hi, extra):
    return dict(head=head, inv=COMMON + ['%s <= ri <= %s' % (lo, hi), 'ri_width == ri * p.width', 'implies(%s <= r < ri, not %s)' % (lo, EXISTS)] + extra,
                variant='%s - ri' % hi)


def _inner(lo, hi, wpsi, extra):
    return dict(head='for(;ci < max_ci;)',
                inv=COMMON + ['%s <= ri < %s' % (lo, hi), 'ri_width == ri * p.width', 'min_ci <= ci', 'ci <= max_ci or ci == min_ci',
                              'wpsi == ' + wpsi, 'implies(ri == r, c >= ci)'] + extra,
                variant='max_ci - ci')


A = ['min_ci == 0', 'max_ci == p.window + p.ldiffc + ri']
B = ['min_ci == 0', 'max_ci == l2 + 1']
C = ['min_ci == ri - p.ri2', 'max_ci == 2 * p.window + p.ldiff + ri - p.ri2']
D = ['max_ci == l2 + 1',
     'min_ci == (ri - p.ri2 if p.ri2 != p.ri3 else maxi(0, p.ri3 + 1 - p.window - p.ldiff) + (ri - p.ri3 - 1))',
     'wpsi_start - 1 - min_ci == (p.ri2 - p.ri3)']

contract(
    'dd_dtw.c::dtw_wps_loc',
    params={'p': ('cstruct', 'DTWWps'), 'r': 'int', 'c': 'int', 'l1': 'int', 'l2': 'int'},
    requires=COMMON,
    ensures=['result == (%s if %s else 0)' % (LOC, EXISTS),
             # property side: every cell of the band (and the border column next to it) has a location ...
             'implies(1 <= r and 1 <= c and JSrow(r - 1, l1, l2, p.window) <= c - 1 < JErow(r - 1, l1, l2, p.window), %s)' % EXISTS,
             # ... inside its own row of the buffer of the advertised size: distinct cells, distinct locations, no overflow
             'implies(%s, r * p.width <= result < (r + 1) * p.width and result < p.length and result >= 1)' % EXISTS],
    loops={
        0: _outer('for(;ri < p.ri1 + 1;)', '1', 'p.ri1 + 1', A),
        1: _inner('1', 'p.ri1 + 1', 'ci - min_ci', A),
        2: _outer('for(;ri < p.ri2 + 1;)', 'p.ri1 + 1', 'p.ri2 + 1', B + ['implies(1 <= r < ri, not %s)' % EXISTS]),
        3: _inner('p.ri1 + 1', 'p.ri2 + 1', 'ci - min_ci', B + ['implies(1 <= r < ri, not %s)' % EXISTS]),
        4: _outer('for(;ri < p.ri3 + 1;)', 'p.ri2 + 1', 'p.ri3 + 1', C + ['implies(1 <= r < ri, not %s)' % EXISTS]),
        5: _inner('p.ri2 + 1', 'p.ri3 + 1', 'ci - min_ci', C + ['implies(1 <= r < ri, not %s)' % EXISTS]),
        6: _outer('for(;ri < l1 + 1;)', 'p.ri3 + 1', 'l1 + 1', D + ['implies(1 <= r < ri, not %s)' % EXISTS]),
        7: _inner('p.ri3 + 1', 'l1 + 1', 'wpsi_start - 1 + ci - min_ci', D + ['implies(1 <= r < ri, not %s)' % EXISTS]),
    },
    returns='int',
    replay=gen_loc,
    theories=('bounds', 'dtw'),
    props=('C08', 'C04', 'C18', 'C20'),
)


# ---------------------------------------------------------------------------------------------
# dtw_wps_negativize_value / dtw_wps_positivize_value: exactly the addressed cell changes sign (when it is a
# finite positive / negative value), nothing else in the buffer changes, and the access is inside the buffer.
def gen_negval(rng, n):
    from contracts import gens
    for _ in range(n):
        l1, l2 = rng.randint(1, 6), rng.randint(1, 6)
        P = py_parts(l1, l2, rng.choice([0, 1, 1, 2, 2, 3, 4]))
        vals = [rng.choice([0.0, 1.0, -1.0, 2.5, -3.0, float('inf'), float('-inf')]) for _ in range(P['length'])]
        yield dict(p={'struct': P}, wps={'buf': [gens.fx(v) for v in vals]}, l1=l1, l2=l2, r=rng.randint(0, l1), c=rng.randint(0, l2))


for nm, cond in (('dtw_wps_negativize_value', 'old(wps[{L}]) > 0 and old(wps[{L}]) != inf'),
                 ('dtw_wps_positivize_value', 'old(wps[{L}]) < 0 and old(wps[{L}]) != vneginf()')):
    flip = '(%s and %s)' % (EXISTS, cond.format(L=LOC))
    contract(
        'dd_dtw.c::' + nm,
        params={'p': ('cstruct', 'DTWWps'), 'wps': 'cptr:val', 'l1': 'int', 'l2': 'int', 'r': 'int', 'c': 'int'},
        requires=COMMON + ['off(wps) == 0', 'length(wps) >= p.length'],
        ensures=['result == %s' % flip,
                 'implies(result, wps[%s] == -old(wps[%s]))' % (LOC, LOC),
                 'forall(lambda k: implies(not (result and k == %s), wps[k] == old(wps[k])))' % LOC],
        assigns=['wps'],
        returns='bool',
        replay=gen_negval,
        theories=('bounds', 'dtw'),
        order_axioms=True,
        props=('C08', 'C18', 'C20'),
    )


# ---------------------------------------------------------------------------------------------
# dtw_wps_max: scans exactly the stored cells of the compact layout (every access inside the buffer) and returns the
# location, row and column of the first strictly largest positive cell in scan order (0 / 0 / 0 when no cell is positive).
def _sub(t, R, cc):
    """the expression t (over r, c) at row R, column cc"""
    import re
    return re.sub(r'\bc\b', cc, re.sub(r'\br\b', R, t))


EXq, LOCq = _sub(EXISTS, 'R', 'cc'), _sub(LOC, 'R', 'cc')
EXm, LOCm = _sub(EXISTS, 'maxr', 'maxc'), _sub(LOC, 'maxr', 'maxc')
PFM = PF + SIZES + ['off(wps) == 0', 'length(wps) >= p.length']
BEST = ['maxval >= 0', '(maxidx == 0 and maxr == 0 and maxc == 0 and maxval == 0) or '
        '(%s and maxidx == %s and wps[maxidx] == maxval and maxval > 0)' % (EXm, LOCm)]


def _seen(before):
    return ('forall(lambda R, cc: implies(T2(R, cc) and %s and (%s), not (wps[%s] > maxval)))' % (EXq, before, LOCq))


def _mouter(head, lo, hi, extra):
    return dict(head=head, inv=PFM + BEST + ['%s <= ri <= %s' % (lo, hi), 'ri_width == ri * p.width', _seen('R < ri')] + extra,
                variant='%s - ri' % hi)


def _minner(lo, hi, wpsi, extra):
    return dict(head='for(;ci < max_ci;)',
                inv=PFM + BEST + ['%s <= ri < %s' % (lo, hi), 'ri_width == ri * p.width', 'min_ci <= ci', 'ci <= max_ci or ci == min_ci',
                                  'wpsi == ' + wpsi, _seen('R < ri or (R == ri and cc < ci)')] + extra,
                variant='max_ci - ci')


def gen_max(rng, n):
    from contracts import gens
    for _ in range(n):
        l1, l2 = rng.randint(1, 6), rng.randint(1, 6)
        P = py_parts(l1, l2, rng.choice([0, 1, 1, 2, 2, 3, 4]))
        vals = [rng.choice([0.0, 1.0, -1.0, 2.5, 2.5, -3.0, float('-inf')]) for _ in range(P['length'])]
        yield dict(p={'struct': P}, wps={'buf': [gens.fx(v) for v in vals]}, r={'buf': [0], 'elem': 'long'}, c={'buf': [0], 'elem': 'long'},
                   l1=l1, l2=l2)


contract(
    'dd_dtw.c::dtw_wps_max',
    params={'p': ('cstruct', 'DTWWps'), 'wps': 'cptr:val', 'r': 'cptr:int', 'c': 'cptr:int', 'l1': 'int', 'l2': 'int'},
    requires=PFM + ['length(r) >= 1', 'off(r) == 0', 'length(c) >= 1', 'off(c) == 0'],
    ensures=['(result == 0 and r[0] == 0 and c[0] == 0) or (result == %s and %s and wps[result] > 0)'
             % (_sub(LOC, 'r[0]', 'c[0]'), _sub(EXISTS, 'r[0]', 'c[0]')),
             # no stored cell is larger than the reported one (or positive, when none is reported)
             'forall(lambda R, cc: implies(T2(R, cc) and %s, not (wps[%s] > (wps[result] if result != 0 else 0))))' % (EXq, LOCq),
             'forall(lambda k: wps[k] == old(wps[k]))'],
    loops={
        0: _mouter('for(;ri < p.ri1 + 1;)', '1', 'p.ri1 + 1', A),
        1: _minner('1', 'p.ri1 + 1', 'ci - min_ci', A),
        2: _mouter('for(;ri < p.ri2 + 1;)', 'p.ri1 + 1', 'p.ri2 + 1', B),
        3: _minner('p.ri1 + 1', 'p.ri2 + 1', 'ci - min_ci', B),
        4: _mouter('for(;ri < p.ri3 + 1;)', 'p.ri2 + 1', 'p.ri3 + 1', C),
        5: _minner('p.ri2 + 1', 'p.ri3 + 1', 'ci - min_ci', C),
        6: _mouter('for(;ri < l1 + 1;)', 'p.ri3 + 1', 'l1 + 1', D),
        7: _minner('p.ri3 + 1', 'l1 + 1', 'wpsi_start - 1 + ci - min_ci', D),
    },
    assigns=['r', 'c'],
    returns='int',
    replay=gen_max,
    theories=('bounds', 'dtw'),
    order_axioms=True,
    props=('C08', 'C18', 'C20'),
)


# ---------------------------------------------------------------------------------------------
# dtw_wps_loc_columns: the stored column range [cb, ce) of matrix row r and the location of its first stored column.
def gen_loccols(rng, n):
    for _ in range(n):
        l1, l2 = rng.randint(1, 7), rng.randint(1, 7)
        yield dict(p={'struct': py_parts(l1, l2, rng.choice([0, 1, 1, 2, 2, 3, 4, 7]))}, r=rng.randint(0, l1),
                   cb={'buf': [-7], 'elem': 'long'}, ce={'buf': [-7], 'elem': 'long'}, l1=l1, l2=l2)


def _couter(head, lo, hi, extra):
    return dict(head=head, inv=PF + SIZES + ['0 <= r <= l1', '%s <= ri <= %s' % (lo, hi), 'ri_width == ri * p.width', 'not (1 <= r < ri)',
                                             'cb[0] == old(cb[0])', 'ce[0] == old(ce[0])'] + extra,
                variant='%s - ri' % hi)


contract(
    'dd_dtw.c::dtw_wps_loc_columns',
    params={'p': ('cstruct', 'DTWWps'), 'r': 'int', 'cb': 'cptr:int', 'ce': 'cptr:int', 'l1': 'int', 'l2': 'int'},
    requires=PF + SIZES + ['0 <= r <= l1', 'length(cb) >= 1', 'off(cb) == 0', 'length(ce) >= 1', 'off(ce) == 0'],
    ensures=['implies(r >= 1, cb[0] == %s and ce[0] == %s and result == r * p.width + cb[0] - %s)' % (MINC, MAXC, SHIFT),
             # the first stored column lies inside the row's slice of the buffer, and so does the last one when the range is not empty
             'implies(r >= 1, r * p.width <= result and (ce[0] <= cb[0] or result + (ce[0] - cb[0]) <= (r + 1) * p.width))',
             'implies(r >= 1, 0 <= cb[0] and ce[0] <= l2 + 1 and result + maxi(0, ce[0] - cb[0]) <= p.length)',
             'implies(r == 0, result == 0 and cb[0] == old(cb[0]) and ce[0] == old(ce[0]))'],
    loops={
        0: _couter('for(;ri < p.ri1 + 1;)', '1', 'p.ri1 + 1', A),
        1: _couter('for(;ri < p.ri2 + 1;)', 'p.ri1 + 1', 'p.ri2 + 1', B),
        2: _couter('for(;ri < p.ri3 + 1;)', 'p.ri2 + 1', 'p.ri3 + 1', C),
        3: _couter('for(;ri < l1 + 1;)', 'p.ri3 + 1', 'l1 + 1', D),
    },
    assigns=['cb', 'ce'],
    returns='int',
    replay=gen_loccols,
    theories=('bounds', 'dtw'),
    props=('C08', 'C04', 'C18', 'C20'),
)
