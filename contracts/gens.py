"""Concrete input generators for replay / runtime contract sweeps of C functions.
Each generator yields argument dicts in the encoding of dvc/c_runner.py."""


def fx(x):
    return {'f': float(x).hex()}


VALS = [0.0, 1.0, -1.0, 2.0, 0.5, 3.0, -2.5, 4.0]


def series(rng, n):
    return [fx(rng.choice(VALS)) for _ in range(n)]


def settings(rng, plain=False, maxlen=3):
    s = dict(window=0, max_dist=fx(0), max_step=fx(0), max_length_diff=0, penalty=fx(0), psi_1b=0, psi_1e=0,
             psi_2b=0, psi_2e=0, use_pruning=False, only_ub=False, inner_dist=0, window_type=0)
    if plain:
        return {'struct': s}
    if rng.random() < 0.5:
        s['window'] = rng.randint(0, maxlen + 1)
    if rng.random() < 0.3:
        s['penalty'] = fx(rng.choice([0.5, 1.0, 2.0]))
    if rng.random() < 0.3:
        s['max_step'] = fx(rng.choice([0.5, 1.5, 3.0]))
    if rng.random() < 0.3:
        s['max_dist'] = fx(rng.choice([0.5, 1.5, 3.0, 10.0]))
    if rng.random() < 0.2:
        s['max_length_diff'] = rng.randint(0, 2)
    if rng.random() < 0.4:
        for k in ('psi_1b', 'psi_1e', 'psi_2b', 'psi_2e'):
            s[k] = rng.randint(0, maxlen)
    if rng.random() < 0.2:
        s['use_pruning'] = True
    if rng.random() < 0.3:
        s['inner_dist'] = 1
    return {'struct': s}


def gen_ed(nd=False):
    def g(rng, n):
        for _ in range(n):
            l1, l2 = rng.randint(1, 4), rng.randint(1, 4)
            d = rng.randint(1, 3) if nd else 1
            a = dict(s1={'buf': series(rng, l1 * d)}, l1=l1, s2={'buf': series(rng, l2 * d)}, l2=l2)
            if nd:
                a['ndim'] = d
            yield a
    return g


def block(rng, nr, nc):
    if rng.random() < 0.25:
        return {'struct': dict(rb=0, re=0, cb=0, ce=0, triu=rng.random() < 0.8)}
    rb = rng.randint(0, nr - 1)
    re = rng.randint(rb + 1, nr)
    cb = rng.randint(0, nc - 1)
    ce = rng.randint(cb + 1, nc)
    return {'struct': dict(rb=rb, re=re, cb=cb, ce=ce, triu=rng.random() < 0.7)}


def py_len(b, nr, nc):
    if b is None:
        return nr * nc
    f = b['struct']
    re = f['re'] or nr
    ce = f['ce'] or nc
    if f['re'] == 0 or f['ce'] == 0:
        rb, cb = 0, 0
    else:
        rb, cb = f['rb'], f['cb']
    n = 0
    for r in range(f['rb'], re):
        for c in range(f['cb'], ce):
            if not f['triu'] or c > r:
                n += 1
    return n


def gen_length(rng, n):
    for _ in range(n):
        nr = rng.randint(1, 5)
        nc = nr if rng.random() < 0.6 else rng.randint(1, 5)
        b = None if rng.random() < 0.1 else block(rng, nr, nc)
        yield dict(block=b, nb_series_r=nr, nb_series_c=nc)


def gen_distances(kind, nd):
    def g(rng, n):
        for _ in range(n):
            d = rng.randint(1, 2) if nd else 1
            a = {}
            if kind == 'ptrs':
                nr = nc = rng.randint(1, 4)
                lens = [rng.randint(1, 3) for _ in range(nr)]
                a['ptrs'] = {'bufs': [series(rng, l * d) for l in lens]}
                a['nb_ptrs'] = nr
                a['lengths'] = {'buf': lens, 'elem': 'long'}
                minlen = min(lens)
            elif kind == 'matrix':
                nr = nc = rng.randint(1, 4)
                cols = rng.randint(1, 3)
                a['matrix'] = {'buf': series(rng, nr * cols * d)}
                a['nb_rows'] = nr
                a['nb_cols'] = cols
                minlen = cols
            else:
                nr, nc = rng.randint(1, 4), rng.randint(1, 4)
                cr, cc = rng.randint(1, 3), rng.randint(1, 3)
                a['matrix_r'] = {'buf': series(rng, nr * cr * d)}
                a['nb_rows_r'], a['nb_cols_r'] = nr, cr
                a['matrix_c'] = {'buf': series(rng, nc * cc * d)}
                a['nb_rows_c'], a['nb_cols_c'] = nc, cc
                minlen = min(cr, cc)
            if nd:
                a['ndim'] = d
            b = block(rng, nr, nc)
            a['block'] = b
            a['output'] = {'buf': [fx(-7.0)] * py_len(b, nr, nc)}
            s = settings(rng, maxlen=minlen)
            for k in ('psi_1b', 'psi_1e', 'psi_2b', 'psi_2e'):
                s['struct'][k] = min(s['struct'][k], minlen)
            a['settings'] = s
            yield a
    return g


def gen_kernel(metric, nd):
    """small DTW problems for the four distance kernels: narrow windows, psi on all four ends, penalty, max_step"""
    def g(rng, n):
        for _ in range(n):
            l1, l2 = rng.randint(1, 6), rng.randint(1, 6)
            if rng.random() < 0.3:
                l2 = l1
            d = rng.randint(1, 3) if nd else 1
            s = dict(window=0, max_dist=fx(0), max_step=fx(0), max_length_diff=0, penalty=fx(0), psi_1b=0, psi_1e=0,
                     psi_2b=0, psi_2e=0, use_pruning=False, only_ub=False, inner_dist=metric, window_type=0)
            if rng.random() < 0.7:
                s['window'] = rng.randint(1, 3)
            if rng.random() < 0.3:
                s['penalty'] = fx(rng.choice([0.5, 1.0, 2.0]))
            if rng.random() < 0.25:
                s['max_step'] = fx(rng.choice([1.5, 3.0]))
            if rng.random() < 0.2:
                s['max_length_diff'] = rng.randint(1, 3)
            if rng.random() < 0.6:
                s['psi_1b'], s['psi_1e'] = rng.randint(0, l1), rng.randint(0, l1)
                s['psi_2b'], s['psi_2e'] = rng.randint(0, l2), rng.randint(0, l2)
            a = dict(s1={'buf': series(rng, l1 * d)}, l1=l1, s2={'buf': series(rng, l2 * d)}, l2=l2)
            if nd:
                a['ndim'] = d
            a['settings'] = {'struct': s}
            yield a
    return g


def gen_kernel_ea(metric, nd=False):
    """small DTW problems with an early-abandoning bound (C03): no psi, bounds from well below to well above the distances that occur"""
    def g(rng, n):
        for _ in range(n):
            l1, l2 = rng.randint(1, 6), rng.randint(1, 6)
            if rng.random() < 0.3:
                l2 = l1
            s = dict(window=0, max_dist=fx(rng.choice([0.3, 0.75, 1.0, 1.5, 2.0, 2.6, 3.2, 4.5, 6.0, 9.0])), max_step=fx(0),
                     max_length_diff=0, penalty=fx(0), psi_1b=0, psi_1e=0, psi_2b=0, psi_2e=0, use_pruning=False, only_ub=False,
                     inner_dist=metric, window_type=0)
            if rng.random() < 0.6:
                s['window'] = rng.randint(1, 3)
            if rng.random() < 0.3:
                s['penalty'] = fx(rng.choice([0.5, 1.0, 2.0]))
            if rng.random() < 0.25:
                s['max_step'] = fx(rng.choice([1.5, 3.0]))
            d = rng.randint(1, 3) if nd else 1
            a = dict(s1={'buf': series(rng, l1 * d)}, l1=l1, s2={'buf': series(rng, l2 * d)}, l2=l2)
            if nd:
                a['ndim'] = d
            a['settings'] = {'struct': s}
            yield a
    return g
