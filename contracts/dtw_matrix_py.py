"""Sidecar contracts: distance-matrix layout functions of src/dtaidistance/dtw.py (C06, C07, C20).

Top-level postconditions are the property statement (row-major rank of the selected pairs);
loop invariants are derived from the code."""
from dvc.contracts import contract
import specs.layout  # noqa: F401  (registers Len, Rank, Sel, ...)

BLOCK_CASES = [
    dict(label='noblock', params={'block': 'none'}),
    dict(label='triu', params={'block': 'block'}),
    dict(label='flag', params={'block': 'block3'}),
]

N = 'nb_series'

contract(
    'dtw._distance_matrix_length',
    params={'block': 'none', 'nb_series': 'nat'},
    cases=BLOCK_CASES,
    requires=['ValidBlock(block, nb_series)', 'nb_series <= 2**26'],
    ensures=['result == Len(block, nb_series)'],
    returns='int',
    loops={0: dict(head='for ri in range(block_rb, block_re)',
                   inv=['length == LenRowsTo(block, nb_series, ri)'],
                   variant='block_re - ri')},
    lemmas=['LenFullClosed', 'LenRectClosed', 'RowsBefore'],
    theories=('layout',),
    props=('C06',),
    note='2**26: the block-free branch computes int(n*(n-1)/2) through a double; exact below 2**53.',
)

contract(
    'dtw._complete_block',
    params={'block': 'none', 'nb_series': 'nat'},
    cases=BLOCK_CASES + [dict(label='zero', params={'block': ('const', 0)})],
    requires=['ValidBlock(block, nb_series)'],
    ensures=['result[1] == Triu(block, nb_series)',
             'result[0][0][0] == (0 if (block is None or block == 0) else block[0][0])',
             'result[0][0][1] == (nb_series if (block is None or block == 0) else block[0][1])',
             'result[0][1][0] == (0 if (block is None or block == 0) else block[1][0])',
             'result[0][1][1] == (nb_series if (block is None or block == 0) else block[1][1])'],
    theories=('layout',),
    props=('C06',),
    inline=True,
)

_PAIRS_BEFORE = ('forall(lambda r2, c2: implies(Sel(block0, nb_series, r2, c2) and {cond}, '
                 'idxsl_r[Rank(block0, nb_series, r2, c2)] == r2 and idxsl_c[Rank(block0, nb_series, r2, c2)] == c2))')

contract(
    'dtw._distance_matrix_idxs',
    params={'block': 'none', 'nb_series': 'nat'},
    cases=BLOCK_CASES,
    bind={'block0': 'block'},
    requires=['ValidBlock(block, nb_series)'],
    ensures=['length(result[0]) == Len(block0, nb_series)',
             'length(result[1]) == Len(block0, nb_series)',
             'forall(lambda r2, c2: implies(Sel(block0, nb_series, r2, c2), '
             'result[0][Rank(block0, nb_series, r2, c2)] == r2 and result[1][Rank(block0, nb_series, r2, c2)] == c2))',
             'forall(lambda k: implies(0 <= k < Len(block0, nb_series), '
             'Sel(block0, nb_series, result[0][k], result[1][k]) and Rank(block0, nb_series, result[0][k], result[1][k]) == k))',
             # NumPy: np.array([]) has a float dtype; index arrays must be integer typed to be usable
             'IntDtype(result[0]) and IntDtype(result[1])',
             ],
    kinds={'idxsl_r': 'int', 'idxsl_c': 'int'},
    loops={
        0: dict(head='for r in range(block[0][0], block[0][1])',
                inv=['length(idxsl_r) == LenRowsTo(block0, nb_series, r)',
                     'length(idxsl_c) == length(idxsl_r)',
                     _PAIRS_BEFORE.format(cond='r2 < r'),
                     'forall(lambda k: implies(0 <= k < length(idxsl_r), Sel(block0, nb_series, idxsl_r[k], idxsl_c[k]) '
                     'and Rank(block0, nb_series, idxsl_r[k], idxsl_c[k]) == k and idxsl_r[k] < r))'],
                variant='block[0][1] - r'),
        1: dict(head='for c in it_c',
                inv=['length(idxsl_r) == LenRowsTo(block0, nb_series, r) + (c - CBrow(block0, nb_series, r))',
                     'length(idxsl_c) == length(idxsl_r)',
                     'c >= CBrow(block0, nb_series, r)',
                     _PAIRS_BEFORE.format(cond='(r2 < r or (r2 == r and c2 < c))'),
                     'forall(lambda k: implies(0 <= k < length(idxsl_r), Sel(block0, nb_series, idxsl_r[k], idxsl_c[k]) '
                     'and Rank(block0, nb_series, idxsl_r[k], idxsl_c[k]) == k and '
                     '(idxsl_r[k] < r or (idxsl_r[k] == r and idxsl_c[k] < c))))'],
                variant='Len(block0, nb_series) + nb_series - length(idxsl_r) - c + CBrow(block0, nb_series, r)'),
    },
    lemmas=['LenFullClosed', 'LenRectClosed', 'RowsBefore'],
    theories=('layout',),
    props=('C06',),
)


# ---------------------------------------------------------------------------------------------
import specs.dtwspec  # noqa: E402,F401

SETTINGS_REC = ('rec', 'dtw.DTWSettings', dict(
    window='opt:int', use_pruning='bool', max_dist='opt:val', max_step='opt:val', max_length_diff='opt:int',
    penalty='opt:val', psi='opt:int', inner_dist=('const', 'squared euclidean'), use_ndim='bool',
    use_c=('const', False)))

contract(
    'dtw.distance#value',
    params={'s1': 'series', 's2': 'series', 'only_ub': 'bool', 'kwargs': {}},
    requires=['length(s1) >= 1', 'length(s2) >= 1'],
    ensures=['result == DTWP(s1, s2, only_ub, kwargs)'],
    returns='val',
    trusted=True,
    props=('C01',),
    note='assumed here: dtw.distance is a function of the series contents and its options and leaves '
         'its arguments untouched; its functional contract is C01.',
)

_PY_PAIRS = ('forall(lambda r2, c2: implies(T2(r2, c2) and Sel(block0, length(s), r2, c2) and {cond}, '
             'dists[Rank(block0, length(s), r2, c2)] == DTWP(s[r2], s[c2], False, kw)))')

contract(
    'dtw.distance_matrix_python',
    params={'s': 'series_collection', 'block': 'none', 'show_progress': ('const', False), 'settings': SETTINGS_REC},
    cases=[dict(label=c['label'] + '/' + i, params=dict(c['params'], settings=dict_settings))
           for c in BLOCK_CASES
           for i, dict_settings in (('sqeuclid', SETTINGS_REC),
                                    ('euclid', ('rec', 'dtw.DTWSettings', dict(SETTINGS_REC[2], inner_dist=('const', 'euclidean')))),
                                    ('psi4', ('rec', 'dtw.DTWSettings', dict(SETTINGS_REC[2], psi=('tuple', 'int', 'int', 'int', 'int')))))],
    bind={'block0': 'block', 'kw': 'settings.kwargs()'},
    callee_views={'dtw.distance': 'dtw.distance#value'},
    requires=['ValidBlock(block, length(s))', '1 <= length(s) <= 2**26',
              'forall(lambda k: implies(0 <= k < length(s), length(s[k]) >= 1))'],
    ensures=['length(result) == Len(block0, length(s))',
             _PY_PAIRS.replace('dists[', 'result[').format(cond='True')],
    kinds={'dists': 'val'},
    loops={
        0: dict(head='for r in it_r',
                inv=['idx == LenRowsTo(block0, length(s), r)', 'length(dists) == Len(block0, length(s))',
                     _PY_PAIRS.format(cond='r2 < r')],
                variant='block[0][1] - r'),
        1: dict(head='for c in it_c',
                inv=['idx == LenRowsTo(block0, length(s), r) + (c - CBrow(block0, length(s), r))',
                     'c >= CBrow(block0, length(s), r)', 'length(dists) == Len(block0, length(s))',
                     _PY_PAIRS.format(cond='(r2 < r or (r2 == r and c2 < c))')],
                variant='length(s) - c + 1 + (CBrow(block0, length(s), r) - c if c < CBrow(block0, length(s), r) else 0)'),
    },
    theories=('layout',),
    lemmas=['LenFullClosed', 'LenRectClosed', 'RowsBefore', 'LenRowsNonneg'],
    props=('C06', 'C20'),
)

contract(
    'dtw.distance_array_index',
    params={'a': 'nat', 'b': 'nat', 'nb_series': 'nat'},
    requires=['a < nb_series', 'b < nb_series', 'a != b'],
    ensures=['result == Rank(None, nb_series, mini(a, b), maxi(a, b))'],
    loops={0: dict(head='for r in range(a)', inv=['idx == LenRowsTo(None, nb_series, r)', 'a < b'], variant='a - r')},
    theories=('layout',),
    lemmas=['LenFullClosed'],
    props=('C06',),
)


_IDXS_RET = ('tuple', 'idxarr', 'idxarr')

# give the callee contract a result shape (two integer index arrays)
from dvc.contracts import CONTRACTS as _C  # noqa: E402
_C['dtw._distance_matrix_idxs'].returns = _IDXS_RET

contract(
    'dtw.distances_array_to_matrix',
    params={'dists': 'array:val', 'nb_series': 'nat', 'block': 'none', 'only_triu': 'bool'},
    cases=BLOCK_CASES[:2],
    bind={'block0': 'block'},
    requires=['ValidBlock(block, nb_series)', 'length(dists) == Len(block, nb_series)', '1 <= nb_series <= 2**26'],
    ensures=[
        'forall(lambda r2, c2: implies(T2(r2, c2) and Sel(block0, nb_series, r2, c2), '
        'result[r2, c2] == dists[Rank(block0, nb_series, r2, c2)]))',
        'forall(lambda r2, c2: implies(T2(r2, c2) and Sel(block0, nb_series, r2, c2) and not only_triu, '
        'result[c2, r2] == dists[Rank(block0, nb_series, r2, c2)]))',
        'forall(lambda r2, c2: implies(T2(r2, c2) and 0 <= r2 < nb_series and 0 <= c2 < nb_series and not only_triu '
        'and r2 == c2, result[r2, c2] == 0))',
        'forall(lambda r2, c2: implies(T2(r2, c2) and 0 <= r2 < nb_series and 0 <= c2 < nb_series and r2 != c2 and '
        'not Sel(block0, nb_series, r2, c2) and (only_triu or not Sel(block0, nb_series, c2, r2)), '
        'result[r2, c2] == inf))',
    ],
    theories=('layout',),
    lemmas=['LenFullClosed', 'LenRectClosed', 'RowsBefore', 'LenRowsNonneg'],
    props=('C06', 'C10'),
    note='square form: mirrored around a zero diagonal (or upper triangle only), infinity outside the block',
)
