"""Sidecar contracts: the Python traceback dtw.best_path (C05)."""
from dvc.contracts import contract, THEORIES
from dvc.vals import ipair_axioms
import specs.dtw  # noqa: F401

THEORIES['ipair'] = ipair_axioms

I_, J_ = 'paths.shape[0] - 1', 'paths.shape[1] - 1'
STEP = ('(({a}[0] - {b}[0] == 1 and {a}[1] - {b}[1] == 1) or ({a}[0] - {b}[0] == 1 and {a}[1] - {b}[1] == 0) or '
        '({a}[0] - {b}[0] == 0 and {a}[1] - {b}[1] == 1))')
# the step from cell `a` (matrix coordinates a+1) back to cell `b` goes to the first minimal one of the three predecessors
# [diagonal, up + penalty, left + penalty] -- np.argmin's choice
V0 = 'paths[{a}[0], {a}[1]]'
V1 = '(paths[{a}[0], {a}[1] + 1] + penalty)'
V2 = '(paths[{a}[0] + 1, {a}[1]] + penalty)'
BEST = ('(implies({a}[0] - {b}[0] == 1 and {a}[1] - {b}[1] == 1, not (%s < %s) and not (%s < %s)) and '
        'implies({a}[0] - {b}[0] == 1 and {a}[1] - {b}[1] == 0, %s < %s and not (%s < %s)) and '
        'implies({a}[0] - {b}[0] == 0 and {a}[1] - {b}[1] == 1, %s < %s and %s < %s))'
        % (V1, V0, V2, V0, V1, V0, V2, V1, V2, V0, V2, V1))

contract(
    'dtw.best_path',
    params={'paths': 'matrix', 'row': 'none', 'col': 'none', 'use_max': ('const', False), 'penalty': 'val'},
    requires=['paths.shape[0] >= 2', 'paths.shape[1] >= 2',
              # no cell carries the -1 mark of psi-relaxed regions (dtw.warping_paths(psi_neg=False), or no end psi)
              'forall(lambda a, b: implies(0 <= a < paths.shape[0] and 0 <= b < paths.shape[1], paths[a, b] != -1))'],
    ensures=[
        'len(result) >= 1',
        # ends in the corner, starts on the first row or the first column
        'result[len(result) - 1][0] == %s - 1 and result[len(result) - 1][1] == %s - 1' % (I_, J_),
        'result[0][0] == 0 or result[0][1] == 0',
        'forall(lambda k: implies(0 <= k < len(result), 0 <= result[k][0] < %s and 0 <= result[k][1] < %s))' % (I_, J_),
        # contiguous and monotone: only steps (1,1), (1,0), (0,1)
        'forall(lambda k: implies(0 <= k < len(result) - 1, %s))' % STEP.format(a='result[k + 1]', b='result[k]'),
        # every step goes back to the cheapest predecessor (first minimum of [diagonal, up + penalty, left + penalty])
        'forall(lambda k: implies(0 <= k < len(result) - 1, %s))' % BEST.format(a='result[k + 1]', b='result[k]'),
    ],
    loops={0: dict(head='while i > 0 and j > 0',
                   inv=['0 <= i <= %s' % I_, '0 <= j <= %s' % J_, 'len(p) >= 1',
                        'implies(len(p) >= 1, p[0][0] == %s - 1 and p[0][1] == %s - 1)' % (I_, J_),
                        'implies(len(p) >= 1, p[len(p) - 1][0] == i - 1 and p[len(p) - 1][1] == j - 1)',
                        'forall(lambda k: implies(0 <= k < len(p) - 1, 0 <= p[k][0] < %s and 0 <= p[k][1] < %s))' % (I_, J_),
                        'forall(lambda k: implies(0 <= k < len(p) - 1, %s))' % STEP.format(a='p[k]', b='p[k + 1]'),
                        'forall(lambda k: implies(0 <= k < len(p) - 1, %s))' % BEST.format(a='p[k]', b='p[k + 1]')],
                   variant='i + j')},
    theories=('ipair',),
    kinds={'p': 'ipair'},
    returns='list:ipair',
    order_axioms=True,
    props=('C05',),
)


# ---------------------------------------------------------------------------------------------
# Second stage: on a matrix shaped like an accumulated-cost matrix without psi relaxation -- infinite borders except the
# origin, and every finite inner cell has a finite candidate among its three predecessors (what the recurrence guarantees:
# a cell is its cost plus the least candidate) -- the traceback from a finite corner stays on finite cells and ends in (0, 0).
import copy as _copy            # noqa: E402
from dvc.contracts import CONTRACTS as _CT      # noqa: E402

_wf = _copy.copy(_CT['dtw.best_path'])
_wf.name = 'dtw.best_path#wf'
_FINITE_PRED = ('(paths[a - 1, b - 1] < inf or paths[a - 1, b] + penalty < inf or paths[a, b - 1] + penalty < inf)')
_wf.requires = list(_CT['dtw.best_path'].requires) + [
    'not (penalty < 0)',
    'forall(lambda b: implies(1 <= b < paths.shape[1], paths[0, b] == inf))',
    'forall(lambda a: implies(1 <= a < paths.shape[0], paths[a, 0] == inf))',
    'forall(lambda a, b: implies(1 <= a < paths.shape[0] and 1 <= b < paths.shape[1] and paths[a, b] < inf, %s))' % _FINITE_PRED,
    'paths[%s, %s] < inf' % (I_, J_),
]
_wf.ensures = list(_CT['dtw.best_path'].ensures) + [
    'result[0][0] == 0 and result[0][1] == 0',
    'forall(lambda k: implies(0 <= k < len(result), paths[result[k][0] + 1, result[k][1] + 1] < inf))',
]
_l0 = dict(_CT['dtw.best_path'].loops[0])
_l0['inv'] = list(_l0['inv']) + [
    'paths[i, j] < inf',
    'forall(lambda k: implies(0 <= k < len(p) - 1, paths[p[k][0] + 1, p[k][1] + 1] < inf))']
_wf.loops = {0: _l0}
_wf.theories = ('ipair', 'nonneg')
_wf.props = ('C05',)
_CT['dtw.best_path#wf'] = _wf


# ---------------------------------------------------------------------------------------------
# dtw.warping_path (Python engine, no psi relaxation): dtw.warping_paths followed by dtw.best_path, both by contract.
from contracts.dtw_py import KW, METRIC        # noqa: E402

WR, WC = 'length(from_s)', 'length(to_s)'
WCTX = ('DTWctx(from_s, to_s, kwargs["window"], kwargs["penalty"], kwargs["max_step"], 0, 0, %s, NdimOf(from_s))' % METRIC)


def _wpath_cases():
    out = []
    for il, inner, m in (('sq', 'squared euclidean', 0), ('eu', 'euclidean', 1)):
        kw = dict(KW, inner_dist=('const', inner), psi='none', max_length_diff='none')
        out.append(dict(label='%s/nopsi' % il, params={'kwargs': kw}, metric=m, psi='nopsi'))
    return out


contract(
    'dtw.warping_path',
    params={'from_s': 'series', 'to_s': 'series', 'include_distance': ('const', False), 'use_ndim': ('const', False), 'kwargs': KW},
    cases=_wpath_cases(),
    bind={'ctx': WCTX},
    callee_views={'dtw.best_path': 'dtw.best_path#wf'},
    requires=['%s >= 1' % WR, '%s >= 1' % WC, 'kwargs["window"] is None or kwargs["window"] >= 1',
              'kwargs["penalty"] is None or kwargs["penalty"] >= 0',
              # a path exists at all (window / max_step may leave none)
              'W(%s, %s) < inf' % (WR, WC)],
    ensures=[
        'len(result) >= 1',
        'result[0][0] == 0 and result[0][1] == 0',
        'result[len(result) - 1][0] == %s - 1 and result[len(result) - 1][1] == %s - 1' % (WR, WC),
        'forall(lambda k: implies(0 <= k < len(result), 0 <= result[k][0] < %s and 0 <= result[k][1] < %s))' % (WR, WC),
        'forall(lambda k: implies(0 <= k < len(result) - 1, %s))' % STEP.format(a='result[k + 1]', b='result[k]'),
        # confined to the window band and to steps allowed by max_step: every cell on the path has a finite accumulated cost
        'forall(lambda k: implies(0 <= k < len(result), W(result[k][0] + 1, result[k][1] + 1) < inf))',
    ],
    theories=('dtw', 'bounds', 'ipair', 'nonneg', 'sqrtmono', 'sqrtnonneg', 'floatzero'),
    lemmas=['WNonneg'],
    order_axioms=True,
    props=('C05',),
)


# ---------------------------------------------------------------------------------------------
# Third stage: the cost clause.  On a matrix that obeys the accumulated-cost recurrence for *some* point-cost function
# (ghost function PCost, uninterpreted: the contract holds for every interpretation) with the penalty handed to
# best_path, every link of the returned path is exact: the cell equals its point cost plus the value of the cell the
# path came from (plus the penalty for a non-diagonal step).  By a one-line induction the cost accumulated along the
# path, in the recurrence's own order of additions, is the value of each cell on it -- in particular of the corner.
import z3 as _z3                                            # noqa: E402
from dvc.contracts import spec as _spec                      # noqa: E402
from dvc.vals import IntS as _IntS, Val as _Val              # noqa: E402
from dvc.ops import zint as _zint                            # noqa: E402

_PCostf = _z3.Function('PCost', _IntS, _IntS, _Val)
_spec('PCost', z3=lambda ex, st, a, b: _PCostf(_zint(a), _zint(b)), doc='ghost point-cost function of a cost matrix (uninterpreted)')

_RECUR = ('forall(lambda a, b: implies(1 <= a < paths.shape[0] and 1 <= b < paths.shape[1] and paths[a, b] < inf, '
          'paths[a, b] == PCost(a, b) + min(paths[a - 1, b - 1], paths[a - 1, b] + penalty, paths[a, b - 1] + penalty)))')
_CAME = ('(paths[{b}[0] + 1, {b}[1] + 1] if ({a}[0] - {b}[0] == 1 and {a}[1] - {b}[1] == 1) else paths[{b}[0] + 1, {b}[1] + 1] + penalty)')
_LINK = 'paths[{a}[0] + 1, {a}[1] + 1] == PCost({a}[0] + 1, {a}[1] + 1) + ' + _CAME
_cs = _copy.copy(_CT['dtw.best_path#wf'])
_cs.name = 'dtw.best_path#cost'
_cs.requires = list(_CT['dtw.best_path#wf'].requires) + [_RECUR]
_cs.ensures = list(_CT['dtw.best_path#wf'].ensures) + [
    'forall(lambda k: implies(0 <= k < len(result) - 1, %s))' % _LINK.format(a='result[k + 1]', b='result[k]'),
    # the first cell hangs on the origin
    'paths[1, 1] == PCost(1, 1) + paths[0, 0]',
]
_l0c = dict(_CT['dtw.best_path#wf'].loops[0])
_l0c['inv'] = list(_l0c['inv']) + ['forall(lambda k: implies(0 <= k < len(p) - 1, %s))' % _LINK.format(a='p[k]', b='p[k + 1]')]
_cs.loops = {0: _l0c}
_cs.theories = ('ipair', 'nonneg', 'floatzero')
_cs.props = ('C05',)
_CT['dtw.best_path#cost'] = _cs


# dtw.warping_path, cost clause (Euclidean inner distance, no penalty, no psi): with the point-cost function instantiated to
# the inner distance of the two series, every link of the returned path is exact and the first cell hangs on the origin;
# hence the cost accumulated along the path is W at every cell of the path, and W(r, c) = the reported distance at its end.
# (With a penalty dtw.warping_path does not hand the penalty to best_path: KF-C05-2.  With the squared inner distance the
#  traceback runs on square-rooted cells, whose first minimum need not be the first minimum of the cells.)
def _wpath_cost_cases():
    kw = dict(KW, inner_dist=('const', 'euclidean'), psi='none', max_length_diff='none', penalty='none')
    return [dict(label='eu/nopsi/nopen', params={'kwargs': kw}, metric=1, psi='nopsi')]


_wc = _copy.copy(_CT['dtw.warping_path'])
_wc.name = 'dtw.warping_path#cost'
_wc.cases = _wpath_cost_cases()
_wc.callee_views = {'dtw.best_path': 'dtw.best_path#cost'}
_wc.ghost_defs = {'PCost': 'forall(lambda a, b: PCost(a, b) == Cost(a - 1, b - 1))'}
_WCELL = 'W({x}[0] + 1, {x}[1] + 1)'
_wc.ensures = list(_CT['dtw.warping_path'].ensures) + [
    'forall(lambda k: implies(0 <= k < len(result) - 1, %s == Cost(result[k + 1][0], result[k + 1][1]) + %s))'
    % (_WCELL.format(x='result[k + 1]'), _WCELL.format(x='result[k]')),
    'W(1, 1) == Cost(0, 0) + 0',
]
_wc.props = ('C05',)
_CT['dtw.warping_path#cost'] = _wc
