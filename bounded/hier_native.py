"""Runs under /venv/bin/python (C15, bounded stand-in).

Random collections of 2..7 short series (ties and duplicates included) x max_dist x weight / order hooks x distance-matrix
function (Python / C) x repeated fit calls on one model:
  partition   Hierarchical.fit returns clusters that partition all indices, each keyed by a prototype it contains
  merges      the merge hook sees merges in non-decreasing distance order, none above max_dist, the merged-away series was
              still alive; at the end no two remaining prototypes are within max_dist of each other
  tree        HierarchicalTree records exactly n-1 merges that form one rooted binary tree (every node but the root is a child
              exactly once, leaves are 0..n-1, internal nodes n..2n-2)
  scipy       LinkageTree equals scipy.cluster.hierarchy.linkage of the condensed DTW distances
  refit       fitting the same model object again gives the same result
usage: hier_native.py <repo> <seed> <n>"""
import sys
import json
import math
import random

repo, seed, n = sys.argv[1], int(sys.argv[2]), int(sys.argv[3])
sys.path.insert(0, repo + '/src')
import numpy as np  # noqa: E402
from dtaidistance import dtw  # noqa: E402
from dtaidistance.clustering import hierarchical as H  # noqa: E402

rng = random.Random(seed)
VALS = [0.0, 1.0, -1.0, 2.0, 0.5, 3.0]
problems, samples = [], []
evaluations = 0
distinct = set()


def report(route, series, desc, what, **extra):
    problems.append(dict(route=route, series=[list(map(float, s)) for s in series], desc=desc, what=what, **extra))


for it in range(n):
    k = rng.randint(2, 7)
    series = []
    for _ in range(k):
        if series and rng.random() < 0.25:
            series.append(series[rng.randrange(len(series))].copy())
        else:
            series.append(np.array([rng.choice(VALS) for _ in range(rng.randint(2, 5))]))
    use_c = rng.random() < 0.5
    dists_fun = dtw.distance_matrix_fast if use_c else dtw.distance_matrix
    opts = {}
    if rng.random() < 0.4:
        opts['window'] = rng.randint(1, 3)
    full = dtw.distance_matrix(series, **opts)           # reference distances (symmetric use below)
    dist = lambda a, b: float(full[min(a, b), max(a, b)])      # noqa: E731
    max_dist = rng.choice([float('inf'), float('inf'), 1.0, 2.0, 3.0])
    hook = rng.choice(['none', 'weights', 'order'])
    desc = dict(use_c=use_c, opts=opts, max_dist=max_dist, hook=hook)
    distinct.add((k, use_c, max_dist, hook, tuple(opts)))
    merges = []

    def rec_hook(frm, to, d, merges=merges):
        merges.append((int(frm), int(to), float(d)))

    weights = [1] * k
    whook = H.Hooks.create_weighthook(weights, series) if hook == 'weights' else None
    ohook = H.Hooks.create_orderhook(weights) if hook == 'order' else None

    def merge_hook(frm, to, d):
        res = whook(to, frm, d) if whook else None        # Hierarchical calls merge_hook(i2, i1, value); the weight hook takes (i1, i2)
        if res:
            rec_hook(res[1], res[0], d)
            return res
        rec_hook(frm, to, d)
        return None
    try:
        model = H.Hierarchical(dists_fun, dict(opts), max_dist=max_dist, merge_hook=merge_hook, order_hook=ohook, show_progress=False)
        clusters = model.fit(series)
    except Exception as e:      # noqa
        report('hierarchical', series, desc, 'raised %s: %s' % (type(e).__name__, str(e)[:100]))
        continue
    evaluations += 1
    err = None
    allidx = sorted(i for c in clusters.values() for i in c)
    if allidx != list(range(k)):
        err = 'clusters %r do not partition 0..%d' % ({a: sorted(b) for a, b in clusters.items()}, k - 1)
    elif any(p not in c for p, c in clusters.items()):
        err = 'a cluster is keyed by a prototype it does not contain'
    if err is None:
        alive = set(range(k))
        last = -1.0
        for frm, to, d in merges:
            if d < last - 1e-12:
                err = 'merge distances decrease: %r after %r' % (d, last)
            if d > max_dist + 1e-12:
                err = 'merge at distance %r above max_dist %r' % (d, max_dist)
            if frm not in alive or to not in alive or frm == to:
                err = 'merge %d -> %d involves a series that was already merged away' % (frm, to)
            alive.discard(frm)
            last = d
        if err is None and set(clusters) != alive:
            err = 'prototypes %r differ from the series never merged away %r' % (sorted(clusters), sorted(alive))
        if err is None:
            protos = sorted(clusters)
            for a in range(len(protos)):
                for b in range(a + 1, len(protos)):
                    if dist(protos[a], protos[b]) <= max_dist and not math.isinf(dist(protos[a], protos[b])):
                        err = 'stopped although prototypes %d and %d are within max_dist (%r)' % (protos[a], protos[b], dist(protos[a], protos[b]))
    if err is None:
        n_merges = len(merges)
        again = model.fit(series)
        if {a: sorted(b) for a, b in again.items()} != {a: sorted(b) for a, b in clusters.items()} and hook != 'weights':
            err = 'a second fit on the same model gives %r, the first gave %r' % (again, clusters)
    if err:
        report('hierarchical', series, desc, err, merges=merges)
    # tree variant (on its own model, or wrapped around a model that carries the user's weight / order hooks)
    try:
        if hook == 'none':
            tree = H.HierarchicalTree(dists_fun=dists_fun, dists_options=dict(opts), show_progress=False)
        else:
            inner = H.Hierarchical(dists_fun, dict(opts), show_progress=False,
                                   merge_hook=H.Hooks.create_weighthook([1] * k, series) if hook == 'weights' else None,
                                   order_hook=H.Hooks.create_orderhook([1] * k) if hook == 'order' else None)
            tree = H.HierarchicalTree(inner)
        tree.fit(series)
        if any(a is None or b is None for a, b, _, _ in tree.linkage):
            raise ValueError('linkage row with a missing child: %r' % ([tuple(x) for x in tree.linkage][:4],))
        link = [(int(a), int(b), float(d)) for a, b, d, _ in tree.linkage]
        evaluations += 1
        err = None
        if len(link) != k - 1:
            err = 'tree records %d merges for %d series' % (len(link), k)
        else:
            children = [x for a, b, _ in link for x in (a, b)]
            if sorted(children) != list(range(2 * k - 2)):
                err = 'children %r: every node except the root must be a child exactly once' % (sorted(children),)
            for pos, (a, b, _) in enumerate(link):
                if a >= k + pos or b >= k + pos:
                    err = 'merge %d refers to a node that does not exist yet' % pos
        if err:
            report('tree', series, desc, err, linkage=link)
    except Exception as e:      # noqa
        report('tree', series, desc, 'raised %s: %s' % (type(e).__name__, str(e)[:100]))
    # SciPy-backed variant
    try:
        from scipy.cluster.hierarchy import linkage
        lt = H.LinkageTree(dists_fun, dict(opts))
        got = np.asarray(lt.fit(series))
        cond = np.array([dist(a, b) for a in range(k) for b in range(a + 1, k)])
        want = linkage(cond, method='complete', metric='euclidean')
        evaluations += 1
        if got.shape != want.shape or not np.allclose(got, want, rtol=1e-9, atol=1e-12):
            report('scipy', series, desc, 'LinkageTree differs from scipy.linkage of the condensed distances', got=got.tolist(), want=want.tolist())
    except Exception as e:      # noqa
        report('scipy', series, desc, 'raised %s: %s' % (type(e).__name__, str(e)[:100]))
    if len(samples) < 3:
        samples.append(dict(n_series=k, desc=desc, clusters={str(a): sorted(b) for a, b in clusters.items()}))

print('@@JSON@@' + json.dumps(dict(evaluations=evaluations, distinct_nontrivial=len(distinct), problems=problems[:400],
                                   n_problems=len(problems), samples=samples)))
