"""Runs under /venv/bin/python (C04, bounded stand-in for the C engine as reached through the wrappers).

For random small pairs x window x penalty x psi x max_step x inner distance x psi_neg, the matrix and distance of
  c-full     dtw.warping_paths_fast(compact=False)
  c-compact  dtw.warping_paths_fast(compact=True) expanded by dtw_cc.wps_expand_slice over the whole range
  (sub-range slices of dtw_expand_wps_slice: C-level sanitizer chains, KF-C08-1/2)
must equal dtw.warping_paths (Python; proved cell-wise optimal for the settings without end-psi, C04 [P]).
usage: wps_native.py <repo> <seed> <n>"""
import sys
import json
import math
import random

repo, seed, n = sys.argv[1], int(sys.argv[2]), int(sys.argv[3])
sys.path.insert(0, repo + '/src')
import numpy as np  # noqa: E402
from dtaidistance import dtw  # noqa: E402
from dtaidistance import dtw_cc  # noqa: E402

rng = random.Random(seed)
VALS = [0.0, 1.0, -1.0, 2.0, 0.5, 3.0, -2.5]
problems, samples = [], []
evaluations = 0
distinct = set()


def close(x, y, anyinf=False):
    if x == y:
        return True
    if anyinf and math.isinf(x) and math.isinf(y):
        return True       # the slice expansion marks cells outside the band with -inf (affinity convention): still "infinite"
    if math.isinf(x) or math.isinf(y) or math.isnan(x) or math.isnan(y):
        return False
    return abs(x - y) <= 1e-9 * max(1.0, abs(x), abs(y))


def same_matrix(m1, m2, r0=0, c0=0, anyinf=False):
    if m1.shape != m2.shape:
        return 'shape %s vs %s' % (m1.shape, m2.shape)
    # row 0 / column 0 are the virtual border: the property speaks about cells (i+1, j+1) only, and the compact
    # layout does not store border cells that lie outside the band
    for i in range(1, m1.shape[0]):
        for j in range(1, m1.shape[1]):
            if not close(float(m1[i, j]), float(m2[i, j]), anyinf):
                return 'cell (%d,%d): Python %r vs C %r' % (i + r0, j + c0, float(m1[i, j]), float(m2[i, j]))
    return None


def report(route, a, b, kw, what, **extra):
    problems.append(dict(route=route, s1=[float(x) for x in a], s2=[float(x) for x in b], kw=kw, what=what, **extra))


for it in range(n):
    r = rng.randint(1, 7)
    c = rng.randint(1, 7)
    a = np.array([rng.choice(VALS) for _ in range(r)])
    b = np.array([rng.choice(VALS) for _ in range(c)])
    kw = {}
    if rng.random() < 0.6:
        kw['window'] = rng.randint(1, 4)
    if rng.random() < 0.4:
        kw['penalty'] = rng.choice([0.5, 1.0, 2.0])
    if rng.random() < 0.25:
        # begin-of-series relaxation only: the Python reference is under contract for it (end-psi: C-level chains, KF-C04-1)
        kw['psi'] = (rng.randint(0, min(r, 2)), 0, rng.randint(0, min(c, 2)), 0)
    if rng.random() < 0.2:
        kw['max_step'] = rng.choice([1.0, 2.5])
    if rng.random() < 0.3:
        kw['inner_dist'] = 'euclidean'
    psi_neg = rng.random() < 0.5
    case = (r, c, kw.get('window'), 'penalty' in kw, 'psi' in kw, 'max_step' in kw, kw.get('inner_dist'))
    distinct.add(case)
    jkw = dict(kw, psi_neg=psi_neg)
    if isinstance(jkw.get('psi'), tuple):
        jkw['psi'] = list(jkw['psi'])
    try:
        dp, mp = dtw.warping_paths(a, b, psi_neg=psi_neg, **kw)
    except Exception as e:      # noqa
        report('python', a, b, jkw, 'raised %s: %s' % (type(e).__name__, str(e)[:80]))
        continue
    evaluations += 1
    try:
        dc, mc = dtw.warping_paths_fast(a, b, psi_neg=psi_neg, **kw)
        evaluations += 1
        err = same_matrix(mp, mc)
        if err:
            report('c-full', a, b, jkw, 'matrix differs: ' + err)
        elif not close(float(dp), float(dc)):
            report('c-full', a, b, jkw, 'distance differs: Python %r vs C %r' % (float(dp), float(dc)))
    except Exception as e:      # noqa
        report('c-full', a, b, jkw, 'raised %s: %s' % (type(e).__name__, str(e)[:80]))
    try:
        dk, mk = dtw.warping_paths_fast(a, b, psi_neg=psi_neg, compact=True, **kw)
        st = dtw_cc.DTWSettings(**{k: v for k, v in kw.items()})
        full = np.full((r + 1, c + 1), -7.0)
        dtw_cc.wps_expand_slice(mk, full, r, c, 0, r + 1, 0, c + 1, st)
        evaluations += 1
        err = same_matrix(mp, full, anyinf=True)
        if err:
            report('c-compact', a, b, jkw, 'expanded matrix differs: ' + err)
        elif not close(float(dp), float(dk)):
            report('c-compact', a, b, jkw, 'distance differs: Python %r vs C %r' % (float(dp), float(dk)))
    except Exception as e:      # noqa
        report('c-compact', a, b, jkw, 'raised %s: %s' % (type(e).__name__, str(e)[:80]))
    if len(samples) < 3:
        samples.append(dict(s1=a.tolist(), s2=b.tolist(), kw=jkw, distance=float(dp)))

print('@@JSON@@' + json.dumps(dict(evaluations=evaluations, distinct_nontrivial=len(distinct), problems=problems[:800],
                                   n_problems=len(problems), samples=samples)))
