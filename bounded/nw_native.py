"""Runs under /venv/bin/python (C17, bounded stand-in for best_alignment and the needleman_wunsch wrapper).

All pairs of sequences over a small alphabet up to a length bound x substitution functions (default; dictionary based
with gap 1 / 0.5 / 2, max and min orientation) x traceback orders: the returned value must be the maximum total score over
all global alignments (independent exhaustive recursion), and the alignment rebuilt by best_alignment must consist of two
equal-length gapped sequences that reduce to the inputs, never align a gap with a gap, and score exactly the value.
usage: nw_native.py <repo> <seed> <n>      (n = 0: exhaustive up to length 3, else length bound 4 with n random extras)"""
import sys
import json
import itertools
import random

repo, seed, n = sys.argv[1], int(sys.argv[2]), int(sys.argv[3])
sys.path.insert(0, repo + '/src')
from dtaidistance import alignment  # noqa: E402

rng = random.Random(seed)
problems, samples = [], []
evaluations = 0
distinct = set()
GAP = '-'


def variants():
    yield 'default', None, (lambda a, b: 1 if a == b else -1), 1
    m = {('A', 'B'): 0.5, ('C', 'C'): 2}
    for gap in (1, 0.5, 2):
        def sc(a, b, m=m):
            if (a, b) in m:
                return m[(a, b)]
            if (b, a) in m:
                return m[(b, a)]
            return 1 if a == b else -1
        yield 'dict-max-gap%s' % gap, alignment.make_substitution_fn(m, gap=gap, opt='max'), sc, gap
    # a direction-dependent dictionary (both (a, b) and (b, a) present with different scores): the pair (s1 symbol, s2 symbol)
    # is looked up first, the mirrored pair only when it is absent
    md = {('A', 'B'): 2, ('B', 'A'): -3, ('A', 'A'): 1, ('C', 'B'): 0.5}

    def scd(a, b):
        if (a, b) in md:
            return md[(a, b)]
        if (b, a) in md:
            return md[(b, a)]
        return 1 if a == b else -1
    yield 'dict-directed-gap1', alignment.make_substitution_fn(md, gap=1, opt='max'), scd, 1
    # min orientation: the dictionary holds costs
    mc = {('A', 'B'): 0.25, ('C', 'C'): -2}

    def sc2(a, b):
        if (a, b) in mc:
            return -mc[(a, b)]
        if (b, a) in mc:
            return -mc[(b, a)]
        return 1 if a == b else -1
    yield 'dict-min-gap1', alignment.make_substitution_fn(mc, gap=1, opt='min'), sc2, 1
    yield 'gap-only-0.5', alignment.make_substitution_fn({}, gap=0.5), (lambda a, b: 1 if a == b else -1), 0.5


def best_score(s1, s2, score, gap):
    """maximum total score over all global alignments, by exhaustive recursion (no table)"""
    def f(i, j):
        if i == len(s1) and j == len(s2):
            return 0.0
        best = None
        if i < len(s1) and j < len(s2):
            best = score(s1[i], s2[j]) + f(i + 1, j + 1)
        if i < len(s1):
            v = -gap + f(i + 1, j)
            best = v if best is None or v > best else best
        if j < len(s2):
            v = -gap + f(i, j + 1)
            best = v if best is None or v > best else best
        return best
    return f(0, 0)


def check(s1, s2, vname, fn, score, gap, order):
    global evaluations
    try:
        value, scores, paths = alignment.needleman_wunsch(s1, s2, substitution=fn)
        algn, s1a, s2a = alignment.best_alignment(paths, s1, s2, gap=GAP, order=order)
    except Exception as e:      # noqa
        return 'raised %s: %s' % (type(e).__name__, str(e)[:80])
    evaluations += 1
    want = best_score(s1, s2, score, gap)
    if abs(float(value) - want) > 1e-9:
        return 'value %r is not the maximum alignment score %r' % (float(value), want)
    if len(s1a) != len(s2a):
        return 'aligned sequences differ in length: %r / %r' % (s1a, s2a)
    if [x for x in s1a if x != GAP] != list(s1) or [x for x in s2a if x != GAP] != list(s2):
        return 'aligned sequences do not reduce to the inputs: %r / %r' % (s1a, s2a)
    if any(x == GAP and y == GAP for x, y in zip(s1a, s2a)):
        return 'gap aligned with gap: %r / %r' % (s1a, s2a)
    tot = sum((-gap if (x == GAP or y == GAP) else score(x, y)) for x, y in zip(s1a, s2a))
    if abs(tot - float(value)) > 1e-9:
        return 'alignment %r / %r scores %r, returned value %r' % (s1a, s2a, tot, float(value))
    return None


ALPH = 'ABC'
maxlen = 3
seqs = [''.join(p) for L in range(0, maxlen + 1) for p in itertools.product(ALPH, repeat=L)]
pairs = [(a, b) for a in seqs for b in seqs]
if n:
    rng.shuffle(pairs)
    pairs = pairs[:n] + [(''.join(rng.choice(ALPH) for _ in range(rng.randint(3, 5))),
                          ''.join(rng.choice(ALPH) for _ in range(rng.randint(3, 5)))) for _ in range(n // 4)]
orders = [None, [1, 0, 2], [2, 1, 0], [0, 2, 1]]
for k, (s1, s2) in enumerate(pairs):
    for vname, fn, score, gap in variants():
        order = orders[k % len(orders)]
        distinct.add((len(s1), len(s2), vname))
        err = check(s1, s2, vname, fn, score, gap, order)
        if err:
            problems.append(dict(route=vname, s1=s1, s2=s2, gap=gap, order=order, what=err))
        elif len(samples) < 3:
            samples.append(dict(s1=s1, s2=s2, variant=vname, order=order))
print('@@JSON@@' + json.dumps(dict(evaluations=evaluations, distinct_nontrivial=len(distinct), problems=problems[:600],
                                   n_problems=len(problems), samples=samples)))
