"""Property-statement oracle for DTW on small shapes: enumerate *every* admissible warping path.

Straight from C01: paths start and end within the psi-relaxed corners, advance by (1,1), (1,0) or
(0,1), stay inside the window band, visit only pairs whose point distance does not exceed max_step;
cost = sum of point distances + penalty per non-diagonal step (both after inner_val).  Accumulation
order is the one both engines use (cell cost + (previous total [+ penalty])), so the comparison with
the real code is exact for the dyadic test values.  No dynamic programming is used here."""
import math

INF = float('inf')


def idist(metric, x, y):
    if isinstance(x, (list, tuple)):
        s = 0.0
        for a, b in zip(x, y):
            s = s + (a - b) * (a - b)
        return s if metric == 0 else math.sqrt(s)
    return (x - y) * (x - y) if metric == 0 else abs(x - y)


def inner_val(metric, v):
    return v * v if metric == 0 else v


def in_band(i, j, r, c, w):
    return i - max(0, r - c) - w < j < i + max(0, c - r) + w


def all_path_costs(s1, s2, window=None, penalty=None, max_step=None, psi=(0, 0, 0, 0), metric=0,
                   end=None):
    """dict end_pair -> minimal accumulated cost over all admissible paths ending at that pair
    (paths may start at any psi-relaxed start pair)."""
    r, c = len(s1), len(s2)
    w = max(r, c) if window is None else window
    pen = 0 if not penalty else inner_val(metric, penalty)
    mstep = INF if not max_step else inner_val(metric, max_step)
    p1b, p1e, p2b, p2e = psi
    best = {}

    def ok(i, j):
        return 0 <= i < r and 0 <= j < c and in_band(i, j, r, c, w) and not (idist(metric, s1[i], s2[j]) > mstep)

    def walk(i, j, acc):
        # acc: accumulated cost including pair (i, j)
        if acc < best.get((i, j), INF):
            best[(i, j)] = acc
        elif acc > best.get((i, j), INF) and False:
            return
        for di, dj, p in ((1, 1, 0), (1, 0, pen), (0, 1, pen)):
            a, b = i + di, j + dj
            if ok(a, b):
                walk(a, b, idist(metric, s1[a], s2[b]) + (acc + p))
    starts = [(0, j) for j in range(0, min(p2b, c - 1) + 1)] + [(i, 0) for i in range(1, min(p1b, r - 1) + 1)]
    for (i, j) in starts:
        if ok(i, j):
            walk(i, j, idist(metric, s1[i], s2[j]) + 0)
    return best


def dtw_oracle(s1, s2, window=None, penalty=None, max_step=None, psi=None, metric=0, max_length_diff=None):
    r, c = len(s1), len(s2)
    if max_length_diff is not None and abs(r - c) > max_length_diff:
        return INF
    if psi is None:
        psi = (0, 0, 0, 0)
    elif isinstance(psi, int):
        psi = (psi,) * 4
    best = all_path_costs(s1, s2, window, penalty, max_step, psi, metric)
    p1b, p1e, p2b, p2e = psi
    ends = [(r - 1, c - 1 - k) for k in range(0, min(p2e, c - 1) + 1)] + [(r - 1 - k, c - 1) for k in range(0, min(p1e, r - 1) + 1)]
    d = min([best.get(e, INF) for e in ends] + [INF])
    return math.sqrt(d) if (metric == 0 and d != INF) else d


def matrix_oracle(s1, s2, window=None, penalty=None, max_step=None, psi=None, metric=0):
    """(r+1) x (c+1) matrix of accumulated costs in the internal representation (before result_fn)."""
    r, c = len(s1), len(s2)
    if psi is None:
        psi = (0, 0, 0, 0)
    elif isinstance(psi, int):
        psi = (psi,) * 4
    best = all_path_costs(s1, s2, window, penalty, max_step, psi, metric)
    p1b, p1e, p2b, p2e = psi
    m = [[INF] * (c + 1) for _ in range(r + 1)]
    for j in range(0, min(p2b, c) + 1):
        m[0][j] = 0.0
    for i in range(0, min(p1b, r) + 1):
        m[i][0] = 0.0
    for (i, j), v in best.items():
        m[i + 1][j + 1] = v
    return m
