"""Bounded stand-ins on the real C engine (sanitizer build of the working tree, exact-size heap
buffers): cost matrix in the compact layout, expansion, slices, best path, direct warping path.
Every case is a chain of calls; any ASan/UBSan report is a C08 violation, value mismatches against
the path-enumeration oracle are C04 / C05 violations.  Labelled bounded, never counted as proved."""
import math
import random
from bounded.oracle import dtw_oracle, matrix_oracle, in_band, idist, inner_val, INF
from bounded.dtw_sweep import VALS, shapes, settings_space, c_settings, close


def fx(x):
    return {'f': float(x).hex()}


def gen_cases(run, max_len, per_shape):
    rng = random.Random(run.seed + 7)
    out = []
    for r, c in shapes(max_len):
        for nd in (1, 2):
            s1 = [[rng.choice(VALS) for _ in range(nd)] for _ in range(r)]
            s2 = [[rng.choice(VALS) for _ in range(nd)] for _ in range(c)]
            for (w, psi, pen, ms, metric) in settings_space(r, c, rng, full=False)[:per_shape]:
                out.append(dict(s1=s1, s2=s2, nd=nd, w=w, psi=psi, pen=pen, ms=ms, metric=metric))
    # witnesses of recorded findings are always part of the sweep (so a finding that no longer
    # manifests is noticed)
    for k in getattr(run, 'known_witness_cases', []) or []:
        out.append(dict(k))
    return out


def flat(s):
    return [fx(x) for p in s for x in p]


def chains(run, cases):
    """two phases: buffer sizes first, then the chains"""
    from dvc import creplay
    sizes = creplay.native_c_batch(run.program, [
        ('dd_dtw.c::dtw_settings_wps_length', dict(l1=len(k['s1']), l2=len(k['s2']),
                                                    settings=c_settings(k['w'], k['psi'], k['pen'], k['ms'], k['metric'])))
        for k in cases])
    results = []
    i = 0
    CH = 12
    while i < len(cases):
        part = cases[i:i + CH]
        calls = []
        for n, k in enumerate(part):
            idx = i + n
            if not sizes[idx] or not sizes[idx].get('ok'):
                continue
            L = sizes[idx]['result']
            l1, l2, nd = len(k['s1']), len(k['s2']), k['nd']
            st = c_settings(k['w'], k['psi'], k['pen'], k['ms'], k['metric'])
            base = dict(s1={'buf': flat(k['s1'])}, l1=l1, s2={'buf': flat(k['s2'])}, l2=l2)
            calls.append(('dd_dtw.c::dtw_warping_paths_ndim',
                          dict(base, wps={'buf': [fx(INF)] * L}, return_dtw=True, keep_int_repr=True, psi_neg=False,
                               ndim=nd, settings=st), 'wp%d' % idx))
            calls.append(('dd_dtw.c::dtw_warping_paths_ndim',
                          dict(base, wps={'buf': [fx(INF)] * L}, return_dtw=True, keep_int_repr=True, psi_neg=True,
                               ndim=nd, settings=st), 'wn%d' % idx))
            calls.append(('dd_dtw.c::dtw_best_path',
                          dict(wps={'ref': ['wn%d' % idx, 'wps']}, i1={'buf': [0] * (l1 + l2), 'elem': 'long'},
                               i2={'buf': [0] * (l1 + l2), 'elem': 'long'}, l1=l1, l2=l2, settings=st), 'bp%d' % idx))
            calls.append(('dd_dtw.c::dtw_expand_wps',
                          dict(wps={'ref': ['wp%d' % idx, 'wps']}, full={'buf': [fx(-9.0)] * ((l1 + 1) * (l2 + 1))},
                               l1=l1, l2=l2, settings=st), 'ex%d' % idx))
            rb, cb = idx % (l1 + 1), (idx // 3) % (l2 + 1)
            re, ce = min(l1 + 1, rb + 1 + idx % 3), min(l2 + 1, cb + 1 + idx % 2)
            calls.append(('dd_dtw.c::dtw_expand_wps_slice',
                          dict(wps={'ref': ['wp%d' % idx, 'wps']}, full={'buf': [fx(-9.0)] * ((re - rb) * (ce - cb))},
                               l1=l1, l2=l2, rb=rb, re=re, cb=cb, ce=ce, settings=st), 'sl%d' % idx))
            # a slice that starts at row 0 but not at column 0
            calls.append(('dd_dtw.c::dtw_expand_wps_slice',
                          dict(wps={'ref': ['wp%d' % idx, 'wps']}, full={'buf': [fx(-9.0)] * (min(2, l1 + 1) * l2)},
                               l1=l1, l2=l2, rb=0, re=min(2, l1 + 1), cb=1, ce=l2 + 1, settings=st), 's0%d' % idx))
            calls.append(('dd_dtw.c::dtw_warping_path_ndim',
                          dict(from_s={'buf': flat(k['s1'])}, from_l=l1, to_s={'buf': flat(k['s2'])}, to_l=l2,
                               from_i={'buf': [0] * (l1 + l2), 'elem': 'long'}, to_i={'buf': [0] * (l1 + l2), 'elem': 'long'},
                               length_i={'buf': [0], 'elem': 'long'}, ndim=nd, settings=st), 'pa%d' % idx))
        outs = creplay.native_c_batch(run.program, calls)
        crashed = None
        for (cname, args, cid), o in zip(calls, outs):
            if o is None:
                continue
            results.append((cid, cname, args, o))
            if not o.get('ok'):
                crashed = int(cid[2:])
        if crashed is not None and crashed + 1 > i:
            # restart after the crashing case
            i = crashed + 1
        else:
            i += CH
    return results


def ser(k):
    if k['nd'] == 1:
        return [p[0] for p in k['s1']], [p[0] for p in k['s2']]
    return k['s1'], k['s2']


def check_path(k, rows, cols, n, dist_c):
    """C05: contiguous monotone path in the band, psi-relaxed corners, cost equals the distance"""
    s1, s2 = ser(k)
    r, c = len(s1), len(s2)
    w = max(r, c) if k['w'] is None else k['w']
    psi = k['psi'] or (0, 0, 0, 0)
    if isinstance(psi, int):
        psi = (psi,) * 4
    if dist_c == INF:
        return None          # no admissible path: nothing to trace
    if n <= 0:
        return 'empty path for a finite distance'
    pairs = list(zip(rows[:n], cols[:n]))
    # the C routines fill the index arrays from the end of the alignment backwards and return them in
    # increasing order of time
    if pairs != sorted(pairs):
        pairs = pairs[::-1]
    for (a, b), (a2, b2) in zip(pairs, pairs[1:]):
        if (a2 - a, b2 - b) not in ((1, 1), (1, 0), (0, 1)):
            return 'step %s -> %s' % ((a, b), (a2, b2))
    for (a, b) in pairs:
        if not (0 <= a < r and 0 <= b < c) or not in_band(a, b, r, c, w):
            return 'pair %s outside the band' % ((a, b),)
    a0, b0 = pairs[0]
    if not ((a0 == 0 and b0 <= psi[2]) or (b0 == 0 and a0 <= psi[0])):
        return 'start %s outside the psi-relaxed corner' % ((a0, b0),)
    a1, b1 = pairs[-1]
    if not ((a1 == r - 1 and b1 >= c - 1 - psi[3]) or (b1 == c - 1 and a1 >= r - 1 - psi[1])):
        return 'end %s outside the psi-relaxed corner' % ((a1, b1),)
    pen = 0 if not k['pen'] else inner_val(k['metric'], k['pen'])
    acc = None
    for n_, (a, b) in enumerate(pairs):
        d = idist(k['metric'], s1[a], s2[b])
        if acc is None:
            acc = d
        else:
            pa, pb = pairs[n_ - 1]
            acc = d + (acc + (0 if (a - pa, b - pb) == (1, 1) else pen))
    if not close(acc, dist_c):
        return 'cost along the path %r differs from the reported (internal) distance %r' % (acc, dist_c)
    return None


def sweep_c_matrices(run, props=('C04', 'C05', 'C08')):
    quick = run.tier == 'quick'
    cached = getattr(run, '_c_matrix_sweep', None)
    if cached is not None:
        return cached
    cases = gen_cases(run, 4 if quick else 5, 5 if quick else 14)
    res = chains(run, cases)
    by = {}
    for cid, cname, args, o in res:
        by.setdefault(int(cid[2:]), {})[cid[:2]] = (cname, args, o)
    violations = {p: [] for p in ('C04', 'C05', 'C08')}
    evaluations = 0
    samples = []
    for idx, d in sorted(by.items()):
        k = cases[idx]
        s1, s2 = ser(k)
        evaluations += len(d)
        for tag, (cname, args, o) in d.items():
            if not o.get('ok'):
                violations['C08'].append(dict(function=cname, failing_input=args, native_outcome=o, case=k,
                                              what='sanitizer report in %s' % cname))
        if 'wp' not in d or not d['wp'][2].get('ok'):
            continue
        dist_c = float.fromhex(d['wp'][2]['result']['f'])
        exp = dtw_oracle(s1, s2, k['w'], k['pen'], k['ms'], k['psi'], k['metric'])
        exp_int = exp * exp if (k['metric'] == 0 and exp != INF) else exp
        if not close(dist_c, exp_int) and not close(math.sqrt(dist_c) if dist_c not in (INF,) and dist_c >= 0 else dist_c, exp):
            violations['C04'].append(dict(function='dd_dtw.c::dtw_warping_paths_ndim', failing_input=d['wp'][1], case=k,
                                          oracle=exp_int, engine=dist_c, what='returned distance differs from the path optimum'))
        if 'ex' in d and d['ex'][2].get('ok'):
            full = [float.fromhex(x['f']) for x in d['ex'][2]['args_after']['full']['buf']]
            mo = matrix_oracle(s1, s2, k['w'], k['pen'], k['ms'], k['psi'], k['metric'])
            r, c = len(s1), len(s2)
            for a in range(r + 1):
                for b in range(c + 1):
                    got = full[a * (c + 1) + b]
                    want = mo[a][b]
                    if a >= 1 and b >= 1 and not close(got, want):
                        violations['C04'].append(dict(function='dd_dtw.c::dtw_expand_wps', failing_input=d['wp'][1], case=k,
                                                      cell=[a, b], oracle=want, engine=got,
                                                      what='expanded cost matrix cell differs from the optimum of partial paths'))
                        break
                else:
                    continue
                break
        if 'bp' in d and d['bp'][2].get('ok'):
            o = d['bp'][2]
            n = o['result']
            err = check_path(k, o['args_after']['i1']['buf'], o['args_after']['i2']['buf'], n, dist_c)
            if err:
                violations['C05'].append(dict(function='dd_dtw.c::dtw_best_path', failing_input=d['wp'][1], case=k, what=err,
                                              path=[o['args_after']['i1']['buf'][:n], o['args_after']['i2']['buf'][:n]]))
        if 'pa' in d and d['pa'][2].get('ok'):
            o = d['pa'][2]
            n = o['args_after']['length_i']['buf'][0]
            dpa = float.fromhex(o['result']['f'])
            dint = dpa * dpa if (k['metric'] == 0 and dpa != INF) else dpa
            if not close(dpa, exp):
                violations['C05'].append(dict(function='dd_dtw.c::dtw_warping_path_ndim', failing_input=d['pa'][1], case=k,
                                              oracle=exp, engine=dpa, what='distance returned with the path differs from the path optimum'))
            else:
                err = check_path(k, o['args_after']['from_i']['buf'], o['args_after']['to_i']['buf'], n, dint)
                if err:
                    violations['C05'].append(dict(function='dd_dtw.c::dtw_warping_path_ndim', failing_input=d['pa'][1], case=k, what=err,
                                                  path=[o['args_after']['from_i']['buf'][:n], o['args_after']['to_i']['buf'][:n]]))
        if len(samples) < 4:
            samples.append(dict(case=k, c_distance_internal=dist_c, oracle=exp))
    out = {}
    for p in props:
        out[p] = dict(evaluations=evaluations, distinct_nontrivial=len(by),
                      rule='chains wps_length -> warping_paths_ndim (compact, exact-size) -> best_path / expand_wps / '
                           'expand_wps_slice / warping_path_ndim on all shapes <= bound, ndim 1..2, sampled settings',
                      bound='lengths <= %d' % (4 if quick else 5), samples=samples, violations=violations[p],
                      n_violations=len(violations[p]), label='bounded')
    run._c_matrix_sweep = out
    return out


# ---------------------------------------------------------------------------------------------
# Larger shapes (the band regions C and D of the compact layout need l > 2*window): same chains, judged
# against the accumulated-cost recurrence W itself (specs/dtw.py PyCtx -- the definition dtw.warping_paths
# is proved to compute and that Bellman.lean proves optimal), which is polynomial where the path
# enumeration oracle is not.
def gen_large_cases(run, n, lo=4, hi=9):
    rng = random.Random(run.seed + 11)
    out = []
    for _ in range(n):
        r, c = rng.randint(lo, hi), rng.randint(lo, hi)
        if rng.random() < 0.3:
            c = r
        nd = rng.choice([1, 1, 1, 2])
        s1 = [[rng.choice(VALS) for _ in range(nd)] for _ in range(r)]
        s2 = [[rng.choice(VALS) for _ in range(nd)] for _ in range(c)]
        w = rng.choice([1, 2, 2, 3, 4, None])
        pen = rng.choice([None, 0.5, 2.0, 0.5])
        ms = rng.choice([None, None, 2.5])
        psi = None
        if rng.random() < 0.2:
            psi = (rng.randint(0, 2), rng.randint(0, 2), rng.randint(0, 2), rng.randint(0, 2))
        out.append(dict(s1=s1, s2=s2, nd=nd, w=w, psi=psi, pen=pen, ms=ms, metric=rng.choice([0, 0, 1])))
    return out


def w_oracle(k):
    from specs.dtw import PyCtx
    r, c, nd, m = len(k['s1']), len(k['s2']), k['nd'], k['metric']
    adj = (lambda x: x * x) if m == 0 else (lambda x: x)
    psi = k['psi'] or (0, 0, 0, 0)
    a1 = [x for p in k['s1'] for x in p]
    a2 = [x for p in k['s2'] for x in p]
    ctx = PyCtx(a1, r, a2, c, max(r, c) if k['w'] is None else k['w'], adj(k['pen']) if k['pen'] else 0.0,
                adj(k['ms']) if k['ms'] else INF, psi[0], psi[2], m, nd if nd > 1 else 0, 'c')
    if nd == 1:
        ctx.a1, ctx.a2 = a1, a2
    return ctx, psi


def sweep_c_matrices_large(run, props=('C04', 'C08')):
    quick = run.tier == 'quick'
    cached = getattr(run, '_c_matrix_large', None)
    if cached is not None:
        return cached
    cases = gen_large_cases(run, 160 if quick else 1600)
    res = chains(run, cases)
    by = {}
    for cid, cname, args, o in res:
        by.setdefault(int(cid[2:]), {})[cid[:2]] = (cname, args, o)
    violations = {p: [] for p in ('C04', 'C08')}
    evaluations = 0
    samples = []
    for idx, d in sorted(by.items()):
        k = cases[idx]
        evaluations += len(d)
        for tag, (cname, args, o) in d.items():
            if not o.get('ok'):
                violations['C08'].append(dict(function=cname, failing_input=args, native_outcome=o, case=k,
                                              what='sanitizer report in %s' % cname))
        if 'wp' not in d or not d['wp'][2].get('ok'):
            continue
        ctx, psi = w_oracle(k)
        r, c = ctx.r, ctx.c
        dist_c = float.fromhex(d['wp'][2]['result']['f'])
        want = ctx.dend(psi[1], psi[3])
        if not close(dist_c, want):
            violations['C04'].append(dict(function='dd_dtw.c::dtw_warping_paths_ndim', failing_input=d['wp'][1], case=k,
                                          oracle=want, engine=dist_c, what='returned distance differs from the recurrence optimum'))
        if 'ex' in d and d['ex'][2].get('ok'):
            full = [float.fromhex(x['f']) for x in d['ex'][2]['args_after']['full']['buf']]
            bad = None
            for a in range(1, r + 1):
                for b in range(1, c + 1):
                    if not close(full[a * (c + 1) + b], ctx.W(a, b)):
                        bad = (a, b)
                        break
                if bad:
                    break
            if bad:
                a, b = bad
                violations['C04'].append(dict(function='dd_dtw.c::dtw_expand_wps', failing_input=d['wp'][1], case=k, cell=[a, b],
                                              oracle=ctx.W(a, b), engine=full[a * (c + 1) + b],
                                              what='expanded cost matrix cell differs from the optimum of partial paths'))
        if len(samples) < 3:
            samples.append(dict(case=k, c_distance_internal=dist_c, oracle=want))
    out = {}
    for p in props:
        out[p] = dict(evaluations=evaluations, distinct_nontrivial=len(by),
                      rule='the same chains on random larger shapes (regions C/D of the compact layout), small windows, penalty, '
                           'max_step, some psi; distance and every expanded cell against the accumulated-cost recurrence W',
                      bound='lengths 4..9, %d random cases' % len(cases), samples=samples, violations=violations[p],
                      n_violations=len(violations[p]), label='bounded')
    run._c_matrix_large = out
    return out


# ---------------------------------------------------------------------------------------------
# Affinity family and the compact-matrix helpers (C08 sanitizer coverage, C18 values): chains
#   wps_parts / wps_length -> warping_paths_affinity_ndim -> expand_wps_affinity -> wps_max -> best_path_affinity
#   -> wps_negativize_value / wps_negativize / wps_positivize -> expand_wps_slice_affinity (row 0 based)
# judged against the affinity recurrence A of specs/affinity.py (PyACtx, libm exp up to 1e-9).
def gen_affinity_cases(run, n):
    rng = random.Random(run.seed + 13)
    out = []
    for _ in range(n):
        r, c = rng.randint(1, 7), rng.randint(1, 7)
        if rng.random() < 0.3:
            c = r
        out.append(dict(s1=[rng.choice(VALS) for _ in range(r)], s2=[rng.choice(VALS) for _ in range(c)],
                        w=rng.choice([None, None, 1, 2, 3]), triu=rng.random() < 0.3, pen=rng.choice([0.0, 1.0, 0.0]),
                        gamma=rng.choice([1.0, 0.5, 2.0]), tau=rng.choice([0.0, 0.3, 0.6]), delta=rng.choice([0.0, -0.2, -1.2]),
                        dfac=rng.choice([1.0, 0.5, 0.9]), metric=0))
    return out


def sweep_c_affinity(run, props=('C08', 'C18')):
    from dvc import creplay
    from specs.affinity import PyACtx
    quick = run.tier == 'quick'
    cached = getattr(run, '_c_affinity', None)
    if cached is not None:
        return cached
    cases = gen_affinity_cases(run, 120 if quick else 1200)
    sts = [c_settings(k['w'], None, k['pen'], None, k['metric']) for k in cases]
    sizes = creplay.native_c_batch(run.program, [('dd_dtw.c::dtw_settings_wps_length',
                                                  dict(l1=len(k['s1']), l2=len(k['s2']), settings=st)) for k, st in zip(cases, sts)])
    parts = creplay.native_c_batch(run.program, [('dd_dtw.c::dtw_wps_parts',
                                                  dict(l1=len(k['s1']), l2=len(k['s2']), settings=st)) for k, st in zip(cases, sts)])
    violations = {p: [] for p in ('C08', 'C18')}
    evaluations = 0
    samples = []
    NINF = float('-inf')
    for idx, (k, st) in enumerate(zip(cases, sts)):
        if not sizes[idx] or not sizes[idx].get('ok') or not parts[idx] or not parts[idx].get('ok'):
            violations['C08'].append(dict(function='dd_dtw.c::dtw_wps_parts', failing_input=dict(case=k), case=k,
                                          native_outcome=parts[idx] or sizes[idx], what='sanitizer report in dtw_wps_parts / wps_length'))
            continue
        L = sizes[idx]['result']
        P = {'struct': parts[idx]['result']['struct']}
        l1, l2 = len(k['s1']), len(k['s2'])
        base = dict(s1={'buf': [fx(x) for x in k['s1']]}, l1=l1, s2={'buf': [fx(x) for x in k['s2']]}, l2=l2)
        lbuf = lambda n_: {'buf': [0] * n_, 'elem': 'long'}      # noqa: E731
        calls = [
            ('dd_dtw.c::dtw_warping_paths_affinity_ndim',
             dict(base, wps={'buf': [fx(NINF)] * L}, return_dtw=True, keep_int_repr=True, psi_neg=False, only_triu=k['triu'], ndim=1,
                  gamma=fx(k['gamma']), tau=fx(k['tau']), delta=fx(k['delta']), delta_factor=fx(k['dfac']), settings=st), 'w'),
            ('dd_dtw.c::dtw_expand_wps_affinity',
             dict(wps={'ref': ['w', 'wps']}, full={'buf': [fx(-9.0)] * ((l1 + 1) * (l2 + 1))}, l1=l1, l2=l2, settings=st), 'e'),
            ('dd_dtw.c::dtw_expand_wps_slice_affinity',
             dict(wps={'ref': ['w', 'wps']}, full={'buf': [fx(-9.0)] * ((l1 + 1) * (l2 + 1))}, l1=l1, l2=l2, rb=0, re=l1 + 1, cb=0,
                  ce=l2 + 1, settings=st), 's'),
            ('dd_dtw.c::dtw_wps_max', dict(p=P, wps={'ref': ['w', 'wps']}, r=lbuf(1), c=lbuf(1), l1=l1, l2=l2), 'm'),
            ('dd_dtw.c::dtw_best_path_affinity',
             dict(wps={'ref': ['w', 'wps']}, i1=lbuf(l1 + l2), i2=lbuf(l1 + l2), l1=l1, l2=l2, rs=l1, cs=l2, settings=st), 'b'),
            ('dd_dtw.c::dtw_wps_negativize_value', dict(p=P, wps={'ref': ['w', 'wps']}, l1=l1, l2=l2, r=l1, c=l2), 'n'),
            ('dd_dtw.c::dtw_wps_negativize', dict(p=P, wps={'ref': ['w', 'wps']}, l1=l1, l2=l2, rb=idx % (l1 + 1), re=l1 + 1,
                                                  cb=(idx // 2) % (l2 + 1), ce=l2 + 1, intersection=bool(idx % 2)), 'g'),
            ('dd_dtw.c::dtw_wps_positivize', dict(p=P, wps={'ref': ['g', 'wps']}, l1=l1, l2=l2, rb=0, re=l1 + 1, cb=0, ce=l2 + 1,
                                                  intersection=False), 'q'),
        ]
        for rr in range(0, l1 + 1, max(1, l1)):
            for cc in range(0, l2 + 1, max(1, l2)):
                calls.append(('dd_dtw.c::dtw_wps_loc', dict(p=P, r=rr, c=cc, l1=l1, l2=l2), 'l%d_%d' % (rr, cc)))
        outs = creplay.native_c_batch(run.program, calls)
        res = {}
        for (cname, args, cid), o in zip(calls, outs):
            if o is None:
                continue
            evaluations += 1
            res[cid] = o
            if not o.get('ok'):
                violations['C08'].append(dict(function=cname, failing_input=args, native_outcome=o, case=k,
                                              what='sanitizer report in %s' % cname))
        # values: the expanded matrix against the recurrence
        ctx = PyACtx(k['s1'], l1, k['s2'], l2, max(l1, l2) if k['w'] is None else k['w'], k['pen'], k['gamma'], k['tau'],
                     k['delta'], k['dfac'], 0, 0, k['triu'])

        def judge(tag, fn):
            o = res.get(tag)
            if not o or not o.get('ok'):
                return
            full = [float.fromhex(x['f']) for x in o['args_after']['full']['buf']]
            for a in range(1, l1 + 1):
                for b in range(1, l2 + 1):
                    got, want = full[a * (l2 + 1) + b], ctx.A(a, b)
                    if not (got == want or (abs(got) != INF and abs(want) != INF and abs(got - want) <= 1e-9 * max(1.0, abs(want)))):
                        violations['C18'].append(dict(function=fn, failing_input=calls[0][1], case=k, cell=[a, b], oracle=want, engine=got,
                                                      what='expanded affinity matrix cell differs from the recurrence'))
                        return
        judge('e', 'dd_dtw.c::dtw_expand_wps_affinity')
        judge('s', 'dd_dtw.c::dtw_expand_wps_slice_affinity')
        o = res.get('w')
        if o and o.get('ok'):
            got, want = float.fromhex(o['result']['f']), ctx.A(l1, l2)
            if not (got == want or abs(got - want) <= 1e-9 * max(1.0, abs(want))):
                violations['C18'].append(dict(function='dd_dtw.c::dtw_warping_paths_affinity_ndim', failing_input=calls[0][1], case=k,
                                              oracle=want, engine=got, what='returned value differs from the recurrence A(l1, l2)'))
        # dtw_wps_max: the reported cell holds the maximum of the matrix
        om, oe = res.get('m'), res.get('e')
        if om and om.get('ok') and oe and oe.get('ok'):
            full = [float.fromhex(x['f']) for x in oe['args_after']['full']['buf']]
            cells = [(full[a * (l2 + 1) + b], a, b) for a in range(1, l1 + 1) for b in range(1, l2 + 1)]
            best = max(v for v, _, _ in cells)
            r_, c_ = om['args_after']['r']['buf'][0], om['args_after']['c']['buf'][0]
            if best > 0 and not (1 <= r_ <= l1 and 1 <= c_ <= l2 and abs(full[r_ * (l2 + 1) + c_] - best) <= 1e-12 * max(1.0, best)):
                violations['C18'].append(dict(function='dd_dtw.c::dtw_wps_max', failing_input=calls[3][1], case=k, cell=[r_, c_], oracle=best,
                                              what='dtw_wps_max reports cell (%s, %s), which does not hold the maximum %r of the matrix' % (r_, c_, best)))
        # the traced path: contiguous, monotone, through positive cells
        o = res.get('b')
        if o and o.get('ok'):
            n_ = o['result']
            pairs = list(zip(o['args_after']['i1']['buf'][:n_], o['args_after']['i2']['buf'][:n_]))
            if pairs != sorted(pairs):
                pairs = pairs[::-1]
            err = None
            for (a, b), (a2, b2) in zip(pairs, pairs[1:]):
                if (a2 - a, b2 - b) not in ((1, 1), (1, 0), (0, 1)):
                    err = 'step %s -> %s' % ((a, b), (a2, b2))
            for (a, b) in pairs:
                if not (0 <= a < l1 and 0 <= b < l2):
                    err = 'pair %s outside the matrix' % ((a, b),)
                elif not ctx.A(a + 1, b + 1) > 0:
                    err = 'pair %s is not a positive cell' % ((a, b),)
            if err:
                violations['C18'].append(dict(function='dd_dtw.c::dtw_best_path_affinity', failing_input=calls[4][1], case=k,
                                              path=pairs, what='traced match: ' + err))
        if len(samples) < 3:
            samples.append(dict(case=k, value=res.get('w', {}).get('result')))
    out = {}
    for p in props:
        out[p] = dict(evaluations=evaluations, distinct_nontrivial=len(cases),
                      rule='chains wps_parts/wps_length -> warping_paths_affinity_ndim (compact, exact-size) -> expand_wps_affinity / '
                           'expand_wps_slice_affinity / wps_max / best_path_affinity / wps_negativize(_value) / wps_positivize / wps_loc, '
                           'random shapes <= 7, window, only_triu, penalty in {0,1}; values against the affinity recurrence',
                      bound='lengths <= 7, %d random cases' % len(cases), samples=samples, violations=violations[p],
                      n_violations=len(violations[p]), label='bounded')
    run._c_affinity = out
    return out


# ---------------------------------------------------------------------------------------------
# Barycenter update (C08: sanitizer; C12: one averaging step against the mean along an optimal path when it is unique)
def gen_dba_cases(run, n):
    rng = random.Random(run.seed + 17)
    out = []
    for _ in range(n):
        nd = rng.choice([1, 1, 2, 3])
        ns = rng.randint(1, 5)
        equal = rng.random() < 0.4
        ln = rng.randint(1, 6)
        series = [[[rng.choice(VALS) for _ in range(nd)] for _ in range(ln if equal else rng.randint(1, 6))] for _ in range(ns)]
        mask = [rng.random() < 0.7 for _ in range(ns)]
        if not any(mask):
            mask[rng.randrange(ns)] = True
        t = rng.randint(1, 6)
        c = [[rng.choice(VALS) for _ in range(nd)] for _ in range(t)]
        out.append(dict(series=series, mask=mask, c=c, nd=nd, equal=equal, w=rng.choice([None, None, 1, 2, 3]),
                        pen=rng.choice([None, None, 0.5]), psi=rng.choice([None, None, None, 1])))
    return out


def sweep_c_dba(run, props=('C08',)):
    from dvc import creplay
    quick = run.tier == 'quick'
    cached = getattr(run, '_c_dba', None)
    if cached is not None:
        return cached
    cases = gen_dba_cases(run, 150 if quick else 1500)
    violations = {'C08': []}
    evaluations = 0
    calls = []
    for idx, k in enumerate(cases):
        nd = k['nd']
        psi = k['psi']
        if psi is not None:
            m = min([len(s) for s in k['series']] + [len(k['c'])])
            psi = min(psi, m)
        st = c_settings(k['w'], psi, k['pen'], None, 0)
        mask_bytes = [0] * ((len(k['mask']) + 7) // 8)
        for i, b in enumerate(k['mask']):
            if b:
                mask_bytes[i // 8] |= 1 << (i % 8)
        cbuf = {'buf': [fx(x) for p in k['c'] for x in p]}
        calls.append(('dd_dtw.c::dtw_dba_ptrs',
                      dict(ptrs={'bufs': [[fx(x) for p in s for x in p] for s in k['series']]}, nb_ptrs=len(k['series']),
                           lengths={'buf': [len(s) for s in k['series']], 'elem': 'long'}, c=cbuf, t=len(k['c']),
                           mask={'buf': mask_bytes, 'elem': 'uchar'}, prob_samples=0, ndim=nd, settings=st), 'p%d' % idx))
        if k['equal']:
            calls.append(('dd_dtw.c::dtw_dba_matrix',
                          dict(matrix={'buf': [fx(x) for s in k['series'] for p in s for x in p]}, nb_rows=len(k['series']),
                               nb_cols=len(k['series'][0]), c=cbuf, t=len(k['c']), mask={'buf': mask_bytes, 'elem': 'uchar'},
                               prob_samples=0, ndim=nd, settings=st), 'm%d' % idx))
    i = 0
    while i < len(calls):
        part = calls[i:i + 20]
        outs = creplay.native_c_batch(run.program, part)
        adv = len(part)
        for n_, ((cname, args, cid), o) in enumerate(zip(part, outs)):
            if o is None:
                adv = n_          # the batch stopped at the call before (sanitizer abort): resume after it
                break
            evaluations += 1
            if not o.get('ok'):
                violations['C08'].append(dict(function=cname, failing_input=args, native_outcome=o, case=cases[int(cid[1:])],
                                              what='sanitizer report in %s' % cname))
                adv = n_ + 1
                break
        i += max(1, adv)
    out = {'C08': dict(evaluations=evaluations, distinct_nontrivial=len(cases),
                       rule='dtw_dba_ptrs / dtw_dba_matrix on random collections (1..5 series, lengths 1..6, ndim 1..3, masks, window, '
                            'penalty, psi) with exact-size buffers under ASan/UBSan',
                       bound='lengths <= 6, %d random cases' % len(cases), samples=[dict(case=cases[0])], violations=violations['C08'],
                       n_violations=len(violations['C08']), label='bounded')}
    run._c_dba = out
    return out


def sweep_c_dba_for(run, prop):
    """the sanitizer sweep of the barycenter routines, reported under another property id"""
    return sweep_c_dba(run)['C08']
