"""Bounded stand-ins on the real C engine (sanitizer build of the working tree, exact-size heap
buffers): cost matrix in the compact layout, expansion, slices, best path, direct warping path.
Every case is a chain of calls; any ASan/UBSan report is a C08 violation, value mismatches against
the path-enumeration oracle are C04 / C05 violations.  Labelled bounded, never counted as proved."""
import math
import random
from bounded.oracle import dtw_oracle, matrix_oracle, in_band, idist, inner_val, INF
from bounded.dtw_sweep import VALS, shapes, settings_space, c_settings, close


def fx(x):
    return {'f': float(x).hex()}


def gen_cases(run, max_len, per_shape):
    rng = random.Random(run.seed + 7)
    out = []
    for r, c in shapes(max_len):
        for nd in (1, 2):
            s1 = [[rng.choice(VALS) for _ in range(nd)] for _ in range(r)]
            s2 = [[rng.choice(VALS) for _ in range(nd)] for _ in range(c)]
            for (w, psi, pen, ms, metric) in settings_space(r, c, rng, full=False)[:per_shape]:
                out.append(dict(s1=s1, s2=s2, nd=nd, w=w, psi=psi, pen=pen, ms=ms, metric=metric))
    # witnesses of recorded findings are always part of the sweep (so a finding that no longer
    # manifests is noticed)
    for k in getattr(run, 'known_witness_cases', []) or []:
        out.append(dict(k))
    return out


def flat(s):
    return [fx(x) for p in s for x in p]


def chains(run, cases):
    """two phases: buffer sizes first, then the chains"""
    from dvc import creplay
    sizes = creplay.native_c_batch(run.program, [
        ('dd_dtw.c::dtw_settings_wps_length', dict(l1=len(k['s1']), l2=len(k['s2']),
                                                    settings=c_settings(k['w'], k['psi'], k['pen'], k['ms'], k['metric'])))
        for k in cases])
    results = []
    i = 0
    CH = 12
    while i < len(cases):
        part = cases[i:i + CH]
        calls = []
        for n, k in enumerate(part):
            idx = i + n
            if not sizes[idx] or not sizes[idx].get('ok'):
                continue
            L = sizes[idx]['result']
            l1, l2, nd = len(k['s1']), len(k['s2']), k['nd']
            st = c_settings(k['w'], k['psi'], k['pen'], k['ms'], k['metric'])
            base = dict(s1={'buf': flat(k['s1'])}, l1=l1, s2={'buf': flat(k['s2'])}, l2=l2)
            calls.append(('dd_dtw.c::dtw_warping_paths_ndim',
                          dict(base, wps={'buf': [fx(INF)] * L}, return_dtw=True, keep_int_repr=True, psi_neg=False,
                               ndim=nd, settings=st), 'wp%d' % idx))
            calls.append(('dd_dtw.c::dtw_warping_paths_ndim',
                          dict(base, wps={'buf': [fx(INF)] * L}, return_dtw=True, keep_int_repr=True, psi_neg=True,
                               ndim=nd, settings=st), 'wn%d' % idx))
            calls.append(('dd_dtw.c::dtw_best_path',
                          dict(wps={'ref': ['wn%d' % idx, 'wps']}, i1={'buf': [0] * (l1 + l2), 'elem': 'long'},
                               i2={'buf': [0] * (l1 + l2), 'elem': 'long'}, l1=l1, l2=l2, settings=st), 'bp%d' % idx))
            calls.append(('dd_dtw.c::dtw_expand_wps',
                          dict(wps={'ref': ['wp%d' % idx, 'wps']}, full={'buf': [fx(-9.0)] * ((l1 + 1) * (l2 + 1))},
                               l1=l1, l2=l2, settings=st), 'ex%d' % idx))
            rb, cb = idx % (l1 + 1), (idx // 3) % (l2 + 1)
            re, ce = min(l1 + 1, rb + 1 + idx % 3), min(l2 + 1, cb + 1 + idx % 2)
            calls.append(('dd_dtw.c::dtw_expand_wps_slice',
                          dict(wps={'ref': ['wp%d' % idx, 'wps']}, full={'buf': [fx(-9.0)] * ((re - rb) * (ce - cb))},
                               l1=l1, l2=l2, rb=rb, re=re, cb=cb, ce=ce, settings=st), 'sl%d' % idx))
            calls.append(('dd_dtw.c::dtw_warping_path_ndim',
                          dict(from_s={'buf': flat(k['s1'])}, from_l=l1, to_s={'buf': flat(k['s2'])}, to_l=l2,
                               from_i={'buf': [0] * (l1 + l2), 'elem': 'long'}, to_i={'buf': [0] * (l1 + l2), 'elem': 'long'},
                               length_i={'buf': [0], 'elem': 'long'}, ndim=nd, settings=st), 'pa%d' % idx))
        outs = creplay.native_c_batch(run.program, calls)
        crashed = None
        for (cname, args, cid), o in zip(calls, outs):
            if o is None:
                continue
            results.append((cid, cname, args, o))
            if not o.get('ok'):
                crashed = int(cid[2:])
        if crashed is not None and crashed + 1 > i:
            # restart after the crashing case
            i = crashed + 1
        else:
            i += CH
    return results


def ser(k):
    if k['nd'] == 1:
        return [p[0] for p in k['s1']], [p[0] for p in k['s2']]
    return k['s1'], k['s2']


def check_path(k, rows, cols, n, dist_c):
    """C05: contiguous monotone path in the band, psi-relaxed corners, cost equals the distance"""
    s1, s2 = ser(k)
    r, c = len(s1), len(s2)
    w = max(r, c) if k['w'] is None else k['w']
    psi = k['psi'] or (0, 0, 0, 0)
    if isinstance(psi, int):
        psi = (psi,) * 4
    if dist_c == INF:
        return None          # no admissible path: nothing to trace
    if n <= 0:
        return 'empty path for a finite distance'
    pairs = list(zip(rows[:n], cols[:n]))
    # the C routines fill the index arrays from the end of the alignment backwards and return them in
    # increasing order of time
    if pairs != sorted(pairs):
        pairs = pairs[::-1]
    for (a, b), (a2, b2) in zip(pairs, pairs[1:]):
        if (a2 - a, b2 - b) not in ((1, 1), (1, 0), (0, 1)):
            return 'step %s -> %s' % ((a, b), (a2, b2))
    for (a, b) in pairs:
        if not (0 <= a < r and 0 <= b < c) or not in_band(a, b, r, c, w):
            return 'pair %s outside the band' % ((a, b),)
    a0, b0 = pairs[0]
    if not ((a0 == 0 and b0 <= psi[2]) or (b0 == 0 and a0 <= psi[0])):
        return 'start %s outside the psi-relaxed corner' % ((a0, b0),)
    a1, b1 = pairs[-1]
    if not ((a1 == r - 1 and b1 >= c - 1 - psi[3]) or (b1 == c - 1 and a1 >= r - 1 - psi[1])):
        return 'end %s outside the psi-relaxed corner' % ((a1, b1),)
    pen = 0 if not k['pen'] else inner_val(k['metric'], k['pen'])
    acc = None
    for n_, (a, b) in enumerate(pairs):
        d = idist(k['metric'], s1[a], s2[b])
        if acc is None:
            acc = d
        else:
            pa, pb = pairs[n_ - 1]
            acc = d + (acc + (0 if (a - pa, b - pb) == (1, 1) else pen))
    if not close(acc, dist_c):
        return 'cost along the path %r differs from the reported (internal) distance %r' % (acc, dist_c)
    return None


def sweep_c_matrices(run, props=('C04', 'C05', 'C08')):
    quick = run.tier == 'quick'
    cached = getattr(run, '_c_matrix_sweep', None)
    if cached is not None:
        return cached
    cases = gen_cases(run, 4 if quick else 5, 5 if quick else 14)
    res = chains(run, cases)
    by = {}
    for cid, cname, args, o in res:
        by.setdefault(int(cid[2:]), {})[cid[:2]] = (cname, args, o)
    violations = {p: [] for p in ('C04', 'C05', 'C08')}
    evaluations = 0
    samples = []
    for idx, d in sorted(by.items()):
        k = cases[idx]
        s1, s2 = ser(k)
        evaluations += len(d)
        for tag, (cname, args, o) in d.items():
            if not o.get('ok'):
                violations['C08'].append(dict(function=cname, failing_input=args, native_outcome=o, case=k,
                                              what='sanitizer report in %s' % cname))
        if 'wp' not in d or not d['wp'][2].get('ok'):
            continue
        dist_c = float.fromhex(d['wp'][2]['result']['f'])
        exp = dtw_oracle(s1, s2, k['w'], k['pen'], k['ms'], k['psi'], k['metric'])
        exp_int = exp * exp if (k['metric'] == 0 and exp != INF) else exp
        if not close(dist_c, exp_int) and not close(math.sqrt(dist_c) if dist_c not in (INF,) and dist_c >= 0 else dist_c, exp):
            violations['C04'].append(dict(function='dd_dtw.c::dtw_warping_paths_ndim', failing_input=d['wp'][1], case=k,
                                          oracle=exp_int, engine=dist_c, what='returned distance differs from the path optimum'))
        if 'ex' in d and d['ex'][2].get('ok'):
            full = [float.fromhex(x['f']) for x in d['ex'][2]['args_after']['full']['buf']]
            mo = matrix_oracle(s1, s2, k['w'], k['pen'], k['ms'], k['psi'], k['metric'])
            r, c = len(s1), len(s2)
            for a in range(r + 1):
                for b in range(c + 1):
                    got = full[a * (c + 1) + b]
                    want = mo[a][b]
                    if a >= 1 and b >= 1 and not close(got, want):
                        violations['C04'].append(dict(function='dd_dtw.c::dtw_expand_wps', failing_input=d['wp'][1], case=k,
                                                      cell=[a, b], oracle=want, engine=got,
                                                      what='expanded cost matrix cell differs from the optimum of partial paths'))
                        break
                else:
                    continue
                break
        if 'bp' in d and d['bp'][2].get('ok'):
            o = d['bp'][2]
            n = o['result']
            err = check_path(k, o['args_after']['i1']['buf'], o['args_after']['i2']['buf'], n, dist_c)
            if err:
                violations['C05'].append(dict(function='dd_dtw.c::dtw_best_path', failing_input=d['wp'][1], case=k, what=err,
                                              path=[o['args_after']['i1']['buf'][:n], o['args_after']['i2']['buf'][:n]]))
        if 'pa' in d and d['pa'][2].get('ok'):
            o = d['pa'][2]
            n = o['args_after']['length_i']['buf'][0]
            dpa = float.fromhex(o['result']['f'])
            dint = dpa * dpa if (k['metric'] == 0 and dpa != INF) else dpa
            if not close(dpa, exp):
                violations['C05'].append(dict(function='dd_dtw.c::dtw_warping_path_ndim', failing_input=d['pa'][1], case=k,
                                              oracle=exp, engine=dpa, what='distance returned with the path differs from the path optimum'))
            else:
                err = check_path(k, o['args_after']['from_i']['buf'], o['args_after']['to_i']['buf'], n, dint)
                if err:
                    violations['C05'].append(dict(function='dd_dtw.c::dtw_warping_path_ndim', failing_input=d['pa'][1], case=k, what=err,
                                                  path=[o['args_after']['from_i']['buf'][:n], o['args_after']['to_i']['buf'][:n]]))
        if len(samples) < 4:
            samples.append(dict(case=k, c_distance_internal=dist_c, oracle=exp))
    out = {}
    for p in props:
        out[p] = dict(evaluations=evaluations, distinct_nontrivial=len(by),
                      rule='chains wps_length -> warping_paths_ndim (compact, exact-size) -> best_path / expand_wps / '
                           'expand_wps_slice / warping_path_ndim on all shapes <= bound, ndim 1..2, sampled settings',
                      bound='lengths <= %d' % (4 if quick else 5), samples=samples, violations=violations[p],
                      n_violations=len(violations[p]), label='bounded')
    run._c_matrix_sweep = out
    return out
