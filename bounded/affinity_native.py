"""Runs under /venv/bin/python (C18, bounded stand-in for the parts not under contract).

For random small series pairs (and self-comparison) x gamma, tau, delta, delta_factor x penalty (incl. None)
x window x only_triu:
  recurrence   every cell of the Python matrix equals the recurrence recomputed from its three predecessors
  c-full       warping_paths_affinity_fast returns the same matrix and value as Python
  c-compact    the compact matrix expanded by wps_expand_slice equals the Python matrix
  dispatch     warping_paths_affinity(use_c=True) equals warping_paths_affinity_fast with the same arguments
  matches      kbest_matches (Python, and C compact) yields contiguous monotone paths through positive cells, and no
               cell is used by two matches -- across one call and across calls with restart=False
usage: affinity_native.py <repo> <seed> <n>"""
import sys
import json
import math
import random
import io
import contextlib

repo, seed, n = sys.argv[1], int(sys.argv[2]), int(sys.argv[3])
sys.path.insert(0, repo + '/src')
import numpy as np  # noqa: E402
from dtaidistance import dtw  # noqa: E402
from dtaidistance import dtw_cc  # noqa: E402
from dtaidistance.subsequence.localconcurrences import LocalConcurrences  # noqa: E402

rng = random.Random(seed)
VALS = [0.0, 1.0, -1.0, 2.0, 0.5, 3.0, -2.5, 0.25]
NINF = float('-inf')
problems, samples = [], []
evaluations = 0
distinct = set()


def close(x, y):
    if x == y:
        return True
    if math.isinf(x) or math.isinf(y) or math.isnan(x) or math.isnan(y):
        return False
    return abs(x - y) <= 1e-9 * max(1.0, abs(x), abs(y))


def same_matrix(m1, m2):
    if m1.shape != m2.shape:
        return 'shape %s vs %s' % (m1.shape, m2.shape)
    for i in range(m1.shape[0]):
        for j in range(m1.shape[1]):
            if not close(float(m1[i, j]), float(m2[i, j])):
                return 'cell (%d,%d): %r vs %r' % (i, j, float(m1[i, j]), float(m2[i, j]))
    return None


def recurrence(m, a, b, kw):
    r, c = len(a), len(b)
    w = kw['window'] or max(r, c)
    pen = kw['penalty'] or 0
    if m.shape != (r + 1, c + 1):
        return 'shape %s' % (m.shape,)
    for i in range(r + 1):
        for j in range(c + 1):
            v = float(m[i, j])
            if i == 0 or j == 0:
                want = 0.0 if (i == 0 and j == 0) else NINF
            else:
                x, y = i - 1, j - 1
                inband = (x - max(0, r - c) - w < y < x + max(0, c - r) + w) and (not kw['only_triu'] or y >= x)
                if not inband:
                    want = NINF
                else:
                    d = math.exp(-kw['gamma'] * (a[x] - b[y]) ** 2)
                    prev = max(float(m[i - 1, j - 1]), float(m[i - 1, j]) - pen, float(m[i, j - 1]) - pen)
                    want = max(0.0, kw['delta'] + kw['delta_factor'] * prev) if d < kw['tau'] else max(0.0, d + prev)
            if not close(v, want):
                return 'cell (%d,%d) holds %r, the recurrence gives %r' % (i, j, v, want)
    return None


def check_matches(matches, ref, label, starts=None):
    """ref: the affinity matrix before any match was traced; starts: the cell (matrix coordinates) each match was traced from"""
    used = {}
    avail = np.array(ref, dtype=float)
    avail[0, :] = NINF
    avail[:, 0] = NINF
    for k, path in enumerate(matches):
        if not path:
            return '%s: match %d is empty' % (label, k)
        if starts is not None:
            # traced from a maximum of the cells that are still available
            r0, c0 = starts[k]
            best = float(np.max(avail))
            if not (0 <= r0 < avail.shape[0] and 0 <= c0 < avail.shape[1]) or not close(float(avail[r0, c0]), best):
                return '%s: match %d starts at cell %s (value %r), the maximum of the available cells is %r' % (
                    label, k, (int(r0), int(c0)), float(avail[r0, c0]) if (0 <= r0 < avail.shape[0] and 0 <= c0 < avail.shape[1]) else None, best)
        for (x, y) in path:
            if 0 <= x + 1 < avail.shape[0] and 0 <= y + 1 < avail.shape[1]:
                avail[int(x) + 1, int(y) + 1] = NINF
        for (p, q) in zip(path, path[1:]):
            if (q[0] - p[0], q[1] - p[1]) not in ((1, 1), (1, 0), (0, 1)):
                return '%s: match %d step %s -> %s' % (label, k, tuple(p), tuple(q))
        for (x, y) in path:
            x, y = int(x), int(y)
            if not (0 <= x < ref.shape[0] - 1 and 0 <= y < ref.shape[1] - 1):
                return '%s: match %d leaves the matrix at %s' % (label, k, (x, y))
            if not ref[x + 1, y + 1] > 0:
                return '%s: match %d goes through the non-positive cell %s (%r)' % (label, k, (x, y), float(ref[x + 1, y + 1]))
            if (x, y) in used:
                return '%s: match %d reuses cell %s of match %d' % (label, k, (x, y), used[(x, y)])
        for (x, y) in path:
            used[(int(x), int(y))] = k
    return None


def report(route, a, b, kw, what, **extra):
    problems.append(dict(route=route, s1=list(a), s2=list(b), kw=kw, what=what, **extra))


for it in range(n):
    r = rng.randint(1, 7)
    c = rng.randint(1, 7)
    selfcmp = rng.random() < 0.3
    a = np.array([rng.choice(VALS) for _ in range(r)])
    b = a if selfcmp else np.array([rng.choice(VALS) for _ in range(c)])
    c = len(b)
    kw = dict(window=rng.choice([None, None, 1, 2, 3]), only_triu=(rng.random() < (0.7 if selfcmp else 0.2)),
              penalty=rng.choice([None, 0, 1, 0.1, 0.5]), gamma=rng.choice([1, 0.5, 2.0]),
              tau=rng.choice([0, 0.3, 0.6]), delta=rng.choice([0, -0.2, -1.2]), delta_factor=rng.choice([1, 0.5, 0.9]))
    case = (r, c, kw['window'], kw['only_triu'], kw['penalty'] is None, kw['tau'], kw['delta'])
    distinct.add(case)
    try:
        dp, mp = dtw.warping_paths_affinity(a, b, **kw)
    except Exception as e:      # noqa
        report('python', a, b, kw, 'raised %s: %s' % (type(e).__name__, str(e)[:80]))
        continue
    evaluations += 1
    err = recurrence(mp, a, b, kw)
    if err:
        report('python', a, b, kw, 'recurrence: ' + err)
    if not close(float(dp), float(mp[r, c])):
        report('python', a, b, kw, 'returned value %r is not the last cell %r' % (float(dp), float(mp[r, c])))
    # C, full matrix
    try:
        dc, mc = dtw.warping_paths_affinity_fast(a, b, **kw)
        evaluations += 1
        err = same_matrix(mp, mc)
        if err:
            report('c-full', a, b, kw, 'C matrix differs from Python: ' + err)
        elif not close(float(dp), float(dc)):
            report('c-full', a, b, kw, 'C value %r differs from Python %r' % (float(dc), float(dp)))
        dd, md = dtw.warping_paths_affinity(a, b, use_c=True, **kw)
        evaluations += 1
        err = same_matrix(mc, md)
        if err or not close(float(dd), float(dc)):
            report('dispatch', a, b, kw, 'use_c=True differs from warping_paths_affinity_fast: %s' % (err or 'value'))
    except Exception as e:      # noqa
        report('c-full', a, b, kw, 'raised %s: %s' % (type(e).__name__, str(e)[:80]))
    # C, compact + expansion
    try:
        dk, mk = dtw.warping_paths_affinity_fast(a, b, compact=True, **kw)
        full = np.empty((r + 1, c + 1), dtype=np.double)
        st = dtw_cc.DTWSettings(window=kw['window'], penalty=kw['penalty'])
        dtw_cc.wps_expand_slice(mk, full, r, c, 0, r + 1, 0, c + 1, st)
        evaluations += 1
        err = same_matrix(mp, full)
        if err:
            report('c-compact', a, b, kw, 'expanded compact matrix differs from Python: ' + err)
    except Exception as e:      # noqa
        report('c-compact', a, b, kw, 'raised %s: %s' % (type(e).__name__, str(e)[:80]))
    # matches
    if it % 2 == 0:
        for use_c in (False, True):
            label = 'matches-c' if use_c else 'matches-py'
            try:
                with contextlib.redirect_stdout(io.StringIO()):
                    lc = LocalConcurrences(a, None if selfcmp else b, gamma=kw['gamma'], tau=kw['tau'], delta=kw['delta'],
                                           delta_factor=kw['delta_factor'], only_triu=kw['only_triu'], penalty=kw['penalty'],
                                           window=kw['window'], use_c=use_c)
                    lc.align()
                    k1 = rng.choice([1, 2, 3])
                    ms = list(lc.kbest_matches(k=k1, minlen=1, buffer=0, restart=True))
                    first = [list(map(tuple, m.path)) for m in ms]
                    # a second call that continues the search must not hand out cells of the first
                    ms += list(lc.kbest_matches(k=2, minlen=1, buffer=0, restart=False))
                    got = [list(map(tuple, m.path)) for m in ms]
                    starts = [(int(m.row), int(m.col)) for m in ms]
                evaluations += 1
                # reference matrix: Python affinity matrix with the instance's only_triu
                kw2 = dict(kw, only_triu=lc.only_triu)
                ref = dtw.warping_paths_affinity(a, b, **kw2)[1] if not use_c else dtw.warping_paths_affinity_fast(a, b, **kw2)[1]
                err = check_matches(got, ref, label, starts)
                if err:
                    report(label, a, b, kw, err, matches=[[list(map(int, p)) for p in m] for m in got])
                if use_c:
                    # history: a call that consumes cells but yields nothing (no match is long enough), then a restart:
                    # the restarted search must answer like a fresh object (compact C matrix, where a restart is exact)
                    with contextlib.redirect_stdout(io.StringIO()):
                        lc2 = LocalConcurrences(a, None if selfcmp else b, gamma=kw['gamma'], tau=kw['tau'], delta=kw['delta'],
                                                delta_factor=kw['delta_factor'], only_triu=kw['only_triu'], penalty=kw['penalty'],
                                                window=kw['window'], use_c=True)
                        lc2.align()
                        none = list(lc2.kbest_matches(k=3, minlen=10 ** 6, buffer=0, restart=True))
                        again = [list(map(tuple, m.path)) for m in lc2.kbest_matches(k=k1, minlen=1, buffer=0, restart=True)]
                    evaluations += 1
                    if none:
                        report(label, a, b, kw, 'kbest_matches(minlen=10**6) returned %d matches' % len(none))
                    elif [[tuple(map(int, p)) for p in m] for m in again] != [[tuple(map(int, p)) for p in m] for m in first]:
                        report(label, a, b, kw, 'restart after a call that yielded no match answers differently from a fresh object: '
                               '%d matches instead of %d' % (len(again), len(first)),
                               matches=[[list(map(int, p)) for p in m] for m in again])
            except Exception as e:      # noqa
                report(label, a, b, kw, 'raised %s: %s' % (type(e).__name__, str(e)[:80]))
    if len(samples) < 3:
        samples.append(dict(s1=a.tolist(), s2=b.tolist(), kw=kw, value=float(dp)))

for p in problems:
    p['s1'] = [float(x) for x in p['s1']]
    p['s2'] = [float(x) for x in p['s2']]
print('@@JSON@@' + json.dumps(dict(evaluations=evaluations, distinct_nontrivial=len(distinct), problems=problems[:600],
                                   n_problems=len(problems), samples=samples)))
