"""Bounded stand-in for C10 on the *real code* (both engines): identity, non-negativity, symmetry,
option monotonicity, window-1 = Euclidean, for every small shape up to the bound."""
import array
import importlib
import itertools
import random
import sys
from bounded.dtw_sweep import VALS, shapes, close, c_settings
from bounded.oracle import INF


def sweep_laws(run):
    from dvc import creplay
    from contracts.gens import fx
    src = run.program.native_root() + '/src'
    if src not in sys.path:
        sys.path.insert(0, src)
    dtw = importlib.import_module('dtaidistance.dtw')
    ed = importlib.import_module('dtaidistance.ed')
    rng = random.Random(run.seed + 3)
    quick = run.tier == 'quick'
    max_len = 4 if quick else 6
    evaluations, nontrivial, samples, violations = 0, set(), [], []

    def py(s1, s2, **kw):
        return float(dtw.distance(array.array('d', s1), array.array('d', s2), **kw))
    c_jobs = []

    def bad(law, detail):
        violations.append(dict(function='dtw.distance', what=law, failing_input=detail))

    for r, c in shapes(max_len):
        for rep in range(2 if quick else 5):
            s1 = [rng.choice(VALS) for _ in range(r)]
            s2 = [rng.choice(VALS) for _ in range(c)]
            for metric in ('squared euclidean', 'euclidean'):
                w = rng.choice([None] + list(range(1, max(r, c) + 1)))
                pen = rng.choice([None, 0.5, 2.0])
                ms = rng.choice([None, 1.5, 3.0])
                psi = tuple(rng.randint(0, min(2, n - 1)) for n in (r, r, c, c))
                base = dict(window=w, penalty=pen, max_step=ms, psi=psi, inner_dist=metric)
                d = py(s1, s2, **base)
                evaluations += 1
                nontrivial.add((r, c, w, pen, ms, psi, metric, tuple(s1), tuple(s2)))
                if len(samples) < 4:
                    samples.append(dict(s1=s1, s2=s2, settings=base, distance=d))
                if d < 0:
                    bad('non-negativity', dict(s1=s1, s2=s2, **base))
                # identity (no max_step that could cut the diagonal: cost 0 never exceeds it)
                if not close(py(s1, s1, **base), 0.0):
                    bad('identity', dict(s1=s1, **base))
                # symmetry: swap the series and the per-series psi entries
                sw = dict(base, psi=(psi[2], psi[3], psi[0], psi[1]))
                if not close(py(s2, s1, **sw), d):
                    bad('symmetry', dict(s1=s1, s2=s2, **base))
                # monotonicity
                if w is not None and py(s1, s2, **dict(base, window=w + 1)) > d + 1e-12:
                    bad('window monotonicity', dict(s1=s1, s2=s2, **base))
                for k in range(4):
                    p2 = list(psi)
                    if p2[k] + 1 <= (r if k < 2 else c):
                        p2[k] += 1
                        p2 = tuple(p2)
                        if (p2[3] == c and p2[0] == r) or (p2[1] == r and p2[2] == c):
                            continue
                        if py(s1, s2, **dict(base, psi=p2)) > d + 1e-12:
                            bad('psi monotonicity', dict(s1=s1, s2=s2, psi2=p2, **base))
                if ms is not None and py(s1, s2, **dict(base, max_step=ms + 1.0)) > d + 1e-12:
                    bad('max_step monotonicity', dict(s1=s1, s2=s2, **base))
                if py(s1, s2, **dict(base, penalty=(pen or 0) + 0.5)) < d - 1e-12:
                    bad('penalty monotonicity', dict(s1=s1, s2=s2, **base))
                # window 1 on equal lengths = Euclidean distance
                if r == c:
                    e = float(ed.distance(array.array('d', s1), array.array('d', s2), inner_dist=metric))
                    if not close(py(s1, s2, window=1, inner_dist=metric), e):
                        bad('window 1 equals Euclidean', dict(s1=s1, s2=s2, inner_dist=metric))
                m = 0 if metric == 'squared euclidean' else 1
                c_jobs.append((dict(s1={'buf': [fx(x) for x in s1]}, l1=r, s2={'buf': [fx(x) for x in s2]}, l2=c,
                                    settings=c_settings(w, psi, pen, ms, m)), d, dict(s1=s1, s2=s2, **base)))
                c_jobs.append((dict(s1={'buf': [fx(x) for x in s2]}, l1=c, s2={'buf': [fx(x) for x in s1]}, l2=r,
                                    settings=c_settings(w, (psi[2], psi[3], psi[0], psi[1]), pen, ms, m)), d,
                               dict(s1=s2, s2=s1, swapped=True, **base)))
                if len(violations) > 5:
                    break
    # multivariate series (ndim = 2): the same laws on dtw.distance(use_ndim=True) and on the C kernel dtw_distance_ndim
    import numpy as np
    nd_jobs = []
    for r, c in shapes(max_len + 1):
        for rep in range(1 if quick else 3):
            s1 = [[rng.choice(VALS), rng.choice(VALS)] for _ in range(r)]
            s2 = [[rng.choice(VALS), rng.choice(VALS)] for _ in range(c)]
            for metric in ('squared euclidean', 'euclidean'):
                w = rng.choice([None] + list(range(1, max(r, c) + 1)))
                pen = rng.choice([None, 0.5])
                psi = tuple(rng.randint(0, min(1, n - 1)) for n in (r, r, c, c))
                base = dict(window=w, penalty=pen, psi=psi, inner_dist=metric, use_ndim=True)
                a1, a2 = np.array(s1, dtype=np.double), np.array(s2, dtype=np.double)
                d = float(dtw.distance(a1, a2, **base))
                evaluations += 1
                nontrivial.add((r, c, w, pen, psi, metric, 'nd', str(s1), str(s2)))
                if d < 0:
                    bad('non-negativity (ndim)', dict(s1=s1, s2=s2, **base))
                if not close(float(dtw.distance(a1, a1, **base)), 0.0):
                    bad('identity (ndim)', dict(s1=s1, **base))
                sw = dict(base, psi=(psi[2], psi[3], psi[0], psi[1]))
                if not close(float(dtw.distance(a2, a1, **sw)), d):
                    bad('symmetry (ndim)', dict(s1=s1, s2=s2, **base))
                if w is not None and float(dtw.distance(a1, a2, **dict(base, window=w + 1))) > d + 1e-12:
                    bad('window monotonicity (ndim)', dict(s1=s1, s2=s2, **base))
                m = 0 if metric == 'squared euclidean' else 1
                f1, f2 = [fx(x) for p_ in s1 for x in p_], [fx(x) for p_ in s2 for x in p_]
                nd_jobs.append((dict(s1={'buf': f1}, l1=r, s2={'buf': f2}, l2=c, ndim=2, settings=c_settings(w, psi, pen, None, m)), d,
                                dict(s1=s1, s2=s2, **base)))
                nd_jobs.append((dict(s1={'buf': f2}, l1=c, s2={'buf': f1}, l2=r, ndim=2,
                                     settings=c_settings(w, (psi[2], psi[3], psi[0], psi[1]), pen, None, m)), d,
                                dict(s1=s2, s2=s1, swapped=True, **base)))
    outs_nd = creplay.native_c_calls(run.program, 'dd_dtw.c::dtw_distance_ndim', [j[0] for j in nd_jobs])
    for (a, d, detail), o in zip(nd_jobs, outs_nd):
        evaluations += 1
        got = float.fromhex(o['result']['f']) if o and o.get('ok') else 'crash'
        if got == 'crash' or not close(got, d) or (got != INF and got < 0):
            violations.append(dict(function='dd_dtw.c::dtw_distance_ndim',
                                   what='C engine (ndim): symmetry / agreement with the Python value', failing_input=detail,
                                   engine=got, expected=d))
    outs = creplay.native_c_calls(run.program, 'dd_dtw.c::dtw_distance', [j[0] for j in c_jobs])
    for (a, d, detail), o in zip(c_jobs, outs):
        evaluations += 1
        got = float.fromhex(o['result']['f']) if o and o.get('ok') else 'crash'
        if got == 'crash' or not close(got, d) or (got != INF and got < 0):
            violations.append(dict(function='dd_dtw.c::dtw_distance', what='C engine: symmetry / agreement with the Python value',
                                   failing_input=detail, engine=got, expected=d))
    return dict(evaluations=evaluations, distinct_nontrivial=len(nontrivial),
                rule='all shapes up to %dx%d, random options; laws checked on pairs of runs of the real Python engine and on '
                     'the C kernel (direct and swapped call)' % (max_len, max_len),
                bound='lengths <= %d' % max_len, samples=samples, violations=violations[:6], label='bounded')
