"""Bounded stand-in ([B], never counted as proved): the real engines against the path-enumeration
oracle on every small shape up to the stated bound."""
import itertools
import random
import sys
from bounded.oracle import dtw_oracle, INF

VALS = [0.0, 1.0, -1.0, 2.0, 0.5, 3.0, -2.5]


def shapes(max_len):
    for r in range(1, max_len + 1):
        for c in range(1, max_len + 1):
            yield r, c


def settings_space(r, c, rng, full):
    windows = [None] + list(range(1, max(r, c) + 2))
    psis = [None] + ([1] if (1 <= min(r, c) and not (r == 1 and c == 1)) else []) + [p for p in itertools.product(range(0, 3), repeat=4)
                        if p[0] <= r and p[1] <= r and p[2] <= c and p[3] <= c
                        and not (p[3] == c and p[0] == r) and not (p[1] == r and p[2] == c)]
    pens = [None, 0.5, 2.0]
    msteps = [None, 1.5, 3.0]
    allc = list(itertools.product(windows, psis, pens, msteps, (0, 1)))
    if full:
        return allc
    rng.shuffle(allc)
    return allc[:60]


def close(a, b):
    if a == b:
        return True
    if a == INF or b == INF:
        return False
    return abs(a - b) <= 1e-12 * max(1.0, abs(a), abs(b))


def sweep_python_distance(run, max_len=None, per_shape=None):
    """real dtw.distance (pure Python, imported from the working tree) vs. the oracle"""
    repo = run.program.native_root()
    src = repo + '/src'
    if src not in sys.path:
        sys.path.insert(0, src)
    import importlib
    import array
    dtw = importlib.import_module('dtaidistance.dtw')
    rng = random.Random(run.seed)
    quick = run.tier == 'quick'
    max_len = max_len or (4 if quick else 5)
    evaluations, nontrivial, samples, violations = 0, set(), [], []
    for r, c in shapes(max_len):
        for rep in range(2 if quick else 4):
            s1 = [rng.choice(VALS) for _ in range(r)]
            s2 = [rng.choice(VALS) for _ in range(c)]
            for (w, psi, pen, ms, metric) in settings_space(r, c, rng, full=not quick and r * c <= 9):
                kw = dict(window=w, psi=psi, penalty=pen, max_step=ms,
                          inner_dist='squared euclidean' if metric == 0 else 'euclidean')
                exp = dtw_oracle(s1, s2, w, pen, ms, psi, metric)
                try:
                    got = float(dtw.distance(array.array('d', s1), array.array('d', s2), **kw))
                except Exception as e:      # noqa: the exception is the observation
                    got = 'raised %s: %s' % (type(e).__name__, e)
                evaluations += 1
                if (r > 1 or c > 1) and (w is not None or psi or pen or ms):
                    nontrivial.add((r, c, w, str(psi), pen, ms, metric, tuple(s1), tuple(s2)))
                if len(samples) < 5:
                    samples.append(dict(s1=s1, s2=s2, settings=kw, oracle=exp, engine=got))
                if isinstance(got, str) or not close(got, exp):
                    violations.append(dict(function='dtw.distance', failing_input=dict(s1=s1, s2=s2, **{k: v for k, v in kw.items()}),
                                           oracle=exp, engine=got, what='distance differs from the optimum over all admissible warping paths'))
                    if len(violations) >= 3:
                        break
            if len(violations) >= 3:
                break
    return dict(evaluations=evaluations, distinct_nontrivial=len(nontrivial),
                rule='all shapes up to %dx%d, values from %s, window None/1..max+1, psi None/int/4-tuples<=2, penalty, max_step, '
                     'both inner distances; non-trivial = some option active and more than one cell' % (max_len, max_len, VALS),
                bound='lengths <= %d' % max_len, samples=samples, violations=violations, label='bounded')


def c_settings(w, psi, pen, ms, metric):
    """Python keyword options -> C DTWSettings struct, as DTWSettings.c_kwargs / dtw_cc.pyx encode them
    (None -> 0 = option off)."""
    from contracts.gens import fx
    if psi is None:
        p = (0, 0, 0, 0)
    elif isinstance(psi, int):
        p = (psi,) * 4
    else:
        p = psi
    return {'struct': dict(window=0 if w is None else w, max_dist=fx(0), max_step=fx(0 if ms is None else ms),
                           max_length_diff=0, penalty=fx(0 if pen is None else pen), psi_1b=p[0], psi_1e=p[1],
                           psi_2b=p[2], psi_2e=p[3], use_pruning=False, only_ub=False, inner_dist=metric,
                           window_type=0)}


def sweep_c_distance(run, max_len=None):
    """the real C kernels (sanitizer build of the working tree) vs. the oracle and vs. dtw.distance"""
    from dvc import creplay
    from contracts.gens import fx
    import sys
    import array
    import importlib
    src = run.program.native_root() + '/src'
    if src not in sys.path:
        sys.path.insert(0, src)
    dtw = importlib.import_module('dtaidistance.dtw')
    rng = random.Random(run.seed + 1)
    quick = run.tier == 'quick'
    max_len = max_len or (4 if quick else 5)
    cases = []
    for r, c in shapes(max_len):
        for rep in range(1 if quick else 3):
            for nd in (1, 2):
                s1 = [[rng.choice(VALS) for _ in range(nd)] for _ in range(r)]
                s2 = [[rng.choice(VALS) for _ in range(nd)] for _ in range(c)]
                space = settings_space(r, c, rng, full=False)[:12 if quick else 40]
                for (w, psi, pen, ms, metric) in space:
                    cases.append((s1, s2, nd, w, psi, pen, ms, metric))
    by_fn = {}
    for k, (s1, s2, nd, w, psi, pen, ms, metric) in enumerate(cases):
        for use_nd in ((False, True) if nd == 1 else (True,)):
            fn = 'dd_dtw.c::dtw_distance' + ('_ndim' if use_nd else '')
            flat1 = [x for p in s1 for x in p]
            flat2 = [x for p in s2 for x in p]
            a = dict(s1={'buf': [fx(x) for x in flat1]}, l1=len(s1), s2={'buf': [fx(x) for x in flat2]}, l2=len(s2),
                     settings=c_settings(w, psi, pen, ms, metric))
            if use_nd:
                a['ndim'] = nd
            by_fn.setdefault(fn, []).append((k, a))
    evaluations, nontrivial, samples, violations = 0, set(), [], []
    for fn, items in by_fn.items():
        outs = creplay.native_c_calls(run.program, fn, [a for _, a in items])
        for (k, a), o in zip(items, outs):
            s1, s2, nd, w, psi, pen, ms, metric = cases[k]
            evaluations += 1
            if nd == 1:
                exp = dtw_oracle([p[0] for p in s1], [p[0] for p in s2], w, pen, ms, psi, metric)
            else:
                exp = dtw_oracle(s1, s2, w, pen, ms, psi, metric)
            if not o or not o.get('ok'):
                got = 'crash: %s' % (o or {}).get('exc')
            else:
                got = float.fromhex(o['result']['f'])
            py = None
            if nd == 1:
                try:
                    py = float(dtw.distance(array.array('d', [p[0] for p in s1]), array.array('d', [p[0] for p in s2]),
                                            window=w, psi=psi, penalty=pen, max_step=ms,
                                            inner_dist='squared euclidean' if metric == 0 else 'euclidean'))
                except Exception as e:      # noqa
                    py = 'raised %s' % type(e).__name__
            nontrivial.add((fn, len(s1), len(s2), nd, w, str(psi), pen, ms, metric, str(s1), str(s2)))
            if len(samples) < 5:
                samples.append(dict(function=fn, s1=s1, s2=s2, window=w, psi=psi, penalty=pen, max_step=ms, metric=metric,
                                    oracle=exp, c_engine=got, python_engine=py))
            bad = isinstance(got, str) or not close(got, exp) or (py is not None and (isinstance(py, str) or not close(py, got)))
            if bad:
                violations.append(dict(function=fn, failing_input=a, oracle=exp, engine=got, python_engine=py,
                                       what='C kernel differs from the optimum over admissible warping paths / from dtw.distance'))
                if len(violations) >= 3:
                    break
    return dict(evaluations=evaluations, distinct_nontrivial=len(nontrivial),
                rule='all shapes up to %dx%d, ndim 1..2, sampled option combinations (window, psi 4-tuples, penalty, '
                     'max_step, both inner distances); C kernel under ASan/UBSan vs path enumeration vs dtw.distance' % (max_len, max_len),
                bound='lengths <= %d, ndim <= 2' % max_len, samples=samples, violations=violations, label='bounded')
