"""Runs under /venv/bin/python (C12, bounded stand-in).

Random collections (equal / unequal lengths, ndim 1..3, list or matrix container) x initial averages x masks with at least
one selected series x window / penalty x engine, one DBA step (dtw_barycenter.dba / dtw_cc.dba through dba_loop(max_it=1)):
  mean        every position of the result is the arithmetic mean of the points that the library's warping path of
              (average, series) aligns to it, and that path is optimal (its cost equals the DTW optimum of an independent
              dynamic programme)
  range       the result stays within the value range of the selected series (per dimension)
  fixpoint    a set of identical series with the same initial average is a fixed point
  mask        changing the unselected series does not change the result
  fit         the sum of squared DTW distances from the average to the selected series does not increase
  engines     C and Python agree when every (average, series) pair has a unique optimal path
  loop        dba_loop(max_it=m) performs at most m steps
usage: dba_native.py <repo> <seed> <n>"""
import sys
import json
import math
import random
import io
import contextlib

repo, seed, n = sys.argv[1], int(sys.argv[2]), int(sys.argv[3])
sys.path.insert(0, repo + '/src')
import numpy as np  # noqa: E402
from dtaidistance import dtw, dtw_ndim, dtw_barycenter  # noqa: E402

rng = random.Random(seed)
VALS = [0.0, 1.0, -1.0, 2.0, 0.5, 3.0, -2.5]
INF = float('inf')
problems, samples = [], []
evaluations = 0
distinct = set()


def cost(x, y):
    if np.ndim(x) > 0:
        return float(np.sum((np.asarray(x) - np.asarray(y)) ** 2))
    return float((x - y) ** 2)


def dp(a, b, window, pen):
    """(optimal internal cost, number of optimal paths capped at 2)"""
    r, c = len(a), len(b)
    w = max(r, c) if window is None else window
    pen2 = pen * pen if pen else 0.0
    D = [[INF] * (c + 1) for _ in range(r + 1)]
    N = [[0] * (c + 1) for _ in range(r + 1)]
    D[0][0], N[0][0] = 0.0, 1
    for i in range(r):
        for j in range(max(0, i - max(0, r - c) - w + 1), min(c, i + max(0, c - r) + w)):
            cands = [(D[i][j], N[i][j]), (D[i][j + 1] + pen2, N[i][j + 1]), (D[i + 1][j] + pen2, N[i + 1][j])]
            m = min(x for x, _ in cands)
            if m == INF:
                continue
            D[i + 1][j + 1] = cost(a[i], b[j]) + m
            N[i + 1][j + 1] = min(2, sum(k for x, k in cands if abs(x - m) <= 1e-12 * max(1.0, abs(m))))
    return D[r][c], N[r][c]


def opt_path(a, b, window, pen):
    """the optimal warping path (list of index pairs) when it is unique, else None"""
    r, c = len(a), len(b)
    w = max(r, c) if window is None else window
    pen2 = pen * pen if pen else 0.0
    D = [[INF] * (c + 1) for _ in range(r + 1)]
    D[0][0] = 0.0
    for i in range(r):
        for j in range(max(0, i - max(0, r - c) - w + 1), min(c, i + max(0, c - r) + w)):
            m = min(D[i][j], D[i][j + 1] + pen2, D[i + 1][j] + pen2)
            if m != INF:
                D[i + 1][j + 1] = cost(a[i], b[j]) + m
    if D[r][c] == INF:
        return None
    i, j, path = r, c, []
    while i > 0 and j > 0:
        path.append((i - 1, j - 1))
        cands = [(D[i - 1][j - 1], (i - 1, j - 1)), (D[i - 1][j] + pen2, (i - 1, j)), (D[i][j - 1] + pen2, (i, j - 1))]
        m = min(x for x, _ in cands)
        best = [p for x, p in cands if abs(x - m) <= 1e-12 * max(1.0, abs(m))]
        if len(best) != 1:
            return None
        i, j = best[0]
    if (i, j) != (0, 0):
        return None
    path.reverse()
    return path


def path_cost(a, b, path, pen):
    pen2 = pen * pen if pen else 0.0
    acc = None
    for k, (i, j) in enumerate(path):
        d = cost(a[i], b[j])
        if acc is None:
            acc = d
        else:
            pi, pj = path[k - 1]
            acc = d + acc + (0.0 if (i - pi, j - pj) == (1, 1) else pen2)
    return acc


def close(a, b, tol=1e-9):
    return abs(a - b) <= tol * max(1.0, abs(a), abs(b))


def laid_out(c):
    """the initial average with the same numbers in another memory layout (Fortran order / a strided view): the step
    must not depend on it"""
    if C_LAYOUT[0] == 'F' and c.ndim == 2:
        return np.asfortranarray(c)
    if C_LAYOUT[0] == 'strided':
        big = np.zeros((2 * len(c),) + c.shape[1:], dtype=c.dtype)
        big[::2] = c
        return big[::2]
    return c.copy()


def step(series, c, mask, use_c, opts, c_py=None):
    with contextlib.redirect_stdout(io.StringIO()):
        if use_c:
            return np.asarray(dtw_barycenter.dba_loop(series, c=laid_out(c), mask=mask, max_it=1, thr=None, use_c=True, nb_prob_samples=0, **opts))
        return np.asarray(dtw_barycenter.dba(series, c_py if c_py is not None else laid_out(c), mask=mask, use_c=False, **opts))


C_LAYOUT = [None]   # memory layout of the initial average handed to the engines (None = C-contiguous copy)


C_PY = [None]       # the initial average as handed to the Python engine when it is not the float array (int list / int array)


def report(route, series, c, mask, opts, what, **extra):
    problems.append(dict(route=route, series=[np.asarray(s).tolist() for s in series], c=np.asarray(c).tolist(),
                         mask=[bool(x) for x in mask], opts=opts, what=what, c_layout=C_LAYOUT[0], **extra))


for it in range(n):
    nd = rng.choice([1, 1, 2, 3])
    # mostly few series; sometimes more than eight, so that the bit mask of the C routines spans a second byte
    ns = rng.randint(1, 5) if rng.random() < 0.85 else rng.randint(9, 11)
    equal = rng.random() < 0.5
    ln = rng.randint(2, 5)

    def mk(length):
        if nd == 1:
            return np.array([rng.choice(VALS) for _ in range(length)])
        return np.array([[rng.choice(VALS) for _ in range(nd)] for _ in range(length)])
    lst = [mk(ln if equal else rng.randint(2, 5)) for _ in range(ns)]
    container = 'matrix' if (equal and rng.random() < 0.5) else 'list'
    series = np.array(lst) if container == 'matrix' else lst
    mask = np.array([rng.random() < 0.7 for _ in range(ns)])
    if not mask.any():
        mask[rng.randrange(ns)] = True
    c = mk(rng.randint(2, 5)) if rng.random() < 0.5 else np.array(lst[int(np.argmax(mask))], dtype=np.double).copy()
    C_PY[0] = None
    C_LAYOUT[0] = rng.choice([None, None, 'F', 'strided'])
    if rng.random() < 0.25:
        # an integer-typed initial average (list of ints or int array): the result is still a mean of floats
        c = np.round(c).astype(np.double)
        ci = c.astype(np.int64)
        C_PY[0] = ci.tolist() if rng.random() < 0.5 else ci
    opts = {}
    if rng.random() < 0.4:
        opts['window'] = rng.randint(1, 3)
    if rng.random() < 0.25:
        opts['penalty'] = rng.choice([0.5, 1.0])
    distinct.add((nd, ns, container, tuple(sorted(opts)), int(mask.sum())))
    sel = [lst[i] for i in range(ns) if mask[i]]
    res = {}
    unique = True
    for use_c in (False, True):
        route = 'c' if use_c else 'py'
        try:
            out = step(series, c, mask, use_c, opts, c_py=C_PY[0])
        except Exception as e:      # noqa
            report(route, lst, c, mask, opts, 'raised %s: %s' % (type(e).__name__, str(e)[:100]))
            continue
        evaluations += 1
        res[route] = out
        if out.shape != c.shape:
            report(route, lst, c, mask, opts, 'result has shape %s, the average has %s' % (out.shape, c.shape))
            continue
        err = None
        # range
        allv = np.concatenate([np.asarray(s).reshape(len(s), -1) for s in sel], axis=0)
        lo, hi = allv.min(axis=0), allv.max(axis=0)
        o2 = out.reshape(len(out), -1)
        if (o2 < lo - 1e-9).any() or (o2 > hi + 1e-9).any():
            err = 'result leaves the value range of the selected series'
        # mean along the library's own paths (Python engine), optimality of those paths
        if err is None and not use_c:
            assoc = [[] for _ in range(len(c))]
            for s in sel:
                path = dtw.warping_path(c, s, **opts) if nd == 1 else dtw_ndim.warping_path(c, s, **opts)
                best, cnt = dp(c, s, opts.get('window'), opts.get('penalty'))
                if cnt > 1:
                    unique = False
                pc = path_cost(c, s, path, opts.get('penalty'))
                if best != INF and not close(pc, best):
                    err = 'the path used for averaging costs %r, the optimum is %r' % (pc, best)
                    break
                for i, j in path:
                    assoc[i].append(np.asarray(s[j], dtype=float))
            if err is None:
                for i, vals in enumerate(assoc):
                    if vals and not np.allclose(out[i], np.mean(vals, axis=0), rtol=1e-9, atol=1e-12):
                        err = 'position %d holds %r, the mean of its aligned points is %r' % (i, np.asarray(out[i]).tolist(), np.mean(vals, axis=0).tolist())
                        break
        # fit does not get worse
        if err is None:
            def sse(avg):
                return sum(dp(avg, s, opts.get('window'), opts.get('penalty'))[0] for s in sel)
            before, after = sse(c), sse(out)
            if before != INF and after > before + 1e-9 * max(1.0, before):
                err = 'sum of squared DTW distances increased from %r to %r' % (before, after)
        # mask: unselected series have no influence
        if err is None and not mask.all():
            lst2 = [s if mask[i] else (np.asarray(s) + 7.5) for i, s in enumerate(lst)]
            series2 = np.array(lst2) if container == 'matrix' else lst2
            try:
                out2 = step(series2, c, mask, use_c, opts, c_py=C_PY[0])
                if not np.allclose(out, out2, rtol=1e-12, atol=0):
                    err = 'changing an unselected series changed the result'
            except Exception as e:      # noqa
                err = 'raised %s with modified unselected series' % type(e).__name__
        if err:
            report(route, lst, c, mask, opts, err, result=out.tolist())
    # C engine against first principles: the mean along the optimal paths, where every one of them is unique
    if 'c' in res and res['c'].shape == np.asarray(c).shape:
        paths_ = [opt_path(c, s, opts.get('window'), opts.get('penalty')) for s in sel]
        if all(p_ is not None for p_ in paths_):
            assoc_ = [[] for _ in range(len(c))]
            for s, p_ in zip(sel, paths_):
                for i_, j_ in p_:
                    assoc_[i_].append(np.asarray(s[j_], dtype=float))
            for i_, vals in enumerate(assoc_):
                if vals and not np.allclose(res['c'][i_], np.mean(vals, axis=0), rtol=1e-9, atol=1e-12):
                    report('c', lst, c, mask, opts, 'C engine: position %d holds %r, the mean of the points aligned by the (unique) '
                           'optimal paths is %r' % (i_, np.asarray(res['c'][i_]).tolist(), np.mean(vals, axis=0).tolist()),
                           container=container)
                    break
    if 'py' in res and 'c' in res and unique and res['py'].shape == res['c'].shape:
        if not np.allclose(res['py'], res['c'], rtol=1e-9, atol=1e-12):
            report('engines', lst, c, mask, opts, 'C and Python results differ although all optimal paths are unique',
                   py=res['py'].tolist(), c_result=res['c'].tolist())
    # fixed point and loop bound (every fifth case)
    if it % 5 == 0:
        base = mk(ln)
        same = [base.copy() for _ in range(3)]
        for use_c in (False, True):
            try:
                out = step(same, base, np.array([True] * 3), use_c, {})
                evaluations += 1
                if not np.allclose(out, base, rtol=1e-12, atol=0):
                    report('c' if use_c else 'py', same, base, [True] * 3, {}, 'identical series are not a fixed point', result=out.tolist())
                m = rng.randint(1, 3)
                with contextlib.redirect_stdout(io.StringIO()):
                    _, avgs = dtw_barycenter.dba_loop(lst, c=c.copy(), mask=mask, max_it=m, thr=None, use_c=use_c, nb_prob_samples=0,
                                                     keep_averages=True)
                if len(avgs) > m:
                    report('c' if use_c else 'py', lst, c, mask, {}, 'dba_loop(max_it=%d) performed %d steps' % (m, len(avgs)))
            except Exception as e:      # noqa
                report('c' if use_c else 'py', same, base, [True] * 3, {}, 'raised %s: %s' % (type(e).__name__, str(e)[:100]))
    if len(samples) < 3 and 'py' in res:
        samples.append(dict(n_series=ns, ndim=nd, container=container, opts=opts, result=res['py'].tolist()))

print('@@JSON@@' + json.dumps(dict(evaluations=evaluations, distinct_nontrivial=len(distinct), problems=problems[:400],
                                   n_problems=len(problems), samples=samples)))
