"""Runs under /venv/bin/python: every warping path returned by the library (C05) must be a contiguous
monotone sequence of index pairs with steps (1,1)/(1,0)/(0,1), inside the band, beginning and ending in the
psi-relaxed corners, and the cost accumulated along it must equal the reported distance.
usage: paths_native.py <repo> <seed> <n>"""
import sys
import json
import math
import random

repo, seed, n = sys.argv[1], int(sys.argv[2]), int(sys.argv[3])
sys.path.insert(0, repo + '/src')
import numpy as np  # noqa: E402
from dtaidistance import dtw, dtw_ndim, dtw_cc  # noqa: E402

rng = random.Random(seed)
VALS = [0.0, 1.0, -1.0, 2.0, 0.5, 3.0, -2.5]
INF = float('inf')


def check(path, dist, a, b, kw):
    r, c = len(a), len(b)
    w = kw.get('window') or max(r, c)
    psi = kw.get('psi') or (0, 0, 0, 0)
    metric = 1 if kw.get('inner_dist') == 'euclidean' else 0
    pen = kw.get('penalty') or 0
    pen = pen * pen if metric == 0 else pen
    if dist == INF:
        return None
    if not path:
        return 'empty path for a finite distance'
    for (x, y), (x2, y2) in zip(path, path[1:]):
        if (x2 - x, y2 - y) not in ((1, 1), (1, 0), (0, 1)):
            return 'step %s -> %s' % ((x, y), (x2, y2))
    for (x, y) in path:
        if not (0 <= x < r and 0 <= y < c) or not (x - max(0, r - c) - w < y < x + max(0, c - r) + w):
            return 'pair %s outside the band' % ((x, y),)
    x0, y0 = path[0]
    if not ((x0 == 0 and y0 <= psi[2]) or (y0 == 0 and x0 <= psi[0])):
        return 'start %s outside the psi-relaxed corner' % ((x0, y0),)
    x1, y1 = path[-1]
    if not ((x1 == r - 1 and y1 >= c - 1 - psi[3]) or (y1 == c - 1 and x1 >= r - 1 - psi[1])):
        return 'end %s outside the psi-relaxed corner' % ((x1, y1),)
    acc = None
    for k, (x, y) in enumerate(path):
        if np.ndim(a[x]) > 0:
            d = float(np.sum((a[x] - b[y]) ** 2))
            d = d if metric == 0 else math.sqrt(d)
        else:
            d = (a[x] - b[y]) ** 2 if metric == 0 else abs(a[x] - b[y])
        if acc is None:
            acc = d
        else:
            px, py = path[k - 1]
            acc = d + (acc + (0 if (x - px, y - py) == (1, 1) else pen))
    want = dist * dist if metric == 0 else dist
    if abs(acc - want) > 1e-9 * max(1.0, abs(want)):
        return 'cost along the path %r differs from the distance (internal) %r' % (acc, want)
    return None


ROUTES = {
    'py.warping_path': lambda a, b, kw: dtw.warping_path(a, b, include_distance=True, **kw),
    # the Python entry point asked for the C engine (cost matrix by the C routine, traceback in Python)
    'py.warping_path(use_c)': lambda a, b, kw: dtw.warping_path(a, b, include_distance=True, use_c=True, **kw),
    'c.warping_path_fast': lambda a, b, kw: dtw.warping_path_fast(a, b, include_distance=True, **kw),
    'py.best_path(warping_paths)': lambda a, b, kw: (lambda d, m: (dtw.best_path(m), d))(*dtw.warping_paths(a, b, **kw)),
    'py.best_path(warping_paths_fast)': lambda a, b, kw: (lambda d, m: (dtw.best_path(m), d))(*dtw.warping_paths_fast(a, b, **kw)),
    # traceback over the compact matrix in the internal representation (what dtw_cc.warping_path does internally)
    'c.best_path_compact': lambda a, b, kw: (
        dtw_cc.best_path_compact(dtw.warping_paths_fast(a, b, compact=True, keep_int_repr=True, **kw)[1], len(a), len(b), **DTWS(a, b, kw)),
        dtw.warping_paths_fast(a, b, **kw)[0]),
}


def DTWS(a, b, kw):
    return dtw.DTWSettings.for_dtw(a, b, **kw).c_kwargs()

evaluations, distinct, problems, samples = 0, set(), [], []
for case in range(n):
    kw = {}
    if case % 2 == 0:
        # longer series with a narrow band (regions C / D of the compact layout), few other options
        l1, l2 = rng.randint(4, 10), rng.randint(4, 10)
        if rng.random() < 0.4:
            l2 = l1
        kw['window'] = rng.randint(1, 3)
        if rng.random() < 0.3:
            kw['penalty'] = rng.choice([0.5, 2.0])
    else:
        l1, l2 = rng.randint(1, 6), rng.randint(1, 6)
        if rng.random() < 0.5:
            kw['window'] = rng.randint(1, max(l1, l2) + 1)
        if rng.random() < 0.4:
            kw['penalty'] = rng.choice([0.5, 2.0])
        if rng.random() < 0.4:
            p = tuple(rng.randint(0, min(2, m - 1)) for m in (l1, l1, l2, l2))
            kw['psi'] = p
        if rng.random() < 0.3:
            kw['inner_dist'] = 'euclidean'
    a = np.array([rng.choice(VALS) for _ in range(l1)])
    b = np.array([rng.choice(VALS) for _ in range(l2)])
    for name, fn in ROUTES.items():
        if name == 'py.warping_path' and 'penalty' in kw and False:
            continue
        try:
            path, dist = fn(a, b, kw)
            path = [tuple(int(v) for v in p) for p in path]
            dist = float(dist)
        except Exception as e:      # noqa
            problems.append(dict(route=name, s1=a.tolist(), s2=b.tolist(), kw=kw, what='raised %s: %s' % (type(e).__name__, str(e)[:80])))
            continue
        evaluations += 1
        distinct.add((name, case))
        err = check(path, dist, a, b, kw)
        if err:
            problems.append(dict(route=name, s1=a.tolist(), s2=b.tolist(), kw=kw, path=path, dist=dist, what=err))
        if len(samples) < 3:
            samples.append(dict(route=name, s1=a.tolist(), s2=b.tolist(), kw=kw, path=path, dist=dist))
print('@@JSON@@' + json.dumps(dict(evaluations=evaluations, distinct_nontrivial=len(distinct), problems=problems[:600],
                                   n_problems=len(problems), samples=samples)))
