"""Runs under /venv/bin/python (C13, bounded stand-in).

For random small (query, series) x penalty x ndim x engine:
  matching    matching_function()[e] * len(query) == min over b <= e of the penalised DTW distance between the query and
              series[b..e] (independent O(n*m) dynamic programme per (b, e), squared-Euclidean inner distance)
  best        best_match(): its value is the minimum of the matching function; its segment [b, e] ends at the reported end
              point and DTW(query, series[b..e]) realises the value; its path is a contiguous monotone path from row 0 to the
              last row whose columns span [b, e] and whose accumulated cost (with the penalty) equals the distance
  kbest       kbest_matches(k, overlap, minlength, maxlength): distinct end points, non-decreasing values, segment lengths
              within the limits, with overlap=0 two segments share at most one boundary sample; repeated iteration over the
              same object gives the same matches
  engines     the Python and the C engine give the same matching function
usage: subseq_native.py <repo> <seed> <n>"""
import sys
import json
import math
import random

repo, seed, n = sys.argv[1], int(sys.argv[2]), int(sys.argv[3])
sys.path.insert(0, repo + '/src')
import numpy as np  # noqa: E402
from dtaidistance.subsequence.subsequencealignment import SubsequenceAlignment  # noqa: E402

rng = random.Random(seed)
VALS = [0.0, 1.0, -1.0, 2.0, 0.5, 3.0, -2.5]
INF = float('inf')
problems, samples = [], []
evaluations = 0
distinct = set()


def cost(x, y):
    if np.ndim(x) > 0:
        return float(np.sum((np.asarray(x) - np.asarray(y)) ** 2))
    return (x - y) ** 2


def dtw_sq(q, s, pen2):
    """squared-Euclidean DTW (internal representation) with additive penalty pen2 on non-diagonal steps"""
    r, c = len(q), len(s)
    D = [[INF] * (c + 1) for _ in range(r + 1)]
    D[0][0] = 0.0
    for i in range(r):
        for j in range(c):
            D[i + 1][j + 1] = cost(q[i], s[j]) + min(D[i][j], D[i][j + 1] + pen2, D[i + 1][j] + pen2)
    return D[r][c]


def close(a, b):
    if a == b:
        return True
    if math.isinf(a) or math.isinf(b):
        return False
    return abs(a - b) <= 1e-9 * max(1.0, abs(a), abs(b))


def report(route, q, s, kw, what, **extra):
    problems.append(dict(route=route, query=np.asarray(q).tolist(), series=np.asarray(s).tolist(), kw=kw, what=what, **extra))


for it in range(n):
    lq, ls = rng.randint(1, 4), rng.randint(1, 7)
    nd = rng.choice([1, 1, 1, 2])
    if nd == 1:
        q = np.array([rng.choice(VALS) for _ in range(lq)])
        s = np.array([rng.choice(VALS) for _ in range(ls)])
    else:
        q = np.array([[rng.choice(VALS) for _ in range(nd)] for _ in range(lq)])
        s = np.array([[rng.choice(VALS) for _ in range(nd)] for _ in range(ls)])
    pen = rng.choice([0.1, 0, 0.5, 1.0])
    kw = dict(penalty=pen, ndim=nd)
    distinct.add((lq, ls, nd, pen))
    # expected matching function (distance units): sqrt of the best internal cost
    want = []
    for e in range(ls):
        best = min(dtw_sq(q, s[b:e + 1], pen * pen) for b in range(0, e + 1))
        want.append(math.sqrt(best) / lq)
    got = {}
    for use_c in (False, True):
        route = 'c' if use_c else 'py'
        try:
            sa = SubsequenceAlignment(q, s, penalty=pen, use_c=use_c)
            sa.align()
            mf = [float(x) for x in sa.matching_function()]
        except Exception as e:      # noqa
            report(route, q, s, kw, 'raised %s: %s' % (type(e).__name__, str(e)[:100]))
            continue
        evaluations += 1
        got[route] = mf
        if len(mf) != ls:
            report(route, q, s, kw, 'matching function has %d entries for a series of length %d' % (len(mf), ls))
            continue
        bad = [e for e in range(ls) if not close(mf[e], want[e])]
        if bad:
            e = bad[0]
            report(route, q, s, kw, 'matching function at end point %d is %r, best DTW over all start points / len(query) is %r' % (e, mf[e], want[e]))
            continue
        # best match
        try:
            m = sa.best_match()
            b, e = m.segment
            path = [(int(a), int(c_)) for a, c_ in m.path]
            val = float(m.value)
            dist = float(m.distance)
        except Exception as ex:      # noqa
            report(route, q, s, kw, 'best_match raised %s: %s' % (type(ex).__name__, str(ex)[:100]))
            continue
        evaluations += 1
        if not close(val, min(mf)):
            report(route, q, s, kw, 'best match value %r is not the minimum %r of the matching function' % (val, min(mf)))
        elif not (0 <= b <= e < ls) or not close(math.sqrt(dtw_sq(q, s[b:e + 1], pen * pen)), dist):
            report(route, q, s, kw, 'best match segment [%s, %s] does not realise the reported distance %r' % (b, e, dist), path=path)
        else:
            err = None
            if not path or path[0][0] != 0 or path[-1][0] != lq - 1 or path[0][1] != b or path[-1][1] != e:
                err = 'path does not run from (0, %d) to (%d, %d)' % (b, lq - 1, e)
            for (a1, c1), (a2, c2) in zip(path, path[1:]):
                if (a2 - a1, c2 - c1) not in ((1, 1), (1, 0), (0, 1)):
                    err = 'step %s -> %s' % ((a1, c1), (a2, c2))
            if err is None:
                acc = None
                for k, (a, c_) in enumerate(path):
                    d = cost(q[a], s[c_])
                    if acc is None:
                        acc = d
                    else:
                        pa, pc = path[k - 1]
                        acc = d + (acc + (0 if (a - pa, c_ - pc) == (1, 1) else pen * pen))
                if not close(math.sqrt(acc), dist):
                    err = 'cost along the path %r differs from the distance %r' % (math.sqrt(acc), dist)
            if err:
                report(route, q, s, kw, 'best match path: ' + err, path=path)
        # k-best iterator
        k = rng.choice([1, 2, 3, None])
        overlap = rng.choice([0, 0, 1])
        minlength = rng.choice([1, 2])
        maxlength = rng.choice([None, None, 3])
        kkw = dict(k=k, overlap=overlap, minlength=minlength, maxlength=maxlength)
        try:
            ms = [(int(m.idx), float(m.value), [int(x) for x in m.segment]) for m in sa.kbest_matches(**kkw)]
            ms2 = [(int(m.idx), float(m.value), [int(x) for x in m.segment]) for m in sa.kbest_matches(**kkw)]
        except Exception as ex:      # noqa
            report(route, q, s, dict(kw, **kkw), 'kbest_matches raised %s: %s' % (type(ex).__name__, str(ex)[:100]))
            continue
        evaluations += 1
        err = None
        if ms != ms2:
            err = 'repeating the iteration gave different matches'
        # two iterators over the same alignment object, advanced alternately, must each give the same sequence
        try:
            g1, g2 = sa.kbest_matches(**kkw), sa.kbest_matches(**kkw)
            a1, a2 = [], []
            for _ in range(len(ms) + 1):
                for g, acc in ((g1, a1), (g2, a2)):
                    m = next(g, None)
                    if m is not None:
                        acc.append((int(m.idx), float(m.value), [int(x) for x in m.segment]))
            if a1 != ms or a2 != ms:
                err = 'interleaved iterators give %r and %r, a single iteration gives %r' % (a1, a2, ms)
        except Exception as ex:      # noqa
            err = 'interleaved iteration raised %s: %s' % (type(ex).__name__, str(ex)[:80])
        if k is not None and len(ms) > k:
            err = 'more than k matches'
        if len(set(m[0] for m in ms)) != len(ms):
            err = 'an end point is reported twice'
        for x, y in zip(ms, ms[1:]):
            if y[1] < x[1] - 1e-12:
                err = 'values are not non-decreasing: %r then %r' % (x[1], y[1])
        for (_, _, (b_, e_)) in ms:
            ln = e_ - b_ + 1
            if ln < minlength or (maxlength is not None and ln > maxlength):
                err = 'segment [%d, %d] violates the length limits' % (b_, e_)
        if overlap == 0:
            for i1 in range(len(ms)):
                for i2 in range(i1 + 1, len(ms)):
                    (b1, e1), (b2, e2) = ms[i1][2], ms[i2][2]
                    shared = min(e1, e2) - max(b1, b2) + 1
                    if shared > 1:
                        err = 'segments [%d, %d] and [%d, %d] overlap in %d samples' % (b1, e1, b2, e2, shared)
        if err:
            report(route, q, s, dict(kw, **kkw), 'kbest_matches: ' + err, matches=ms)
    if 'py' in got and 'c' in got and len(got['py']) == len(got['c']):
        if any(not close(x, y) for x, y in zip(got['py'], got['c'])):
            report('engines', q, s, kw, 'Python and C matching functions differ', py=got['py'], c=got['c'])
    if len(samples) < 3 and 'py' in got:
        samples.append(dict(query=q.tolist(), series=s.tolist(), penalty=pen, matching=got['py']))

print('@@JSON@@' + json.dumps(dict(evaluations=evaluations, distinct_nontrivial=len(distinct), problems=problems[:400],
                                   n_problems=len(problems), samples=samples)))
