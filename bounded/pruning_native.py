"""Runs under /venv/bin/python: early abandoning must never change a result (C03).
For every small case and every route (Python/C distance, Python/C cost matrix) the result with
max_dist = m must be the unbounded result when that is clearly below m and infinity when clearly above;
use_pruning (where the Euclidean distance is a valid upper bound: no penalty or equal lengths, no
max_step, no psi) must give the unpruned result.  usage: pruning_native.py <repo> <seed> <n>"""
import sys
import json
import math
import random

repo, seed, n = sys.argv[1], int(sys.argv[2]), int(sys.argv[3])
sys.path.insert(0, repo + '/src')
import numpy as np  # noqa: E402
from dtaidistance import dtw, dtw_ndim  # noqa: E402

rng = random.Random(seed)
VALS = [0.0, 1.0, -1.0, 2.0, 0.5, 3.0, -2.5]
INF = float('inf')

ROUTES = {
    'py.distance': lambda a, b, kw: dtw.distance(a, b, **kw),
    'c.distance': lambda a, b, kw: dtw.distance_fast(a, b, **kw),
    'py.warping_paths': lambda a, b, kw: dtw.warping_paths(a, b, **kw)[0],
    'c.warping_paths': lambda a, b, kw: dtw.warping_paths_fast(a, b, **kw)[0],
}
evaluations = 0
distinct = set()
problems = []
samples = []


def run(route, a, b, kw):
    try:
        return float(ROUTES[route](a, b, kw))
    except Exception as e:      # noqa
        return 'raised %s: %s' % (type(e).__name__, str(e)[:80])


FIXED = [(np.array([0.0, 0.0, 0.0]), np.array([1.0, 1.0, 1.0]), {}),
         (np.array([0.5]), np.array([3.0, 1.0, 0.5]), {'window': 3, 'penalty': 0.5, 'psi': (0, 0, 2, 1)}),
         (np.array([0.5]), np.array([3.0, -2.5, 0.5, 1.0, -1.0]), {'window': 1})]
for case in range(n + len(FIXED)):
    l1, l2 = rng.randint(1, 6), rng.randint(1, 6)
    nd = 1 if rng.random() < 0.8 else 2
    if nd == 1:
        a = np.array([rng.choice(VALS) for _ in range(l1)])
        b = np.array([rng.choice(VALS) for _ in range(l2)])
    else:
        a = np.array([[rng.choice(VALS) for _ in range(nd)] for _ in range(l1)])
        b = np.array([[rng.choice(VALS) for _ in range(nd)] for _ in range(l2)])
    kw = {}
    if rng.random() < 0.5:
        kw['window'] = rng.randint(1, max(l1, l2) + 1)
    if rng.random() < 0.3:
        kw['penalty'] = rng.choice([0.5, 2.0])
    if rng.random() < 0.3:
        p = tuple(rng.randint(0, min(2, m - 1)) for m in (l1, l1, l2, l2))
        kw['psi'] = p
    if rng.random() < 0.3:
        kw['inner_dist'] = 'euclidean'
    if nd > 1:
        kw['use_ndim'] = True
    if case >= n:
        a, b, kw = FIXED[case - n]
        l1, l2 = len(a), len(b)
    for route in ROUTES:
        base = run(route, a, b, kw)
        if isinstance(base, str):
            continue            # the unbounded call itself is C01/C02/C04 business
        for factor in (0.5, 0.9, 1.1, 2.0):
            if base in (0.0, INF):
                m = 1.0
            else:
                m = base * factor
            got = run(route, a, b, dict(kw, max_dist=m))
            evaluations += 1
            distinct.add((route, case, factor))
            want = base if base < m * (1 - 1e-9) else (INF if base > m * (1 + 1e-9) else None)
            if want is not None and got != want and not (isinstance(got, float) and want != INF and abs(got - want) <= 1e-12 * max(1, abs(want))):
                problems.append(dict(route=route, s1=a.tolist(), s2=b.tolist(), kw={k: v for k, v in kw.items()}, max_dist=m,
                                     unbounded=base, got=got, what='max_dist changed the result'))
        ok_ub = ('max_step' not in kw) and ('psi' not in kw) and (('penalty' not in kw) or l1 == l2)
        if ok_ub:
            got = run(route, a, b, dict(kw, use_pruning=True))
            evaluations += 1
            distinct.add((route, case, 'prune'))
            if got != base and not (isinstance(got, float) and abs(got - base) <= 1e-12 * max(1, abs(base))):
                problems.append(dict(route=route, s1=a.tolist(), s2=b.tolist(), kw={k: v for k, v in kw.items()}, use_pruning=True,
                                     unbounded=base, got=got, what='use_pruning changed the result'))
        if len(samples) < 3:
            samples.append(dict(route=route, s1=a.tolist(), s2=b.tolist(), kw={k: v for k, v in kw.items()}, unbounded=base))
print('@@JSON@@' + json.dumps(dict(evaluations=evaluations, distinct_nontrivial=len(distinct), problems=problems[:600],
                                   n_problems=len(problems), samples=samples)))
