"""Runs under /venv/bin/python (NumPy + compiled extension of the working tree): the public routines
on the same numeric content in different containers; inputs must be left untouched, results must not
depend on the container, and repeating a call must give the same result.  Prints a JSON summary.
usage: purity_native.py <repo> <seed> <n>"""
import sys
import json
import random
import array
import copy

repo, seed, n = sys.argv[1], int(sys.argv[2]), int(sys.argv[3])
sys.path.insert(0, repo + '/src')
import numpy as np  # noqa: E402
from dtaidistance import dtw, ed, dtw_ndim, dtw_barycenter  # noqa: E402

rng = random.Random(seed)
VALS = [0.0, 1.0, -1.0, 2.0, 0.5, 3.0, -2.5]


def containers(vals):
    big = np.zeros(2 * len(vals))
    big[::2] = vals
    return {
        'list': list(vals), 'tuple': tuple(vals), 'array': array.array('d', vals),
        'ndarray': np.array(vals, dtype=np.double), 'strided': big[::2],
        'from_int_free_copy': np.array(list(vals), dtype=np.double).copy(),
    }


def snapshot(x):
    if isinstance(x, np.ndarray):
        return ('nd', x.tobytes(), x.shape, x.strides)
    if isinstance(x, array.array):
        return ('arr', x.tobytes())
    return ('py', repr(x))


def same(a, b):
    if isinstance(a, tuple) and isinstance(b, tuple):
        return len(a) == len(b) and all(same(x, y) for x, y in zip(a, b))
    if isinstance(a, (list,)) and isinstance(b, (list,)):
        return len(a) == len(b) and all(same(x, y) for x, y in zip(a, b))
    if isinstance(a, np.ndarray) or isinstance(b, np.ndarray):
        return np.array_equal(np.asarray(a), np.asarray(b), equal_nan=True)
    if isinstance(a, float) and isinstance(b, float):
        return a == b or (a != a and b != b)
    return a == b


ROUTINES = {
    'dtw.distance': (lambda a, b, kw: dtw.distance(a, b, **kw), ('list', 'tuple', 'array', 'ndarray', 'strided')),
    'dtw.distance_fast': (lambda a, b, kw: dtw.distance_fast(a, b, **kw), ('array', 'ndarray', 'strided')),
    'dtw.warping_paths': (lambda a, b, kw: dtw.warping_paths(a, b, **kw), ('list', 'array', 'ndarray', 'strided')),
    'dtw.warping_paths_fast': (lambda a, b, kw: dtw.warping_paths_fast(a, b, **kw), ('array', 'ndarray', 'strided')),
    'dtw.warping_path': (lambda a, b, kw: dtw.warping_path(a, b, **kw), ('list', 'array', 'ndarray', 'strided')),
    'dtw.warping_path_fast': (lambda a, b, kw: dtw.warping_path_fast(a, b, **kw), ('array', 'ndarray', 'strided')),
    'dtw.lb_keogh': (lambda a, b, kw: dtw.lb_keogh(a, b, window=kw.get('window')), ('list', 'array', 'ndarray', 'strided')),
    'ed.distance': (lambda a, b, kw: ed.distance(a, b), ('list', 'tuple', 'array', 'ndarray', 'strided')),
    'ed.distance_fast': (lambda a, b, kw: ed.distance_fast(a, b), ('array', 'ndarray', 'strided')),
}

evaluations = 0
distinct = set()
problems = []
samples = []
for case in range(n):
    l1, l2 = rng.randint(1, 6), rng.randint(1, 6)
    v1 = [rng.choice(VALS) for _ in range(l1)]
    v2 = [rng.choice(VALS) for _ in range(l2)]
    kw = {}
    if rng.random() < 0.5:
        kw['window'] = rng.randint(1, max(l1, l2) + 1)
    if rng.random() < 0.3:
        kw['penalty'] = rng.choice([0.5, 2.0])
    for name, (fn, kinds) in ROUTINES.items():
        ref = None
        for kind in kinds:
            a, b = containers(v1)[kind], containers(v2)[kind]
            sa, sb = snapshot(a), snapshot(b)
            try:
                r1 = fn(a, b, dict(kw))
                r2 = fn(a, b, dict(kw))
            except Exception as e:      # noqa
                problems.append(dict(routine=name, container=kind, s1=v1, s2=v2, kw=kw, what='raised %s: %s' % (type(e).__name__, e)))
                continue
            evaluations += 2
            distinct.add((name, kind, tuple(v1), tuple(v2), str(kw)))
            if snapshot(a) != sa or snapshot(b) != sb:
                problems.append(dict(routine=name, container=kind, s1=v1, s2=v2, kw=kw, what='an input series was modified'))
            if not same(r1, r2):
                problems.append(dict(routine=name, container=kind, s1=v1, s2=v2, kw=kw, what='repeating the call gave a different result'))
            if ref is None:
                ref = (kind, r1)
            elif not same(ref[1], r1):
                problems.append(dict(routine=name, container=kind, s1=v1, s2=v2, kw=kw,
                                     what='result differs between containers %s and %s' % (ref[0], kind)))
        if len(samples) < 3 and ref is not None:
            samples.append(dict(routine=name, s1=v1, s2=v2, kw=kw, result=repr(ref[1])[:80]))
# collections: distance matrices and the barycenter update must leave the collection untouched
for case in range(max(2, n // 10)):
    k = rng.randint(2, 4)
    series = [np.array([rng.choice(VALS) for _ in range(rng.randint(2, 5))]) for _ in range(k)]
    snaps = [snapshot(s) for s in series]
    for name, fn in (('dtw.distance_matrix', lambda: dtw.distance_matrix(series)),
                     ('dtw.distance_matrix_fast', lambda: dtw.distance_matrix_fast(series, parallel=False)),
                     ('dtw_barycenter.dba', lambda: dtw_barycenter.dba(series, series[0].copy(), use_c=False)),
                     ('dtw_barycenter.dba(use_c)', lambda: dtw_barycenter.dba(series, series[0].copy(), use_c=True))):
        try:
            r1 = fn()
            r2 = fn()
        except Exception as e:      # noqa
            problems.append(dict(routine=name, what='raised %s: %s' % (type(e).__name__, str(e)[:120])))
            continue
        evaluations += 2
        distinct.add((name, case))
        if [snapshot(s) for s in series] != snaps:
            problems.append(dict(routine=name, what='a series of the collection was modified', series=[list(map(float, s)) for s in series]))
        if not same(r1, r2):
            problems.append(dict(routine=name, what='repeating the call gave a different result'))
# multivariate series: the same (length, ndim) content as C-ordered array, as the transposed view of an (ndim, length)
# array (Fortran order), as every second row of a larger array, as a list of lists
def nd_containers(rows):
    c = np.array(rows, dtype=np.double)
    f = np.array(rows, dtype=np.double).T.copy().T           # same content, Fortran-ordered memory
    big = np.zeros((2 * c.shape[0], c.shape[1]))
    big[::2] = c
    wide = np.zeros((c.shape[0], 2 * c.shape[1]))
    wide[:, ::2] = c
    return {'c_order': c, 'f_order': f, 'strided_rows': big[::2], 'strided_cols': wide[:, ::2], 'list_of_lists': [list(r) for r in rows]}


ND_ROUTINES = {
    'dtw_ndim.distance': (lambda a, b, kw: dtw_ndim.distance(a, b, **kw), ('c_order', 'f_order', 'strided_rows', 'strided_cols')),
    'dtw_ndim.distance_fast': (lambda a, b, kw: dtw_ndim.distance_fast(a, b, **kw), ('c_order', 'f_order', 'strided_rows', 'strided_cols')),
    'dtw.distance(use_c,use_ndim)': (lambda a, b, kw: dtw.distance(a, b, use_c=True, use_ndim=True, **kw),
                                     ('c_order', 'f_order', 'strided_rows', 'strided_cols')),
    'dtw_ndim.warping_paths': (lambda a, b, kw: dtw_ndim.warping_paths(a, b, **kw), ('c_order', 'f_order', 'strided_rows')),
    'dtw_ndim.warping_paths_fast': (lambda a, b, kw: dtw_ndim.warping_paths_fast(a, b, **kw), ('c_order', 'f_order', 'strided_rows', 'strided_cols')),
    'ed.distance(ndim)': (lambda a, b, kw: ed.distance(a, b, use_ndim=True), ('c_order', 'f_order', 'strided_rows')),
}
for case in range(max(3, n // 3)):
    l1, l2, nd = rng.randint(2, 6), rng.randint(2, 6), rng.randint(2, 3)
    v1 = [[rng.choice(VALS) for _ in range(nd)] for _ in range(l1)]
    v2 = [[rng.choice(VALS) for _ in range(nd)] for _ in range(l2)]
    kw = {}
    if rng.random() < 0.5:
        kw['window'] = rng.randint(1, max(l1, l2) + 1)
    for name, (fn, kinds) in ND_ROUTINES.items():
        ref = None
        for kind in kinds:
            a, b = nd_containers(v1)[kind], nd_containers(v2)[kind]
            sa, sb = snapshot(a), snapshot(b)
            try:
                r1 = fn(a, b, dict(kw))
                r2 = fn(a, b, dict(kw))
            except Exception as e:      # noqa
                problems.append(dict(routine=name, container=kind, s1=v1, s2=v2, kw=kw, what='raised %s: %s' % (type(e).__name__, str(e)[:100])))
                continue
            evaluations += 2
            distinct.add((name, kind, case))
            if snapshot(a) != sa or snapshot(b) != sb:
                problems.append(dict(routine=name, container=kind, s1=v1, s2=v2, kw=kw, what='an input series was modified'))
            if not same(r1, r2):
                problems.append(dict(routine=name, container=kind, s1=v1, s2=v2, kw=kw, what='repeating the call gave a different result'))
            if ref is None:
                ref = (kind, r1)
            elif not same(ref[1], r1):
                problems.append(dict(routine=name, container=kind, s1=v1, s2=v2, kw=kw,
                                     what='result differs between containers %s and %s' % (ref[0], kind)))
# collections given as one 2-D matrix (C order, Fortran order, strided) and as a list of arrays
for case in range(max(2, n // 10)):
    k, ln = rng.randint(2, 4), rng.randint(2, 5)
    rows = [[rng.choice(VALS) for _ in range(ln)] for _ in range(k)]
    conts = nd_containers(rows)
    conts['list_of_arrays'] = [np.array(r) for r in rows]
    conts['list_of_array.array'] = [array.array('d', r) for r in rows]
    wide = np.zeros((len(rows), 2 * ln))
    wide[:, ::2] = np.array(rows)
    conts['list_of_strided_views'] = [wide[i, ::2] for i in range(len(rows))]
    colm = np.array(rows, dtype=np.double).T.copy()          # (length, k): the series are its columns
    conts['list_of_column_views'] = [colm[:, i] for i in range(len(rows))]
    for name, fn in (('dtw.distance_matrix', lambda s: dtw.distance_matrix(s)),
                     ('dtw.distance_matrix_fast', lambda s: dtw.distance_matrix_fast(s, parallel=False)),
                     ('dtw.distance_matrix_fast(block)', lambda s: dtw.distance_matrix_fast(s, block=((0, k - 1), (1, k)), parallel=False))):
        ref = None
        for kind in ('c_order', 'f_order', 'strided_rows', 'strided_cols', 'list_of_arrays', 'list_of_array.array',
                     'list_of_strided_views', 'list_of_column_views'):
            s = conts[kind]
            snap = [snapshot(x) for x in s] if isinstance(s, list) else snapshot(s)
            try:
                r1 = fn(s)
            except Exception as e:      # noqa
                problems.append(dict(routine=name, container=kind, rows=rows, what='raised %s: %s' % (type(e).__name__, str(e)[:100])))
                continue
            evaluations += 1
            distinct.add((name, kind, case))
            if ([snapshot(x) for x in s] if isinstance(s, list) else snapshot(s)) != snap:
                problems.append(dict(routine=name, container=kind, rows=rows, what='the collection was modified'))
            if ref is None:
                ref = (kind, r1)
            elif not same(ref[1], r1):
                problems.append(dict(routine=name, container=kind, rows=rows,
                                     what='result differs between containers %s and %s' % (ref[0], kind)))
# collections of multivariate series: list of C-ordered arrays vs list of transposed (Fortran-ordered) views vs one 3-D array
for case in range(max(2, n // 10)):
    k, ln, nd = rng.randint(2, 3), rng.randint(2, 4), 2
    sers = [np.array([[rng.choice(VALS) for _ in range(nd)] for _ in range(ln)], dtype=np.double) for _ in range(k)]
    conts = {'list_c': [s.copy() for s in sers], 'list_f_views': [s.T.copy().T for s in sers], 'array3d': np.array(sers)}
    for name, fn in (('dtw_ndim.distance_matrix', lambda s: dtw_ndim.distance_matrix(s)),
                     ('dtw_ndim.distance_matrix_fast', lambda s: dtw_ndim.distance_matrix_fast(s, parallel=False))):
        ref = None
        for kind in ('list_c', 'list_f_views', 'array3d'):
            s = conts[kind]
            snap = [snapshot(x) for x in s] if isinstance(s, list) else snapshot(s)
            try:
                r1 = fn(s)
            except Exception as e:      # noqa
                problems.append(dict(routine=name, container=kind, what='raised %s: %s' % (type(e).__name__, str(e)[:100])))
                continue
            evaluations += 1
            distinct.add((name, kind, 'nd', case))
            if ([snapshot(x) for x in s] if isinstance(s, list) else snapshot(s)) != snap:
                problems.append(dict(routine=name, container=kind, what='the collection was modified'))
            if ref is None:
                ref = (kind, r1)
            elif not same(ref[1], r1):
                problems.append(dict(routine=name, container=kind, what='result differs between containers %s and %s' % (ref[0], kind)))
print('@@JSON@@' + json.dumps(dict(evaluations=evaluations, distinct_nontrivial=len(distinct), problems=problems[:300],
                                   n_problems=len(problems), samples=samples)))
