"""Runs under /venv/bin/python (C14, bounded stand-in).

Random query x candidate lists (1..6 series, duplicates and ties) x k in 1..N+1 or None x window / penalty / max_dist /
max_value x use_lb x use_c x ndim, and sequences of kbest_matches / best_match calls on one SubsequenceSearch object:
the returned distances must be the k smallest DTW distances of an exhaustive comparison (independent dynamic programme),
in ascending order, every returned index must have exactly its reported distance, no index twice, nothing above
max_dist; a call sequence on one object must answer like a fresh object.
usage: knn_native.py <repo> <seed> <n>"""
import sys
import json
import math
import random

repo, seed, n = sys.argv[1], int(sys.argv[2]), int(sys.argv[3])
sys.path.insert(0, repo + '/src')
import numpy as np  # noqa: E402
from dtaidistance.subsequence.subsequencesearch import SubsequenceSearch  # noqa: E402

rng = random.Random(seed)
VALS = [0.0, 1.0, -1.0, 2.0, 0.5, 3.0]
INF = float('inf')
problems, samples = [], []
evaluations = 0
distinct = set()


def cost(x, y):
    if np.ndim(x) > 0:
        return float(np.sum((np.asarray(x) - np.asarray(y)) ** 2))
    return (x - y) ** 2


def dtw_ref(q, s, window, pen):
    r, c = len(q), len(s)
    w = max(r, c) if window is None else window
    pen2 = pen * pen if pen else 0.0
    D = [[INF] * (c + 1) for _ in range(r + 1)]
    D[0][0] = 0.0
    for i in range(r):
        for j in range(max(0, i - max(0, r - c) - w + 1), min(c, i + max(0, c - r) + w)):
            D[i + 1][j + 1] = cost(q[i], s[j]) + min(D[i][j], D[i][j + 1] + pen2, D[i + 1][j] + pen2)
    return math.sqrt(D[r][c]) if D[r][c] != INF else INF


def close(a, b):
    if a == b:
        return True
    if math.isinf(a) or math.isinf(b):
        return False
    return abs(a - b) <= 1e-9 * max(1.0, abs(a), abs(b))


def answer(ss, call):
    kind, k = call
    if kind == 'best':
        m = ss.best_match()
        try:
            return [(float(m.distance), int(m.idx))]
        except IndexError:
            # no candidate within max_dist: best_match() hands out a match object without content
            return []
    ms = ss.kbest_matches(k=k)
    return [(float(m.distance), int(m.idx)) for m in ms]


def judge(res, ref, k, maxd):
    """res: [(dist, idx)], ref: exhaustive distances"""
    finite = sorted(d for d in ref if d != INF and d <= maxd + 1e-12)
    want = finite if k is None else finite[:k]
    if k is None:
        # k=None returns all comparisons in ascending order (no threshold is applied)
        want = sorted(ref)
        if len(res) != len(ref):
            return 'k=None returned %d matches for %d candidates' % (len(res), len(ref))
    idxs = [i for _, i in res]
    if len(set(idxs)) != len(idxs):
        return 'an index is returned twice: %r' % (idxs,)
    for d, i in res:
        if not (0 <= i < len(ref)):
            return 'index %r out of range' % i
        if k is not None and not close(d, ref[i]):
            return 'match %d is reported with distance %r, exhaustive distance %r' % (i, d, ref[i])
        if k is None and not (close(d, ref[i]) or (d == INF and ref[i] > maxd - 1e-12)):
            # all comparisons: a candidate beyond max_dist may be reported as inf (early abandoning), never as something else
            return 'k=None: candidate %d is reported with distance %r, exhaustive distance %r (max_dist %r)' % (i, d, ref[i], maxd)
    got = [d for d, _ in res]
    if any(y < x - 1e-12 for x, y in zip(got, got[1:])):
        return 'distances are not ascending: %r' % (got,)
    if k is None:
        return None
    if len(got) != len(want) or any(not close(x, y) for x, y in zip(got, want)):
        return 'returned distances %r, the %s smallest exhaustive distances are %r' % (got, k, want)
    return None


for it in range(n):
    nd = rng.choice([1, 1, 1, 2])
    lq = rng.randint(2, 4)
    ncand = rng.randint(1, 6)

    def mk(ln):
        if nd == 1:
            return np.array([rng.choice(VALS) for _ in range(ln)])
        return np.array([[rng.choice(VALS) for _ in range(nd)] for _ in range(ln)])
    q = mk(lq)
    cands = []
    for _ in range(ncand):
        if cands and rng.random() < 0.25:
            cands.append(cands[rng.randrange(len(cands))].copy())      # duplicates / ties
        else:
            cands.append(mk(lq if rng.random() < 0.6 else rng.randint(2, 5)))
    opts = {}
    if rng.random() < 0.5:
        opts['window'] = rng.randint(1, 3)
    if rng.random() < 0.3:
        opts['penalty'] = rng.choice([0.5, 1.0])
    ref = [dtw_ref(q, s, opts.get('window'), opts.get('penalty')) for s in cands]
    kwargs = {}
    maxd = INF
    r_ = rng.random()
    if r_ < 0.2:
        kwargs['max_dist'] = rng.choice([1.0, 2.0, 3.5])
        maxd = kwargs['max_dist']
    elif r_ < 0.35:
        kwargs['max_value'] = rng.choice([0.5, 1.0])
        maxd = kwargs['max_value'] * lq
    use_lb = rng.random() < 0.6
    use_c = rng.random() < 0.5
    calls = []
    for _ in range(rng.randint(1, 3)):
        calls.append(rng.choice([('k', 1), ('k', 2), ('k', ncand), ('k', ncand + 1), ('k', None), ('best', 1), ('k', 3)]))
    desc = dict(opts=opts, kwargs=kwargs, use_lb=use_lb, use_c=use_c, ndim=nd, calls=[list(c) for c in calls])
    distinct.add((nd, ncand, use_lb, use_c, tuple(sorted(opts)), tuple(sorted(kwargs))))
    try:
        ss = SubsequenceSearch(q, cands, dists_options=dict(opts), use_lb=use_lb, use_c=use_c, **kwargs)
        for ci, call in enumerate(calls):
            res = answer(ss, call)
            evaluations += 1
            k = 1 if call[0] == 'best' else call[1]
            err = judge(res, ref, k, maxd)
            if err is None:
                fresh = SubsequenceSearch(q, cands, dists_options=dict(opts), use_lb=use_lb, use_c=use_c, **kwargs)
                res2 = answer(fresh, call)
                if [round(d, 9) for d, _ in res] != [round(d, 9) for d, _ in res2]:
                    err = 'call %d of the sequence answers %r, a fresh object answers %r' % (ci, res, res2)
            if err:
                problems.append(dict(route='c' if use_c else 'py', query=q.tolist(), cands=[c.tolist() for c in cands], desc=desc,
                                     call=list(call), exhaustive=ref, what=err))
                break
    except Exception as e:      # noqa
        problems.append(dict(route='c' if use_c else 'py', query=q.tolist(), cands=[c.tolist() for c in cands], desc=desc,
                             what='raised %s: %s' % (type(e).__name__, str(e)[:100])))
        continue
    if len(samples) < 3:
        samples.append(dict(query=q.tolist(), n_candidates=ncand, desc=desc, exhaustive=ref))

print('@@JSON@@' + json.dumps(dict(evaluations=evaluations, distinct_nontrivial=len(distinct), problems=problems[:400],
                                   n_problems=len(problems), samples=samples)))
