"""Runs under /venv/bin/python (C16, bounded stand-in).

Random data sets (n > k series, ndim 1..2, duplicates allowed) x k x seeds x initialisation mode (k-means++, random, sample
size) x drop_stddev x window / penalty x use_c x serial (and a few parallel) fits:
  exactly k index sets keyed 0..k-1 that partition all series, k mean series, every series in the cluster of a mean that
  is nearest to it under DTW with the given options (recomputed with the pure-Python distance, which is under contract),
  iteration count <= max_it + 1.
usage: kmeans_native.py <repo> <seed> <n>"""
import sys
import json
import math
import random
import io
import contextlib

repo, seed, n = sys.argv[1], int(sys.argv[2]), int(sys.argv[3])
sys.path.insert(0, repo + '/src')
import numpy as np  # noqa: E402
from dtaidistance import dtw, dtw_ndim  # noqa: E402
from dtaidistance.clustering.kmeans import KMeans  # noqa: E402

rng = random.Random(seed)
VALS = [0.0, 1.0, -1.0, 2.0, 0.5, 3.0, 4.0]
problems, samples = [], []
evaluations = 0
distinct = set()

for it in range(n):
    nd = rng.choice([1, 1, 1, 2])
    ns = rng.randint(3, 8)
    ln = rng.randint(3, 5)

    def mk():
        if nd == 1:
            return [rng.choice(VALS) for _ in range(ln)]
        return [[rng.choice(VALS) for _ in range(nd)] for _ in range(ln)]
    rows = []
    for _ in range(ns):
        if rows and rng.random() < 0.2:
            rows.append([list(x) if isinstance(x, list) else x for x in rows[rng.randrange(len(rows))]])
        else:
            rows.append(mk())
    data = np.array(rows, dtype=np.double)
    k = rng.randint(1, ns - 1)
    tight = (it % 3 == 2)
    if tight:
        # many series at equal or nearly equal distance from several means: short series over a handful of small integers,
        # duplicates, two clusters (where the order of "update the means" and "assign" shows)
        # R three times, S two steps away along one axis, Q equally far from R and S, P pulling R's mean a little
        nd, ln, ns, k = 1, 3, 6, 2
        R_ = [float(rng.randint(1, 4)) for _ in range(3)]
        a_, b_, c_ = rng.sample(range(3), 3)
        sa_, sb_ = rng.choice([-1.0, 1.0]), rng.choice([-1.0, 1.0])
        S_ = list(R_); S_[a_] += 2 * sa_                                    # noqa: E702
        Q_ = list(R_); Q_[a_] += sa_; Q_[b_] += sb_                           # noqa: E702
        P_ = list(R_); P_[a_] -= sa_; P_[b_] -= sb_; P_[c_] += rng.choice([-1.0, 1.0])      # noqa: E702
        rows = [P_, Q_, list(R_), list(R_), S_, list(R_)]
        rng.shuffle(rows)
        data = np.array(rows, dtype=np.double)
    opts = {}
    if rng.random() < 0.4 and not tight:
        opts['window'] = rng.randint(1, 3)
    if rng.random() < 0.3 and not tight:
        opts['penalty'] = rng.choice([0.5, 1.0])
    use_c = rng.random() < 0.5
    if use_c:
        opts['use_c'] = True
    init = rng.choice(['kmeans++', 'kmeans++', 'random', 'sample'])
    kw = dict(max_it=rng.choice([1, 3, 10]), max_dba_it=rng.choice([1, 5]), drop_stddev=rng.choice([None, None, 1, 2]),
              dists_options=dict(opts), show_progress=False)
    # the convergence threshold is an absolute change of the means: besides the default, values of the order of the data
    # (the loop then stops while the means still move, and the returned assignment must be the one for the returned means)
    thr = rng.choice([None, None, 0.02, 0.05, 0.2])
    if tight:
        thr = rng.choice([0.05, 0.1])
        kw.update(max_it=10, max_dba_it=10, drop_stddev=None)
        init = 'kmeans++'
    if thr is not None:
        kw['thr'] = thr
    if init == 'random':
        kw['initialize_with_kmeanspp'] = False
    if init == 'sample':
        kw['initialize_sample_size'] = rng.randint(1, 3)
    parallel = (it % 25 == 0)
    sd = rng.randint(0, 10 ** 6)
    desc = dict(k=k, opts=opts, init=init, thr=thr, max_it=kw['max_it'], max_dba_it=kw['max_dba_it'], drop_stddev=kw['drop_stddev'],
                parallel=parallel, seed=sd, ndim=nd)
    distinct.add((ns, k, nd, init, use_c, kw['drop_stddev'], tuple(sorted(opts))))
    np.random.seed(sd)
    random.seed(sd)
    try:
        with contextlib.redirect_stdout(io.StringIO()):
            model = KMeans(k=k, **kw)
            clusters, its = model.fit(data, use_parallel=parallel)
    except Exception as e:      # noqa
        problems.append(dict(route='c' if use_c else 'py', data=data.tolist(), desc=desc, what='raised %s: %s' % (type(e).__name__, str(e)[:120])))
        continue
    evaluations += 1
    err = None
    if sorted(clusters.keys()) != list(range(k)):
        err = 'cluster keys %r are not 0..%d' % (sorted(clusters.keys()), k - 1)
    elif sorted(i for c in clusters.values() for i in c) != list(range(ns)):
        err = 'clusters %r do not partition 0..%d' % ({a: sorted(b) for a, b in clusters.items()}, ns - 1)
    elif len(model.means) != k or any(m is None for m in model.means):
        err = 'model holds %d means for k=%d' % (len([m for m in model.means if m is not None]), k)
    elif its > kw['max_it'] + 1:
        err = 'reported %d iterations for max_it=%d' % (its, kw['max_it'])
    else:
        o2 = {a: b for a, b in opts.items() if a != 'use_c'}
        for ci, members in clusters.items():
            for idx in members:
                if nd == 1:
                    ds = [float(dtw.distance(data[idx], np.asarray(m, dtype=np.double), **o2)) for m in model.means]
                else:
                    ds = [float(dtw_ndim.distance(data[idx], np.asarray(m, dtype=np.double), **o2)) for m in model.means]
                if ds[ci] > min(ds) + 1e-9 * max(1.0, min(ds)):
                    err = 'series %d is in cluster %d at distance %r, mean %d is nearer (%r)' % (idx, ci, ds[ci], ds.index(min(ds)), min(ds))
                    break
            if err:
                break
    if err:
        problems.append(dict(route='c' if use_c else 'py', data=data.tolist(), desc=desc, what=err,
                             clusters={str(a): sorted(int(x) for x in b) for a, b in clusters.items()}))
    elif len(samples) < 3:
        samples.append(dict(n_series=ns, desc=desc, clusters={str(a): sorted(int(x) for x in b) for a, b in clusters.items()}, iterations=int(its)))

print('@@JSON@@' + json.dumps(dict(evaluations=evaluations, distinct_nontrivial=len(distinct), problems=problems[:400],
                                   n_problems=len(problems), samples=samples)))
