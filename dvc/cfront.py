"""C front end: clang's JSON AST of the real translation units (the files setup.py compiles) is
converted mechanically into the node vocabulary the executor walks (Python `ast` classes for
shared constructs, cnodes.* for C-only ones).

Dropped, exactly: comments, `#ifdef DTWDEBUG` blocks (removed by the preprocessor as in the real
build), calls to printf/fflush (no-ops).  Everything else either translates or raises Unsupported.
"""
import ast
import json
import os
import subprocess
import hashlib
from .state import Unsupported
from .vals import FuncV, Ptr
from . import cnodes
from .program import FuncInfo, CDIR

HERE = os.path.dirname(os.path.dirname(os.path.abspath(__file__)))

BINOPS = {'+': ast.Add, '-': ast.Sub, '*': ast.Mult, '/': ast.Div, '%': ast.Mod,
          '&': ast.BitAnd, '|': ast.BitOr, '^': ast.BitXor, '<<': ast.LShift, '>>': ast.RShift}
CMPS = {'<': ast.Lt, '<=': ast.LtE, '>': ast.Gt, '>=': ast.GtE, '==': ast.Eq, '!=': ast.NotEq}
NOOP_CALLS = {'printf', 'fflush', 'fprintf', 'puts', 'putchar', 'signal'}


class TU:
    def __init__(self, name):
        self.name = name
        self.functions = {}
        self.structs = {}
        self.typedefs = {}
        self.globals = {}


class Conv:
    def __init__(self, tu, fname):
        self.tu = tu
        self.fname = fname
        self.line = 0
        self.file = None
        self.src_lines = []
        self.decl_names = {}
        self.used_names = set()

    def begin_function(self):
        self.decl_names = {}
        self.scopes = [set()]

    def declare(self, n):
        """C block scoping: a declaration that shadows an earlier one of the same function gets a
        fresh name (`d` -> `d__2`), so the executor's flat variable map is faithful."""
        base = n.get('name', '_')
        name = base
        k = 1
        while any(name in s for s in self.scopes):
            k += 1
            name = '%s__%d' % (base, k)
        self.scopes[-1].add(name)
        if 'id' in n:
            self.decl_names[n['id']] = name
        return name

    def ref_name(self, n):
        rd = n['referencedDecl']
        return self.decl_names.get(rd.get('id'), rd['name'])

    # -- location tracking: clang prints `line`/`file` only when they change (delta encoding)
    def loc(self, d):
        if not isinstance(d, dict):
            return
        for k, v in d.items():
            if k == 'line':
                self.line = v
            elif k == 'file':
                self.file = v
            elif isinstance(v, dict):
                self.loc(v)

    def enter(self, n):
        self.loc(n.get('loc'))
        r = n.get('range') or {}
        b = r.get('begin') or {}
        if 'expansionLoc' in b:
            self.loc(b.get('spellingLoc'))
            self.loc(b.get('expansionLoc'))
        else:
            self.loc(b)
        line = self.line
        self.loc(r.get('end'))
        return line

    def mk(self, cls, line, **kw):
        node = cls(**kw)
        node.lineno = line
        node.col_offset = 0
        node.end_lineno = line
        node.end_col_offset = 0
        return node

    # ------------------------------------------------------------------ statements
    def stmts(self, n):
        """Convert a statement node to a list of executor statements."""
        k = n.get('kind')
        if k is None:
            return []
        line = self.enter(n)
        inner = n.get('inner') or []
        if k == 'CompoundStmt':
            out = []
            self.scopes.append(set())
            try:
                for c in inner:
                    out += self.stmts(c)
            finally:
                self.scopes.pop()
            return out
        if k == 'DeclStmt':
            out = []
            for c in inner:
                if c.get('kind') != 'VarDecl':
                    self.enter(c)
                    continue
                l2 = self.enter(c)
                init = None
                ci = [x for x in (c.get('inner') or []) if x.get('kind') not in ('FullComment',)]
                if ci and 'init' in c:
                    init = self.expr(ci[-1])
                out.append(self.mk(cnodes.CDecl, l2, name=self.declare(c), ctype=self.qt(c), init=init))
            return out
        if k == 'IfStmt':
            parts = [c for c in inner]
            test = self.expr(parts[0])
            body = self.stmts(parts[1])
            orelse = self.stmts(parts[2]) if len(parts) > 2 else []
            return [self.mk(ast.If, line, test=test, body=body or [self.mk(ast.Pass, line)], orelse=orelse)]
        if k == 'ForStmt':
            init_n, condvar, cond_n, inc_n, body_n = inner
            self.scopes.append(set())
            try:
                init = self.stmts(init_n) if init_n.get('kind') else []
                test = self.expr(cond_n) if cond_n.get('kind') else None
                step = self.stmts(inc_n) if inc_n.get('kind') else []
                body = self.stmts(body_n)
            finally:
                self.scopes.pop()
            return [self.mk(cnodes.CFor, line, init=init, test=test, step=step, body=body or [self.mk(ast.Pass, line)])]
        if k == 'WhileStmt':
            test = self.expr(inner[0])
            body = self.stmts(inner[1])
            return [self.mk(ast.While, line, test=test, body=body or [self.mk(ast.Pass, line)], orelse=[])]
        if k == 'ReturnStmt':
            v = self.expr(inner[0]) if inner else None
            return [self.mk(ast.Return, line, value=v)]
        if k == 'BreakStmt':
            return [self.mk(ast.Break, line)]
        if k == 'ContinueStmt':
            return [self.mk(ast.Continue, line)]
        if k == 'NullStmt':
            return []
        if k == 'OMPParallelForDirective':
            privates, clauses, loop = [], [], None
            # clang 14 prints clauses without a kind: read the clause list from the pragma text
            # of the real source line and cross-check it with the DeclRefExprs of the AST
            import re
            text = self.src_lines[line - 1] if 0 < line <= len(self.src_lines) else ''
            k2 = line
            while text.rstrip().endswith('\\') and k2 < len(self.src_lines):
                text = text.rstrip()[:-1] + ' ' + self.src_lines[k2]
                k2 += 1
            if 'pragma' not in text or 'omp' not in text:
                raise Unsupported('cannot locate the OpenMP pragma text at line %d of %s' % (line, self.fname))
            for cl, arg in re.findall(r'(\w+)\s*\(([^)]*)\)', text.split('for', 1)[1] if 'for' in text else ''):
                clauses.append(cl)
                if cl == 'private':
                    privates = [x.strip() for x in arg.split(',') if x.strip()]
                elif cl not in ('schedule', 'num_threads'):
                    raise Unsupported('OpenMP clause %s(%s) is outside the verified subset' % (cl, arg))
            ast_refs = []
            for c in inner:
                ck = c.get('kind')
                if ck is None and c.get('inner') and all(d.get('kind') == 'DeclRefExpr' for d in c['inner']):
                    self.enter(c)
                    for d in c['inner']:
                        self.enter(d)
                        ast_refs.append(self.ref_name(d))
                    continue
                if ck == 'OMPPrivateClause':
                    self.enter(c)
                    for d in c.get('inner') or []:
                        self.enter(d)
                        privates.append(self.ref_name(d))
                    clauses.append('private')
                elif ck and ck.startswith('OMP') and ck.endswith('Clause'):
                    self.enter(c)
                    clauses.append(ck)
                    for d in c.get('inner') or []:
                        self.skip(d)
                elif ck == 'CapturedStmt':
                    self.enter(c)
                    for d in c.get('inner') or []:
                        if d.get('kind') == 'CapturedDecl':
                            self.enter(d)
                            for e in d.get('inner') or []:
                                if e.get('kind') == 'ForStmt':
                                    loop = self.stmts(e)[0]
                                else:
                                    self.skip(e)
                        else:
                            self.skip(d)
                elif ck == 'ForStmt':
                    loop = self.stmts(c)[0]
                else:
                    self.skip(c)
            if loop is None:
                raise Unsupported('OpenMP directive without a for loop (line %d)' % line)
            if ast_refs and sorted(ast_refs) != sorted(privates):
                raise Unsupported('private(...) of the pragma text %s and of the AST %s disagree (line %d)' % (privates, ast_refs, line))
            return [self.mk(cnodes.COmpFor, line, privates=privates, loop=loop, clauses=clauses)]
        # expression statement
        e = self.expr_entered(n, line)
        return [self.mk(ast.Expr, line, value=e)]

    def skip(self, n):
        if not isinstance(n, dict) or not n.get('kind'):
            return
        self.enter(n)
        for c in n.get('inner') or []:
            self.skip(c)

    def qt(self, n):
        t = n.get('type', {})
        return t.get('qualType', '')

    # ------------------------------------------------------------------ expressions
    def expr(self, n):
        line = self.enter(n)
        return self.expr_entered(n, line)

    def expr_entered(self, n, line):
        k = n['kind']
        inner = n.get('inner') or []
        mk = self.mk
        if k in ('ParenExpr', 'ConstantExpr'):
            return self.expr(inner[0])
        if k == 'ImplicitCastExpr':
            ck = n.get('castKind')
            v = self.expr(inner[0])
            if ck in ('LValueToRValue', 'NoOp', 'ArrayToPointerDecay', 'FunctionToPointerDecay', 'BitCast',
                      'FloatingCast', 'BuiltinFnToFnPtr'):
                return v
            if ck == 'IntegralCast':
                t = self.qt(n)
                if t in ('int', 'unsigned char', 'ba_t', 'char', 'unsigned int'):
                    return mk(cnodes.CCast, line, ctype=t, value=v)
                return v
            if ck in ('IntegralToFloating', 'FloatingToIntegral', 'IntegralToBoolean', 'FloatingToBoolean',
                      'PointerToBoolean'):
                return mk(cnodes.CCast, line, ctype=self.qt(n), value=v)
            if ck == 'NullToPointer':
                return mk(ast.Constant, line, value=None)
            if ck == 'ToVoid':
                return v
            raise Unsupported('cast kind %s (line %d of %s)' % (ck, line, self.fname))
        if k == 'CStyleCastExpr':
            v = self.expr(inner[0])
            ck = n.get('castKind')
            if ck == 'ToVoid':
                return v
            if ck == 'NullToPointer':
                return mk(ast.Constant, line, value=None)
            return mk(cnodes.CCast, line, ctype=self.qt(n), value=v)
        if k == 'DeclRefExpr':
            return mk(ast.Name, line, id=self.ref_name(n), ctx=ast.Load())
        if k == 'IntegerLiteral':
            return mk(ast.Constant, line, value=int(n['value']))
        if k == 'FloatingLiteral':
            return mk(ast.Constant, line, value=float(n['value']))
        if k == 'StringLiteral':
            return mk(ast.Constant, line, value=str(n.get('value', '')))
        if k == 'CharacterLiteral':
            return mk(ast.Constant, line, value=int(n['value']))
        if k == 'PredefinedExpr':
            for c in inner:
                self.skip(c)
            return mk(ast.Constant, line, value='<func>')
        if k == 'MemberExpr':
            v = self.expr(inner[0])
            return mk(ast.Attribute, line, value=v, attr=n['name'], ctx=ast.Load())
        if k == 'ArraySubscriptExpr':
            b = self.expr(inner[0])
            i = self.expr(inner[1])
            return mk(ast.Subscript, line, value=b, slice=i, ctx=ast.Load())
        if k == 'ConditionalOperator':
            c = self.expr(inner[0])
            a = self.expr(inner[1])
            b = self.expr(inner[2])
            return mk(ast.IfExp, line, test=c, body=a, orelse=b)
        if k == 'BinaryOperator':
            op = n['opcode']
            a = self.expr(inner[0])
            b = self.expr(inner[1])
            if op in BINOPS:
                return mk(ast.BinOp, line, left=a, op=BINOPS[op](), right=b)
            if op in CMPS:
                return mk(ast.Compare, line, left=a, ops=[CMPS[op]()], comparators=[b])
            if op == '&&':
                return mk(ast.BoolOp, line, op=ast.And(), values=[a, b])
            if op == '||':
                return mk(ast.BoolOp, line, op=ast.Or(), values=[a, b])
            if op == '=':
                return mk(cnodes.CAssignExpr, line, target=a, op=None, value=b)
            if op == ',':
                return mk(cnodes.CSeq, line, exprs=[a, b])
            raise Unsupported('binary operator %s (line %d)' % (op, line))
        if k == 'CompoundAssignOperator':
            op = n['opcode'][:-1]
            a = self.expr(inner[0])
            b = self.expr(inner[1])
            if op not in BINOPS:
                raise Unsupported('compound assignment %s' % n['opcode'])
            return mk(cnodes.CAssignExpr, line, target=a, op=BINOPS[op], value=b)
        if k == 'UnaryOperator':
            op = n['opcode']
            v = self.expr(inner[0])
            if op in ('++', '--'):
                return mk(cnodes.CIncDec, line, target=v, delta=1 if op == '++' else -1, prefix=not n.get('isPostfix', False))
            if op == '-':
                return mk(ast.UnaryOp, line, op=ast.USub(), operand=v)
            if op == '+':
                return v
            if op == '!':
                return mk(ast.UnaryOp, line, op=ast.Not(), operand=v)
            if op == '*':
                return mk(cnodes.CDeref, line, value=v, ctx=ast.Load())
            if op == '&':
                return mk(cnodes.CAddr, line, value=v)
            if op == '~':
                return mk(ast.UnaryOp, line, op=ast.Invert(), operand=v)
            if op == '__extension__':
                return v
            raise Unsupported('unary operator %s' % op)
        if k == 'CallExpr':
            f = self.expr(inner[0])
            args = [self.expr(c) for c in inner[1:]]
            return mk(ast.Call, line, func=f, args=args, keywords=[])
        if k == 'UnaryExprOrTypeTraitExpr':
            if n.get('name') != 'sizeof':
                raise Unsupported('type trait %s' % n.get('name'))
            for c in inner:
                self.skip(c)
            t = (n.get('argType') or {}).get('qualType')
            if t is None and inner:
                t = self.qt(inner[0])
            return mk(cnodes.CSizeof, line, ctype=t)
        if k == 'InitListExpr':
            t = self.qt(n)
            vals = [self.expr(c) for c in inner]
            return mk(cnodes.CInitList, line, fields=None, values=vals, ctype=t)
        if k == 'StmtExpr':
            # glibc's assert(): ({ if (cond) ; else __assert_fail(...); })
            body = self.stmts(inner[0])
            return mk(cnodes.CStmtExpr, line, body=body)
        if k == 'ImplicitValueInitExpr':
            return mk(ast.Constant, line, value=0)
        raise Unsupported('C expression kind %s (line %d of %s)' % (k, line, self.fname))


def clang_json(path, incdirs, defines=()):
    cmd = ['clang', '-Xclang', '-ast-dump=json', '-fsyntax-only', '-fopenmp', '-I' + os.path.join(HERE, 'stubs')]
    for i in incdirs:
        cmd.append('-I' + i)
    for d in defines:
        cmd.append('-D' + d)
    cmd.append(path)
    p = subprocess.run(cmd, capture_output=True, text=True, timeout=300)
    if p.returncode != 0 and not p.stdout:
        raise Unsupported('clang failed on %s: %s' % (path, p.stderr[-1000:]))
    return json.loads(p.stdout)


_TU_CACHE = {}


def load_tu(program, fname):
    key = (program.repo, fname)
    if key in _TU_CACHE:
        return _TU_CACHE[key]
    cdir = os.path.join(program.repo, CDIR)
    path = os.path.join(cdir, fname)
    program.files_read.add(os.path.relpath(path, program.repo))
    tree = clang_json(path, [cdir])
    tu = TU(fname)
    conv = Conv(tu, fname)
    conv.src_lines = open(path).read().split('\n')
    for n in tree.get('inner', []):
        k = n.get('kind')
        line = conv.enter(n)
        infile = conv.file is None or conv.file.endswith(fname) or conv.file.endswith('.h') and 'DTAIDistanceC' in conv.file
        if k == 'RecordDecl' and n.get('name'):
            fields = []
            for c in n.get('inner') or []:
                if c.get('kind') == 'FieldDecl':
                    conv.enter(c)
                    fields.append((c.get('name', '_'), c['type']['qualType']))
                else:
                    conv.skip(c)
            if fields:
                tu.structs['struct ' + n['name']] = fields
            continue
        if k == 'TypedefDecl':
            tu.typedefs[n['name']] = n['type']['qualType']
            for c in n.get('inner') or []:
                conv.skip(c)
            continue
        if k == 'FunctionDecl':
            body = None
            params = []
            conv.begin_function()
            in_this_file = conv.file is not None and conv.file.endswith('/' + fname) or conv.file is None
            for c in n.get('inner') or []:
                ck = c.get('kind')
                if ck == 'ParmVarDecl':
                    conv.enter(c)
                    params.append((conv.declare(c), c['type']['qualType']))
                    for d in c.get('inner') or []:
                        conv.skip(d)
                elif ck == 'CompoundStmt':
                    if n.get('name') in WANTED_ALL or True:
                        try:
                            body = conv.stmts(c)
                        except Unsupported as e:
                            body = e
                else:
                    conv.skip(c)
            if body is not None:
                fn = ast.FunctionDef(name=n['name'], args=ast.arguments(
                    posonlyargs=[], args=[ast.arg(arg=p) for p, _ in params], vararg=None, kwonlyargs=[],
                    kw_defaults=[], kwarg=None, defaults=[]), body=body if isinstance(body, list) else [],
                    decorator_list=[], returns=None)
                fn.lineno = line
                fn.ctypes = dict(params)
                fn.rettype = n['type']['qualType'].split('(')[0].strip()
                fn.unsupported = body if isinstance(body, Unsupported) else None
                fi = FuncInfo('%s::%s' % (fname, n['name']), fn, 'c', tu)
                tu.functions[n['name']] = fi
            continue
        if k == 'VarDecl':
            tu.globals[n['name']] = n['type']['qualType']
            for c in n.get('inner') or []:
                conv.skip(c)
            continue
        for c in n.get('inner') or []:
            conv.skip(c)
    # resolve typedef'd struct names
    for td, t in tu.typedefs.items():
        if t in tu.structs:
            tu.structs[td] = tu.structs[t]
    program.structs.update(tu.structs)
    _TU_CACHE[key] = tu
    return tu


WANTED_ALL = set()


def c_global(program, finfo, n, ex):
    tu = finfo.module
    if n in tu.functions:
        return FuncV('%s::%s' % (tu.name, n))
    # functions defined in another translation unit of the engine
    for other in ('dd_dtw.c', 'dd_ed.c', 'dd_dtw_openmp.c'):
        if other == tu.name:
            continue
        if other in [k[1] for k in _TU_CACHE if k[0] == program.repo] or n.startswith(('dtw_', 'euclidean_', 'ub_', 'lb_')):
            t2 = load_tu(program, other)
            if n in t2.functions:
                return FuncV('%s::%s' % (other, n))
    if n in ('malloc', 'free', 'sqrt', 'pow', 'fabs', 'exp', 'abs', '__builtin_inff', '__builtin_inf',
             '__assert_fail', 'printf', 'fflush', 'rand', 'srand', 'signal', '__builtin_huge_valf', 'log', 'floor',
             '__builtin_nanf', '__builtin_fabs', 'fmin', 'fmax', 'memcpy', 'memset', 'calloc', 'realloc'):
        return FuncV('lib.c.' + n)
    if n in tu.globals:
        return ('cglobal', n)
    return NotImplemented
