"""C-only node classes.  The C front end emits Python `ast` nodes wherever the two languages
share a construct and these classes where they do not."""
import ast


class CNode(ast.AST):
    _fields = ()


class CFor(ast.stmt):
    """for (init; test; step) body   -- `continue` jumps to step."""
    _fields = ('init', 'test', 'step', 'body')


class CDecl(ast.stmt):
    """local declaration: ctype name [= init]"""
    _fields = ('name', 'ctype', 'init')


class CAddr(ast.expr):
    _fields = ('value',)


class CDeref(ast.expr):
    _fields = ('value', 'ctx')


class CCast(ast.expr):
    _fields = ('ctype', 'value')


class CIncDec(ast.expr):
    """++x, x++, --x, x--  (value semantics by `prefix`)."""
    _fields = ('target', 'delta', 'prefix')


class CAssignExpr(ast.expr):
    """assignment used as an expression / statement: target op= value"""
    _fields = ('target', 'op', 'value')


class CSizeof(ast.expr):
    _fields = ('ctype',)


class CInitList(ast.expr):
    _fields = ('fields', 'values', 'ctype')


class COmpFor(ast.stmt):
    """#pragma omp parallel for private(...) over a CFor"""
    _fields = ('privates', 'loop', 'clauses')


class CSeq(ast.expr):
    """comma operator"""
    _fields = ('exprs',)


class CStmtExpr(ast.expr):
    """GNU statement expression ({ ... }) -- glibc's assert()."""
    _fields = ('body',)
