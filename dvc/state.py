"""Execution state, obligations and errors of the dvc verifier."""
import itertools
import z3


class Unsupported(Exception):
    """A construct outside the verified subset: the check exits 3, never 0 (DESIGN 3.2)."""


class CannotBind(Exception):
    """A sidecar contract does not fit the code it is bound to (exit 3)."""


class PathEnd(Exception):
    """Raised inside expression evaluation when the current path provably cannot continue."""


class Obligation:
    __slots__ = ('name', 'kind', 'hyps', 'goal', 'func', 'line', 'props', 'note', 'case',
                 'axioms', 'entry_syms', 'cname')

    def __init__(self, name, kind, hyps, goal, func, line=0, props=(), note='', case='',
                 axioms=(), entry_syms=None):
        self.name = name
        self.kind = kind
        self.hyps = list(hyps)
        self.goal = goal
        self.func = func
        self.line = line
        self.props = tuple(props)
        self.note = note
        self.case = case
        self.axioms = list(axioms)
        self.entry_syms = entry_syms or {}
        self.cname = func


class State:
    _oid = itertools.count(1)

    def __init__(self):
        self.vars = {}
        self.heap = {}
        self.pc = []
        self.old_vars = {}
        self.old_heap = {}

    def fork(self):
        s = State()
        s.vars = dict(self.vars)
        s.heap = dict(self.heap)      # objects are replaced, never mutated in place
        s.pc = list(self.pc)
        s.old_vars = self.old_vars
        s.old_heap = self.old_heap
        return s

    def new_oid(self, hint='o'):
        return '%s%d' % (hint, next(State._oid))

    def assume(self, f):
        if f is True:
            return
        if f is False:
            self.pc.append(z3.BoolVal(False))
            return
        self.pc.append(f)


_fresh = itertools.count(1)


def fresh(name, sort):
    return z3.Const('%s!%d' % (name, next(_fresh)), sort)
