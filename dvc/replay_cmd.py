"""python3-vt -m dvc.check <ID> --replay <file>: re-run a recorded failing input on the real code."""
import json
import os
from . import replay
from .contracts import CONTRACTS


def main(run, cfg, path):
    if not os.path.isabs(path):
        path = os.path.join(os.path.dirname(os.path.dirname(os.path.abspath(__file__))), path)
    rec = json.load(open(path))
    if 'failing_input' not in rec:
        print('replay file names obligation %s; no failing input was found. Solver output:' % rec.get('obligation'))
        print(json.dumps(rec.get('solver'), indent=1))
        return 1
    func = rec['function']
    c = CONTRACTS.get(func)
    if c is not None and c.lang == 'c':
        from . import creplay
        return creplay.replay_file(run, rec)
    out = replay.native_calls(run.program.native_root(), [dict(func=func, args=rec['failing_input'])])[0]
    chk = replay.ConcreteChecker(run.program, func)
    case = None
    if rec.get('case') is not None and c is not None:
        case = next((k for k in (c.cases or []) if k.get('label') == rec['case']), None)
    bad = replay.definite(chk.check_ensures(rec['failing_input'], out, case))
    print('function %s\ninput %s\nnative outcome %s\nviolated: %s' % (func, json.dumps(rec['failing_input']), json.dumps(out), bad))
    return 1 if bad else 0
