"""python3-vt -m dvc.check <ID> --replay <file>: re-run a recorded failing input on the real code."""
import json
import os
from . import replay
from .contracts import CONTRACTS


def main(run, cfg, path):
    if not os.path.isabs(path):
        path = os.path.join(os.path.dirname(os.path.dirname(os.path.abspath(__file__))), path)
    rec = json.load(open(path))
    if 'failing_input' not in rec:
        print('replay file names obligation %s; no failing input was found. Solver output:' % rec.get('obligation'))
        print(json.dumps(rec.get('solver'), indent=1))
        return 1
    if str(rec.get('obligation', '')).startswith('bounded::'):
        return replay_bounded(run, cfg, rec)
    func = rec['function']
    c = CONTRACTS.get(func)
    if c is not None and c.lang == 'c':
        from . import creplay
        return creplay.replay_file(run, rec)
    out = replay.native_calls(run.program.native_root(), [dict(func=func, args=rec['failing_input'])])[0]
    chk = replay.ConcreteChecker(run.program, func)
    case = None
    if rec.get('case') is not None and c is not None:
        case = next((k for k in (c.cases or []) if k.get('label') == rec['case']), None)
    bad = replay.definite(chk.check_ensures(rec['failing_input'], out, case))
    print('function %s\ninput %s\nnative outcome %s\nviolated: %s' % (func, json.dumps(rec['failing_input']), json.dumps(out), bad))
    return 1 if bad else 0


def _canon(v):
    return json.dumps(v, sort_keys=True, default=str)


def replay_bounded(run, cfg, rec):
    """A violation found by a bounded sweep: the sweep is deterministic in (seed, tier), so it is run again on the
    current tree with the recorded seed and tier and the recorded failing input is looked up among its findings."""
    name = rec['obligation'][len('bounded::'):]
    fn = cfg.get('bounded', {}).get(name)
    if fn is None:
        print('unknown bounded sweep %s' % name)
        return 3
    run.seed = int(rec.get('seed', run.seed) or 0)
    run.tier = rec.get('tier', run.tier)
    import random
    run.rng = random.Random(run.seed)
    res = fn(run)
    if isinstance(res, dict) and run.prop in res and 'evaluations' not in res:
        res = res[run.prop]
    want = _canon(rec.get('failing_input'))
    for v in res.get('violations', []):
        if _canon(v.get('failing_input')) == want:
            print('sweep %s (seed %s, tier %s) on the current tree reproduces the recorded violation:' % (name, run.seed, run.tier))
            print('  what : %s' % v.get('what'))
            print('  input: %s' % _canon(v.get('failing_input'))[:2000])
            return 1
    print('sweep %s (seed %s, tier %s) on the current tree: the recorded input no longer violates the property '
          '(%d evaluations, %d other findings incl. known ones)' % (name, run.seed, run.tier, res.get('evaluations', 0),
                                                                   len(res.get('violations', []))))
    return 0
