"""The dvc executor: drives symbolic execution of one function under its contract and collects
proof obligations (mode 'vc'), or runs it on concrete / partly symbolic inputs (mode 'run')."""
import ast
import copy
import z3
from .vals import *
from .ops import *
from .state import State, Obligation, Unsupported, CannotBind, PathEnd, fresh
from . import state as state_mod
from .contracts import CONTRACTS, SPECS, INPUT_BUILDERS, parse_expr
from .exec_expr import ExprMixin
from .exec_stmt import StmtMixin, _Break, _Continue, _Return, _Raise, loop_nodes, loop_head_text, Modified
from .exec_call import CallMixin
from .exec_c import CMixin


class Frame:
    def __init__(self, finfo, contract):
        self.finfo = finfo
        self.contract = contract
        self.loops = loop_nodes(finfo.node)
        self.ctypes = dict(getattr(finfo.node, 'ctypes', {}) or {})


class Exec(CMixin, ExprMixin, StmtMixin, CallMixin):

    def __init__(self, program, mode='vc', feas_timeout=400, max_iter=64):
        self.program = program          # provides function lookup / globals
        self.mode = mode
        self.spec_mode = False
        self.spec_env = {}
        self.guards = []
        self.stmt_lines = set()
        self.obligations = []
        self.notes = set()
        self.frames = []
        self.forced = []
        self.dpos = 0
        self.worklist = []
        self.feas = z3.Solver()
        self.feas.set('timeout', feas_timeout)
        self._feas_timeout = feas_timeout
        self._feas_ids = None
        self.max_iter = max_iter
        self.check_overflow = True
        self.cur_state = None
        self.cur_node = None
        self.case_label = ''
        self.used_specs = set()
        self.entry_syms = {}
        self.paths = 0
        self.covers = {}
        self.inline_depth = 0

    # ------------------------------------------------------------------ frame accessors
    @property
    def frame(self):
        return self.frames[-1]

    @property
    def fname(self):
        return self.frame.finfo.qname

    @property
    def lang(self):
        return self.frame.finfo.lang

    @property
    def loops(self):
        return self.frame.loops

    def contract_raises(self):
        c = self.frames[0].contract
        return c.raises if c else ()

    def contract_assigns(self):
        c = self.frames[0].contract
        return set(c.assigns) if c else set()

    def contract_loop(self, k, node):
        c = self.frame.contract
        if (c is None or k not in c.loops) and getattr(self, 'auto_loops', False):
            return {}
        if c is None or k not in c.loops:
            raise CannotBind('%s: loop %d (%s, line %s) has no invariant in the sidecar contract' % (
                self.fname, k, loop_head_text(node), getattr(node, 'lineno', '?')))
        spec = c.loops[k]
        head = spec.get('head')
        if head is not None and head != loop_head_text(node):
            raise CannotBind('%s: loop %d header is %r, contract was written for %r' % (
                self.fname, k, loop_head_text(node), head))
        return spec

    def lookup_global(self, n):
        return self.program.lookup_global(self.frame.finfo, n, self)

    def find_method(self, cls, attr):
        return self.program.find_method(cls, attr)

    def class_attr(self, cls, attr):
        return self.program.class_attr(cls, attr, self)

    def module_attr(self, base, attr, node):
        return self.program.module_attr(base, attr, self)

    # ------------------------------------------------------------------ decisions
    def is_feasible(self, st, extra):
        """pc + guards + extra satisfiable?  (`unknown` counts as feasible.)  The solver is kept in
        step with the path condition: only formulas added since the last query are asserted."""
        ids = getattr(self, '_feas_ids', None)
        pc = st.pc
        n = 0
        if ids is not None:
            m = min(len(ids), len(pc))
            while n < m and ids[n] == pc[n].get_id():
                n += 1
            if n < len(ids):
                ids = None
        if ids is None:
            self.feas.reset()
            self.feas.set('timeout', self._feas_timeout)
            ids = self._feas_ids = []
            n = 0
        for f in pc[n:]:
            # quantified facts (invariants, axioms) are left out: dropping hypotheses can only make
            # more branches look feasible, never prune a feasible one
            if not has_quantifier(f):
                self.feas.add(f)
            ids.append(f.get_id())
        self.feas.push()
        try:
            for g in self.guards:
                self.feas.add(g)
            self.feas.add(extra)
            r = self.feas.check()
            return r != z3.unsat
        finally:
            self.feas.pop()

    def decide(self, c, st, node, tag='if'):
        """Returns the branch to take for Bool value c on this path."""
        if c is True or c is False:
            return c
        c = z3.simplify(zbool(c))
        if z3.is_true(c):
            return True
        if z3.is_false(c):
            return False
        idx = self.dpos
        self.dpos += 1
        if idx < len(self.forced):
            choice = self.forced[idx]
        else:
            t_ok = self.is_feasible(st, c)
            f_ok = self.is_feasible(st, z3.Not(c))
            if t_ok and f_ok:
                choice = True
                self.worklist.append(self.taken + [False])
            elif t_ok:
                choice = True
            elif f_ok:
                choice = False
            else:
                raise PathEnd()
        self.taken.append(choice)
        st.assume(c if choice else z3.Not(c))
        ln = getattr(node, 'lineno', 0)
        self.covers[(self.fname, tag, ln, choice)] = True
        return choice

    # ------------------------------------------------------------------ obligations
    def oblige(self, kind, goal, st, node, note='', detail=None):
        if self.spec_mode:
            return
        if goal is True:
            self.count_trivial(kind)
            return
        emit = self.dpos >= len(self.forced)
        line = getattr(node, 'lineno', 0) or 0
        rel = line - (self.frame.finfo.lineno or 0)
        if detail is None:
            detail = '+%d' % rel
        name = '%s::%s@%s' % (self.fname, kind, detail)
        g = z3.BoolVal(False) if goal is False else zbool(goal)
        if goal is False:
            self.last_false = '%s (%s, line %s)' % (name, note, line)
        hyps = list(st.pc) + list(self.guards)
        if emit and self.mode == 'vc':
            c = self.frames[0].contract
            props = c.props if c else ()
            self.obligations.append(Obligation(name, kind, hyps, g, self.frames[0].finfo.qname, line, props, note,
                                               self.case_label, entry_syms=self.entry_syms))
        elif emit and self.mode == 'run':
            self.run_checks.append((name, kind, hyps, g, note, line))
        # continue under the assumption that the check passed
        if self.guards:
            st.assume(z3.Implies(z3.And(*self.guards), g))
        else:
            st.assume(g)

    def count_trivial(self, kind):
        self.trivial = getattr(self, 'trivial', 0) + 1

    # ------------------------------------------------------------------ contract expressions
    def eval_spec(self, text, st, alias=None, env=None, old_state=None):
        """Evaluate a contract expression (Python syntax) over state `st`."""
        node = parse_expr(text) if isinstance(text, str) else text
        saved = (self.spec_mode, self.spec_env, self.guards)
        self.spec_mode = True
        e = dict(self.frame_ghost(st))
        if env:
            e.update(env)
        self.spec_env = e
        self.guards = []
        self.spec_old = old_state
        st2 = st
        if alias:
            st2 = st.fork()
            st2.pc = st.pc
            for a, real in alias.items():
                if real in st.vars:
                    st2.vars[a] = st.vars[real]
        try:
            v = self.ev(node, st2)
            return v
        except PathEnd:
            raise CannotBind('contract expression %r of %s is undefined in the current state (NULL / None '
                             'dereference or missing value)' % (text if isinstance(text, str) else '?', self.fname))
        finally:
            self.spec_mode, self.spec_env, self.guards = saved

    def frame_ghost(self, st):
        return getattr(self.frame, 'ghost', {})

    # ------------------------------------------------------------------ driver
    def explore(self, finfo, contract, make_entry):
        """Enumerate the paths of `finfo` under `contract`.  make_entry(ex) -> (state, args dict)
        must be deterministic (fresh-symbol counters are reset per path)."""
        self.worklist = [[]]
        results = []
        while self.worklist:
            self.forced = self.worklist.pop()
            self.taken = []
            self.dpos = 0
            state_mod._fresh = __import__('itertools').count(1)
            State._oid = __import__('itertools').count(1)
            self.frames = [Frame(finfo, contract)]
            self.guards = []
            self.run_checks = []
            self.paths += 1
            if self.paths > 20000:
                raise Unsupported('path explosion in %s' % finfo.qname)
            try:
                st, args = make_entry(self)
                self.cur_state = st
                outcome = self.run_function(finfo, contract, st, args)
                results.append(outcome)
            except PathEnd:
                if getattr(self, 'omp_ctx', None):
                    self.omp_flush(self.cur_state)
                    self.omp_ctx = None
                continue
        return results

    def run_function(self, finfo, contract, st, args):
        """Execute the body; on return check `ensures`."""
        st.vars = dict(args)
        st.old_vars = dict(args)
        st.old_heap = dict(st.heap)
        self.frame.ghost = {}
        if contract is not None:
            for g, text in contract.bind.items():
                gv = self.eval_spec(text, st)
                self.frame.ghost[g] = gv
                for d in getattr(gv, 'defs', ()):
                    st.assume(d)
            for r in contract.requires:
                e = self.eval_spec(r, st)
                if e is False:
                    raise CannotBind('precondition %r of %s is literally false (vacuous contract)' % (r, contract.name))
                st.assume(zbool(e))
            # ghost instantiation: a callee contract that holds for every interpretation of an uninterpreted ghost function is
            # used with one chosen interpretation.  Only the shape  forall(lambda ...: G(...) == expr)  with G declared
            # uninterpreted (spec without definition) and not occurring in expr is accepted -- a definition, not an assumption.
            for gname, text in (getattr(contract, 'ghost_defs', None) or {}).items():
                tree = ast.parse(text, mode='eval').body
                ok = (isinstance(tree, ast.Call) and getattr(tree.func, 'id', '') == 'forall' and isinstance(tree.args[0], ast.Lambda)
                      and isinstance(tree.args[0].body, ast.Compare) and len(tree.args[0].body.ops) == 1
                      and isinstance(tree.args[0].body.ops[0], ast.Eq) and isinstance(tree.args[0].body.left, ast.Call)
                      and getattr(tree.args[0].body.left.func, 'id', '') == gname
                      and all(isinstance(a_, ast.Name) for a_ in tree.args[0].body.left.args)
                      and gname not in [getattr(n_, 'id', None) for n_ in ast.walk(tree.args[0].body.comparators[0])])
                if not ok:
                    raise CannotBind('ghost definition of %s in %s is not of the form forall(lambda ...: %s(...) == expr)'
                                     % (gname, contract.name, gname))
                st.assume(zbool(self.eval_spec(text, st)))
                self.notes.add('ghost function %s instantiated: %s' % (gname, text))
        self.entry_pc_len = len(st.pc)
        exc = None
        try:
            self.exec_block(finfo.node.body, st)
            result = None
        except _Return as r:
            result = r.value
        except _Raise as r:
            result = None
            exc = r.exc
        if contract is not None and self.mode == 'vc':
            self.check_ensures(contract, st, result, exc, finfo)
        return (st, result, exc, list(self.run_checks))

    def check_ensures(self, contract, st, result, exc, finfo):
        old = State()
        old.vars = st.old_vars
        old.heap = st.old_heap
        env = {'result': result, '__exc__': exc}
        # parameters in a postcondition denote their values on entry (C parameters are locals)
        st = st.fork()
        keep_pc = st.pc
        st.vars.update(st.old_vars)
        for n_, text in enumerate(contract.ensures):
            try:
                g = self.eval_spec(text, st, env=env, old_state=old)
            except CannotBind as e_:
                if 'undefined in the current state' not in str(e_):
                    raise
                # a postcondition must be defined on every feasible path: on this one it reads something that does not exist
                # (e.g. the last element of an empty result).  Proved only if the path is infeasible.
                g = z3.BoolVal(False)
                text = text + '   [undefined on this path]'
            self.oblige('ensures', g, st, finfo.node, 'postcondition: ' + text, detail='%d' % n_)
