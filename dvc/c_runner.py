"""Runs real C functions of /repo natively through ctypes against a sanitizer build.

Executed as a subprocess with LD_PRELOAD=libasan.so:  python c_runner.py  < request.json
request:  {"so": path, "structs": {name: [[field, ctype], ...]}, "calls": [
             {"func": name, "ret": ctype, "params": [[name, ctype], ...], "args": {name: encoded}} ...]}
Buffers are malloc'ed at exactly the requested size (so ASan sees every out-of-bounds access) and
read back after the call.  A line "@@ <index>" is flushed before each call so that a sanitizer
abort can be attributed to the call that caused it.
encoded values: int | float(hex str in {"f":..}) | bool | {"buf":[...], "elem":"double"|"long"|"uchar", "off":k}
                | {"bufs":[[...],...]} (seq_t **) | {"struct": {field: value}} | null (NULL pointer)
"""
import sys
import json
import ctypes

libc = ctypes.CDLL(None)
libc.malloc.restype = ctypes.c_void_p
libc.malloc.argtypes = [ctypes.c_size_t]
libc.free.argtypes = [ctypes.c_void_p]

SCALAR = {'idx_t': ctypes.c_ssize_t, 'ssize_t': ctypes.c_ssize_t, 'int': ctypes.c_int, 'seq_t': ctypes.c_double,
          'double': ctypes.c_double, 'bool': ctypes.c_bool, '_Bool': ctypes.c_bool, 'unsigned int': ctypes.c_uint,
          'long': ctypes.c_long, 'size_t': ctypes.c_size_t}
ELEM = {'double': ctypes.c_double, 'long': ctypes.c_ssize_t, 'uchar': ctypes.c_ubyte, 'int': ctypes.c_int}


def fl(v):
    if isinstance(v, dict) and 'f' in v:
        return float.fromhex(v['f']) if isinstance(v['f'], str) else float(v['f'])
    return float(v)


def enc_f(x):
    return {'f': float(x).hex()}


class Buf:
    def __init__(self, items, elem):
        self.elem = elem
        self.ct = ELEM[elem]
        self.n = len(items)
        size = max(1, self.n * ctypes.sizeof(self.ct))
        self.addr = libc.malloc(size if self.n else 0) if self.n else libc.malloc(0)
        self.arr = (self.ct * self.n).from_address(self.addr) if self.n else None
        for i, x in enumerate(items):
            self.arr[i] = fl(x) if elem == 'double' else int(x)

    def ptr(self, off=0):
        return ctypes.c_void_p(self.addr + off * ctypes.sizeof(self.ct))

    def read(self):
        if not self.n:
            return []
        return [enc_f(x) if self.elem == 'double' else int(x) for x in self.arr]


def make_struct(name, fields, structs):
    flds = []
    for f, t in fields:
        t = t.replace('const ', '').strip()
        flds.append((f, SCALAR[t]))
    return type(name, (ctypes.Structure,), {'_fields_': flds})


def main():
    req = json.load(sys.stdin)
    lib = ctypes.CDLL(req['so'])
    stypes = {n: make_struct(n, f, req['structs']) for n, f in req['structs'].items()}
    out = []
    afters = {}
    for idx, call in enumerate(req['calls']):
        sys.stdout.write('@@ %d\n' % idx)
        sys.stdout.flush()
        fn = getattr(lib, call['func'])
        rt = call['ret'].strip()
        if rt == 'void':
            fn.restype = None
        elif rt in SCALAR:
            fn.restype = SCALAR[rt]
        elif rt in stypes:
            fn.restype = stypes[rt]
        else:
            raise SystemExit('return type %s' % rt)
        cargs, keep, argt = [], {}, []
        for pname, ctype in call['params']:
            v = call['args'][pname]
            if isinstance(v, dict) and 'ref' in v:
                # contents left in a buffer by an earlier call of this batch, in a new exact-size block
                src = afters[v['ref'][0]][v['ref'][1]]
                v = dict(src)
                v['off'] = 0
            t = ctype.replace('const ', '').strip()
            if t.endswith('**'):
                if v is None:
                    cargs.append(None)
                    argt.append(ctypes.c_void_p)
                    continue
                bufs = [Buf(b, 'double') for b in v['bufs']]
                tab = (ctypes.c_void_p * len(bufs))(*[b.addr for b in bufs])
                tb = Buf([0] * len(bufs), 'long')
                for i, b in enumerate(bufs):
                    tb.arr[i] = b.addr
                keep[pname] = ('bufs', bufs, tb)
                cargs.append(tb.ptr())
                argt.append(ctypes.c_void_p)
            elif t.endswith('*'):
                base = t[:-1].strip()
                if v is None:
                    cargs.append(None)
                    argt.append(ctypes.c_void_p)
                elif base in stypes:
                    s = stypes[base]()
                    for f, x in v['struct'].items():
                        setattr(s, f, fl(x) if isinstance(x, dict) or isinstance(x, float) else x)
                    keep[pname] = ('struct', s)
                    cargs.append(ctypes.byref(s))
                    argt.append(ctypes.c_void_p)
                else:
                    b = Buf(v['buf'], v.get('elem', 'double'))
                    keep[pname] = ('buf', b, v.get('off', 0))
                    cargs.append(b.ptr(v.get('off', 0)))
                    argt.append(ctypes.c_void_p)
            else:
                ct = SCALAR[t]
                argt.append(ct)
                cargs.append(fl(v) if ct is ctypes.c_double else v)
        fn.argtypes = argt
        r = fn(*cargs)
        rec = {'ok': True, 'args_after': {}}
        if rt == 'void':
            rec['result'] = None
        elif rt in stypes:
            rec['result'] = {'struct': {f: getattr(r, f) for f, _ in req['structs'][rt]}}
        elif SCALAR[rt] is ctypes.c_double:
            rec['result'] = enc_f(r)
        else:
            rec['result'] = r
        for pname, k in keep.items():
            if k[0] == 'buf':
                rec['args_after'][pname] = {'buf': k[1].read(), 'elem': k[1].elem, 'off': k[2]}
            elif k[0] == 'bufs':
                rec['args_after'][pname] = {'bufs': [b.read() for b in k[1]]}
            else:
                s = k[1]
                d = {}
                for f, _ in s._fields_:
                    x = getattr(s, f)
                    d[f] = enc_f(x) if isinstance(x, float) else x
                rec['args_after'][pname] = {'struct': d}
        for pname, k in keep.items():
            if k[0] == 'buf':
                libc.free(k[1].addr)
            elif k[0] == 'bufs':
                for b in k[1]:
                    libc.free(b.addr)
                libc.free(k[2].addr)
        out.append(rec)
        afters[call.get('id', idx)] = rec['args_after']
        sys.stdout.write('## ' + json.dumps(rec) + '\n')
        sys.stdout.flush()


if __name__ == '__main__':
    main()
