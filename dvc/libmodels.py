"""Assumed contracts on dependencies (DESIGN A3): NumPy, array, math.  Every function here is a
*trusted* model; each use is recorded in the evidence (`assumed library contract: ...`)."""
import ast
import z3
from .vals import *
from .ops import *
from .state import Unsupported, PathEnd, fresh

LIB = {}
# functions of /repo that are not executed but replaced by an assumed contract (listed in the evidence of every check that uses one)
REPO_MODELS = {
    'util.SeriesContainer.wrap': (lambda ex, args, kwargs, node, st: args[0],
                                  'SeriesContainer.wrap(s) presents the series of s unchanged through len() and indexing (A5)'),
}


def lib(name):
    def deco(f):
        LIB[name] = f
        return f
    return deco


@lib('multiprocessing.Pool')
def mp_pool(ex, args, kwargs, node, st):
    """A3: a process pool; only map / imap / imap_unordered are modelled (exec_call.me_pool_*)."""
    ex.notes.add('assumed library contract: multiprocessing.Pool.map(fn, xs) == [fn(x) for x in xs], in order')
    return PoolV()


@lib('array.array')
def array_array(ex, args, kwargs, node, st):
    tc = args[0]
    if tc not in ('d', 'i', 'l', 'L', 'f'):
        raise Unsupported("array typecode %r" % (tc,))
    kind = 'val' if tc in ('d', 'f') else 'int'
    if len(args) == 1:
        oid = st.new_oid('L')
        st.heap[oid] = ArrObj(kind, items=[], length=0, pykind='array')
        return Ref(oid)
    src = args[1]
    if not isinstance(src, Ref):
        raise Unsupported('array.array from %r' % type(src))
    o = st.heap[src.oid]
    oid = st.new_oid('L')
    if o.items is not None:
        items = [ex.elem_coerce(ArrObj(kind, items=[]), x, node, st) for x in o.items]
        st.heap[oid] = ArrObj(kind, items=items, length=len(items), pykind='array')
    else:
        if o.kind != kind:
            if o.kind == 'int' and kind == 'val':
                raise Unsupported('array of int list to double: symbolic conversion')
            raise Unsupported('array element kind mismatch')
        st.heap[oid] = ArrObj(kind, arr=o.arr, length=o.length, pykind='array')
    return Ref(oid)


@lib('math.sqrt')
def math_sqrt(ex, args, kwargs, node, st):
    v = ex.need_num(args[0], node)
    if concrete(v):
        import math
        if v < 0:
            ex.oblige('domain', False, st, node, 'sqrt of negative')
            raise PathEnd()
        return math.sqrt(v)
    return vsqrt(vlit(v))


@lib('np.sqrt')
def np_sqrt(ex, args, kwargs, node, st):
    """np.sqrt: scalar, or elementwise on an ndarray (A3) -- a new array, the argument is untouched"""
    v = args[0]
    if isinstance(v, Seq) and v.nd:
        g = v.get
        if v.items is not None and all(concrete(x) for x in v.items):
            import math
            its = [math.sqrt(x) for x in v.items]
            return Seq(lambda k, its=its: ex.pick(its, k), len(its), 'val', items=its, nd=True)
        return Seq(lambda k: vsqrt(vlit(g(k))), v.length, 'val', nd=True)
    if isinstance(v, Ref) and isinstance(st.heap[v.oid], ArrObj):
        o = st.heap[v.oid]
        oid = st.new_oid('N')
        if o.items is not None:
            import math
            if o.shape is not None:
                items = [[math.sqrt(x) if concrete(x) else vsqrt(vlit(x)) for x in row] for row in o.items]
            else:
                items = [math.sqrt(x) if concrete(x) else vsqrt(vlit(x)) for x in o.items]
            st.heap[oid] = o.clone(items=items, origin='local', name='')
            return Ref(oid)
        i, j = z3.Consts('sq_i!%d sq_j!%d' % (ex.qcount(), ex.qcount()), IntS)
        if o.shape is not None:
            new = fresh('npsqrt', arr2sort(Val))
            pats = [sel2(new, i, j)]
            if z3.is_const(o.arr):
                pats.append(sel2(o.arr, i, j))       # either side of the definition triggers it
            st.assume(z3.ForAll([i, j], sel2(new, i, j) == vsqrt(sel2(o.arr, i, j)), patterns=pats))
        else:
            new = fresh('npsqrt', z3.ArraySort(IntS, Val))
            st.assume(z3.ForAll([i], z3.Select(new, i) == vsqrt(z3.Select(o.arr, i)), patterns=[z3.Select(new, i)]))
        st.heap[oid] = o.clone(arr=new, origin='local', name='')
        return Ref(oid)
    return math_sqrt(ex, args, kwargs, node, st)


@lib('math.isinf')
def math_isinf(ex, args, kwargs, node, st):
    v = args[0]
    if concrete(v):
        import math
        return math.isinf(v)
    if is_int(v):
        return False
    return b_or(v == vinf, v == vninf)


@lib('np.exp')
def np_exp(ex, args, kwargs, node, st):
    v = ex.need_num(args[0], node)
    if concrete(v):
        import math
        return math.exp(v)
    return vexp(vlit(v))


LIB['math.exp'] = np_exp


@lib('np.full')
def np_full(ex, args, kwargs, node, st):
    shape, fill = args[0], args[1]
    kind = 'val'
    oid = st.new_oid('N')
    if isinstance(shape, Ref):
        shape = tuple(ex.concrete_items(shape, st))
    if isinstance(fill, str):
        # array of short strings (dtype '<U..'): cells are observed through `ch in cell` only (vals.CSetS)
        dt = kwargs.get('dtype')
        if not (isinstance(dt, str) and dt.startswith('<U')) or not (isinstance(shape, tuple) and len(shape) == 2):
            raise Unsupported('np.full of strings: only 2-D with a <U dtype')
        r, c = [ex.need_num(x, node) for x in shape]
        if ex.mode == 'run' and is_cint(r) and is_cint(c):
            st.heap[oid] = ArrObj('cset', items=[[fill] * c for _ in range(r)], shape=(r, c), pykind='ndarray', dtype=dt)
        else:
            arr = fresh('npfull', arr2sort(CSetS))
            qi, qj = z3.Consts('nf_i!%d nf_j!%d' % (ex.qcount(), ex.qcount()), IntS)
            st.assume(z3.ForAll([qi, qj], sel2(arr, qi, qj) == cs_of(fill), patterns=[sel2(arr, qi, qj)]))
            st.heap[oid] = ArrObj('cset', arr=arr, shape=(r, c), pykind='ndarray', dtype=dt)
        ex.notes.add('NumPy string cells (dtype %s) are modelled as character sets: only `ch in cell` is observable; '
                     'truncation to the dtype width is not modelled (each cell receives at most three marks)' % dt)
        return Ref(oid)
    fv = vlit(fill)
    if isinstance(shape, tuple) and len(shape) == 2:
        r, c = [ex.need_num(x, node) for x in shape]
        if ex.mode == 'run' and is_cint(r) and is_cint(c):
            f0 = float(fill) if concrete(fill) else fill
            st.heap[oid] = ArrObj(kind, items=[[f0] * c for _ in range(r)], shape=(r, c), pykind='ndarray', dtype='float')
        else:
            arr = fresh('npfull', arr2sort(Val))
            qi, qj = z3.Consts('nf_i!%d nf_j!%d' % (ex.qcount(), ex.qcount()), IntS)
            st.assume(z3.ForAll([qi, qj], sel2(arr, qi, qj) == fv, patterns=[sel2(arr, qi, qj)]))
            st.heap[oid] = ArrObj(kind, arr=arr, shape=(r, c), pykind='ndarray', dtype='float')
        return Ref(oid)
    n = ex.need_num(shape if not isinstance(shape, tuple) else shape[0], node)
    arr = fresh('npfull', z3.ArraySort(IntS, Val))
    qi = z3.Const('nf_i!%d' % ex.qcount(), IntS)
    st.assume(z3.ForAll([qi], z3.Select(arr, qi) == fv, patterns=[z3.Select(arr, qi)]))
    st.heap[oid] = ArrObj(kind, arr=arr, length=n, pykind='ndarray', dtype='float')
    return Ref(oid)


@lib('np.array')
def np_array(ex, args, kwargs, node, st):
    """np.array(list): same content; dtype int for a non-empty list of ints, float64 for an
    empty list (NumPy's default dtype) -- the fact D18 hinges on."""
    src = args[0]
    if isinstance(src, Seq):
        # materialise a view: a new 1-D array with the same elements
        oid = st.new_oid('N')
        if src.items is not None:
            st.heap[oid] = ArrObj(src.kind if src.kind in ('val', 'int') else 'any', items=list(src.items), length=len(src.items),
                                  pykind='ndarray', dtype='float' if src.kind == 'val' else 'int')
            return Ref(oid)
        if src.kind != 'val':
            raise Unsupported('np.array of a symbolic non-float view')
        new = fresh('nparr', z3.ArraySort(IntS, Val))
        k_ = z3.Const('na_k!%d' % ex.qcount(), IntS)
        n_ = zint(src.length)
        st.assume(z3.ForAll([k_], z3.Implies(z3.And(0 <= k_, k_ < n_), z3.Select(new, k_) == vlit(src.get(k_))),
                            patterns=[z3.Select(new, k_)]))
        st.heap[oid] = ArrObj('val', arr=new, length=src.length, pykind='ndarray', dtype='float')
        return Ref(oid)
    if not isinstance(src, Ref):
        raise Unsupported('np.array of %r' % type(src))
    o = st.heap[src.oid]
    oid = st.new_oid('N')
    dt = kwargs.get('dtype')
    if dt is not None:
        if isinstance(dt, FuncV) and dt.name == 'builtin.int':
            dtype = 'int'
        elif dt == 'float64' or (isinstance(dt, FuncV) and dt.name == 'builtin.float'):
            dtype = 'float'
        else:
            raise Unsupported('np.array dtype %r' % (dt,))
    elif o.items is not None:
        dtype = 'float' if (not o.items or o.kind == 'val') else 'int'
    else:
        dtype = ('float-if-empty', o.kind)
    st.heap[oid] = o.clone(pykind='ndarray', dtype=dtype, origin='local')
    return Ref(oid)


def dtype_is_int(obj):
    """Bool value: the ndarray has an integer dtype."""
    d = obj.dtype
    if d == 'int':
        return True
    if d == 'float':
        return False
    if isinstance(d, tuple) and d[0] == 'sym':
        return d[1]
    if isinstance(d, tuple) and d[0] == 'float-if-empty':
        if d[1] != 'int':
            return False
        return compare('>', obj.length, 0)
    return obj.kind == 'int'


def np_fancy_store(ex, base, idx, v, st, node, transposed=False):
    """m[(rows, cols)] = values  (A3): NumPy requires integer index arrays (IndexError
    otherwise), equal lengths, indices in range; afterwards m[rows[k], cols[k]] == values[k]
    for every k (later k win on duplicates) and all other cells are unchanged."""
    if not (isinstance(idx, tuple) and len(idx) == 2):
        raise Unsupported('fancy store with non-pair index')
    robj, cobj = [st.heap[x.oid] if isinstance(x, Ref) else None for x in idx]
    if robj is None or cobj is None:
        raise Unsupported('fancy store index kinds')
    if transposed:
        robj, cobj = cobj, robj
    m = st.heap[base.oid]
    if m.shape is None:
        raise Unsupported('fancy store into 1-D')
    for o, w in ((robj, 'row'), (cobj, 'column')):
        if o.pykind == 'ndarray':
            ex.oblige('np-index-dtype', dtype_is_int(o), st, node,
                      'NumPy fancy indexing needs an integer dtype %s index array (IndexError)' % w)
    vals = ex.seq_of(v, st, node)
    if m.items is not None and robj.items is not None and cobj.items is not None and vals.items is not None:
        # concrete (run mode)
        if len(robj.items) != len(cobj.items) or len(vals.items) != len(robj.items):
            ex.oblige('np-shape', False, st, node, 'shape mismatch in fancy assignment')
            raise PathEnd()
        o2 = m.clone()
        o2.items = [list(r) for r in m.items]
        for a, b, x in zip(robj.items, cobj.items, vals.items):
            if not (0 <= a < len(o2.items) and 0 <= b < len(o2.items[0])):
                ex.oblige('bounds', False, st, node, 'fancy index out of range')
                raise PathEnd()
            o2.items[a][b] = float(x) if concrete(x) else x
        st.heap[base.oid] = o2
        return
    n = robj.length
    ex.oblige('np-shape', compare('==', n, cobj.length), st, node, 'index arrays of equal length')
    ex.oblige('np-shape', compare('==', n, vals.length), st, node, 'values broadcast to index length')
    k = z3.Const('fk!%d' % ex.qcount(), IntS)
    rget = (lambda kk: z3.Select(robj.arr, kk)) if robj.items is None else (lambda kk: zint(ex.pick(robj.items, kk)))
    cget = (lambda kk: z3.Select(cobj.arr, kk)) if cobj.items is None else (lambda kk: zint(ex.pick(cobj.items, kk)))
    nn = zint(n)
    if robj.items is not None and not robj.items:
        return
    ex.oblige('bounds', z3.ForAll([k], z3.Implies(z3.And(k >= 0, k < nn), z3.And(
        rget(k) >= 0, rget(k) < zint(m.shape[0]), cget(k) >= 0, cget(k) < zint(m.shape[1])))), st, node,
        'fancy indices inside the matrix')
    ex.frame_write(m, None, st, node)
    old = array2d_term(ex, m, st)
    new = fresh('fancy', arr2sort(Val))
    i, j = z3.Consts('fi!%d fj!%d' % (ex.qcount(), ex.qcount()), IntS)
    # every addressed cell holds the value of the LAST k addressing it; others unchanged
    k2 = z3.Const('fk2!%d' % ex.qcount(), IntS)
    hit = lambda kk, ii, jj: z3.And(kk >= 0, kk < nn, rget(kk) == ii, cget(kk) == jj)
    st.assume(z3.ForAll([i, j], z3.Implies(z3.Not(z3.Exists([k], hit(k, i, j))),
                                           sel2(new, i, j) == sel2(old, i, j))))
    st.assume(z3.ForAll([k], z3.Implies(
        z3.And(k >= 0, k < nn, z3.Not(z3.Exists([k2], z3.And(k2 > k, hit(k2, rget(k), cget(k)))))),
        sel2(new, rget(k), cget(k)) == vlit(vals.get(k)))))
    st.heap[base.oid] = m.clone(arr=new, items=None)


def array2d_term(ex, m, st):
    return m.arr


def np_slice_store(ex, base, t, v, st, node):
    """`m[a:b:-1, c] = scalar` / `m[r, a:b:-1] = scalar` on a 2-D ndarray (A3): the cells of the slice take the value,
    every other cell keeps its content."""
    if not isinstance(base, Ref) or not isinstance(t.slice, ast.Tuple) or len(t.slice.elts) != 2:
        raise Unsupported('slice assignment')
    obj = st.heap[base.oid]
    if not isinstance(obj, ArrObj) or obj.shape is None or obj.kind != 'val':
        raise Unsupported('slice assignment on this object')
    e0, e1 = t.slice.elts
    if isinstance(e0, ast.Slice) and isinstance(e1, ast.Slice):
        raise Unsupported('2-D block slice assignment')
    v = ex.need_num(v, node)
    if isinstance(v, Ref):
        raise Unsupported('slice assignment of an array')
    row_slice = isinstance(e0, ast.Slice)
    if row_slice:
        sl, fixed, dim, fdim = e0, ex.ev(e1, st), obj.shape[0], obj.shape[1]
    else:
        sl, fixed, dim, fdim = e1, ex.ev(e0, st), obj.shape[1], obj.shape[0]
    fixed = ex.norm_index(fixed, fdim, node, st, 'fixed index')
    start, n, step = ex.np_slice_range(sl, dim, node, st)
    ex.frame_write(obj, None, st, node)
    if obj.items is not None:
        if not (is_cint(start) and is_cint(n) and is_cint(fixed)):
            raise Unsupported('symbolic slice of a concrete 2-D array')
        o2 = obj.clone()
        o2.items = [list(r) for r in obj.items]
        for k in range(n):
            p = start + k * step
            if row_slice:
                o2.items[p][fixed] = float(v) if concrete(v) else v
            else:
                o2.items[fixed][p] = float(v) if concrete(v) else v
        st.heap[base.oid] = o2
        return None
    s0, n0, f0 = zint(start), zint(n), zint(fixed)
    lo, hi = (s0, s0 + n0) if step == 1 else (s0 - n0 + 1, s0 + 1)
    new = fresh('slstore', arr2sort(Val))
    i, j = z3.Consts('ss_i!%d ss_j!%d' % (ex.qcount(), ex.qcount()), IntS)
    inside = z3.And(lo <= i, i < hi, j == f0) if row_slice else z3.And(i == f0, lo <= j, j < hi)
    pats = [sel2(new, i, j)] + ([sel2(obj.arr, i, j)] if z3.is_const(obj.arr) else [])
    st.assume(z3.ForAll([i, j], sel2(new, i, j) == z3.If(inside, vlit(v), sel2(obj.arr, i, j)), patterns=pats))
    st.heap[base.oid] = obj.clone(arr=new)
    return None


@lib('np.fill_diagonal')
def np_fill_diagonal(ex, args, kwargs, node, st):
    m = st.heap[args[0].oid]
    ex.frame_write(m, None, st, node)
    if m.items is not None:
        o2 = m.clone()
        o2.items = [list(r) for r in m.items]
        for k in range(min(len(o2.items), len(o2.items[0]) if o2.items else 0)):
            o2.items[k][k] = float(args[1]) if concrete(args[1]) else args[1]
        st.heap[args[0].oid] = o2
        return None
    v = vlit(args[1])
    old = array2d_term(ex, m, st)
    new = fresh('diag', arr2sort(Val))
    i, j = z3.Consts('di!%d dj!%d' % (ex.qcount(), ex.qcount()), IntS)
    st.assume(z3.ForAll([i, j], sel2(new, i, j) == z3.If(i == j, v, sel2(old, i, j))))
    st.heap[args[0].oid] = m.clone(arr=new, items=None)
    return None


@lib('np.triu_indices')
def np_triu_indices(ex, args, kwargs, node, st):
    """(rows, cols) of the strict upper triangle of an n x n matrix in row-major order (A3):
    the k-th pair is the pair of rank k, stated through Sel / Rank of specs/layout.py."""
    from .contracts import SPECS
    n = ex.need_num(args[0], node)
    if kwargs.get('k', 0) != 1:
        raise Unsupported('triu_indices with k != 1')
    if is_cint(n) and ex.mode == 'run':
        pairs = [(r, c) for r in range(n) for c in range(r + 1, n)]
        out = []
        for w in (0, 1):
            oid = st.new_oid('N')
            st.heap[oid] = ArrObj('int', items=[p[w] for p in pairs], length=len(pairs), pykind='ndarray', dtype='int')
            out.append(Ref(oid))
        return tuple(out)
    ln = SPECS['LenFull'].z3(ex, st, n)
    R = fresh('triu_rows', z3.ArraySort(IntS, IntS))
    C = fresh('triu_cols', z3.ArraySort(IntS, IntS))
    k, r, c = z3.Consts('tk!%d tr!%d tc!%d' % (ex.qcount(), ex.qcount(), ex.qcount()), IntS)
    sel = lambda a, b: SPECS['Sel'].z3(ex, st, None, n, a, b)
    rank = lambda a, b: SPECS['Rank'].z3(ex, st, None, n, a, b)
    st.assume(z3.ForAll([k], z3.Implies(z3.And(k >= 0, k < ln), z3.And(
        sel(z3.Select(R, k), z3.Select(C, k)), rank(z3.Select(R, k), z3.Select(C, k)) == k))))
    st.assume(z3.ForAll([r, c], z3.Implies(sel(r, c), z3.And(
        rank(r, c) >= 0, rank(r, c) < ln, z3.Select(R, rank(r, c)) == r, z3.Select(C, rank(r, c)) == c))))
    out = []
    for arr in (R, C):
        oid = st.new_oid('N')
        st.heap[oid] = ArrObj('int', arr=arr, length=ln, pykind='ndarray', dtype='int')
        out.append(Ref(oid))
    return tuple(out)


# ------------------------------------------------------------------ C library (A3 / A6)
@lib('c.malloc')
def c_malloc(ex, args, kwargs, node, st):
    """malloc(bytes): a fresh block (A6: allocation succeeds); typed by the enclosing cast."""
    nbytes = args[0]
    oid = st.new_oid('H')
    st.heap[oid] = ArrObj('raw', length=nbytes, pykind='cblock', name='malloc@%s' % getattr(node, 'lineno', '?'))
    return Ptr(oid, 0)


@lib('c.free')
def c_free(ex, args, kwargs, node, st):
    p = args[0]
    if isinstance(p, Ptr) and p.oid is not None:
        o = st.heap[p.oid].clone()
        if getattr(st.heap[p.oid], 'freed', False):
            ex.oblige('double-free', False, st, node, 'double free')
        o.freed = True
        st.heap[p.oid] = o
    return None


@lib('c.sqrt')
def c_sqrt(ex, args, kwargs, node, st):
    return math_sqrt(ex, args, kwargs, node, st)


@lib('c.pow')
def c_pow(ex, args, kwargs, node, st):
    a, b = args
    if concrete(a) and concrete(b):
        return float(a) ** float(b)
    return vpow(vlit(a), vlit(b))


@lib('c.fabs')
def c_fabs(ex, args, kwargs, node, st):
    return num_abs(vlit(args[0]) if not concrete(args[0]) else float(args[0]))


LIB['c.__builtin_fabs'] = c_fabs


@lib('c.exp')
def c_exp(ex, args, kwargs, node, st):
    return np_exp(ex, args, kwargs, node, st)


@lib('c.__builtin_inff')
def c_inf(ex, args, kwargs, node, st):
    return float('inf')


LIB['c.__builtin_inf'] = c_inf
LIB['c.__builtin_huge_valf'] = c_inf


@lib('c.__assert_fail')
def c_assert_fail(ex, args, kwargs, node, st):
    """assert(): release builds compile it out, here it must be *proved* (DESIGN 3.1)."""
    if ex.mode == 'run':
        # production builds define NDEBUG: the assert is compiled out; record and continue
        ex.assert_failures = getattr(ex, 'assert_failures', [])
        ex.assert_failures.append((getattr(node, 'lineno', 0), args[0] if args else ''))
        return None
    ex.oblige('assert', False, st, node, 'C assert(%s)' % (args[0] if args and isinstance(args[0], str) else ''))
    if not ex.guards:
        raise PathEnd()
    return None


def _noop(ex, args, kwargs, node, st):
    return 0


for _n in ('printf', 'fflush', 'signal', 'fprintf'):
    LIB['c.' + _n] = _noop


# ------------------------------------------------------------------ level R: NumPy on real scalars / small arrays
def _real(v):
    from .vals import is_real, is_int
    if is_real(v):
        return v
    if is_int(v):
        return z3.ToReal(zint(v))
    if isinstance(v, float):
        return z3.RealVal(repr(v))
    return None


def _map_real(ex, st, v, f):
    items = ex.elementwise_items(v, st)
    if items is not None:
        return ex.new_ndarray(st, [f(_real(x)) for x in items])
    r = _real(v)
    if r is None:
        return None
    return f(r)


def _real_fn(name, fun, fallback=None):
    def h(ex, args, kwargs, node, st):
        out = _map_real(ex, st, args[0], fun(ex, st, node))
        if out is None:
            if fallback is not None:
                return fallback(ex, args, kwargs, node, st)
            raise Unsupported('%s of %r' % (name, type(args[0])))
        return out
    return h


def _rexp(ex, st, node):
    from specs.reals import rexp
    return lambda x: rexp(x)


def _rlog(ex, st, node):
    from specs.reals import rlog

    def f(x):
        ex.oblige('domain', x > 0, st, node, 'log of a positive number')
        return rlog(x)
    return f


def _rsqrt(ex, st, node):
    from specs.reals import rsqrt

    def f(x):
        ex.oblige('domain', x >= 0, st, node, 'sqrt of a non-negative number')
        return rsqrt(x)
    return f


_old_exp = LIB['np.exp']
LIB['np.exp'] = _real_fn('np.exp', _rexp, _old_exp)
LIB['np.log'] = _real_fn('np.log', _rlog)
_old_sqrt = LIB['np.sqrt']
LIB['np.sqrt'] = _real_fn('np.sqrt', _rsqrt, _old_sqrt)
LIB['np.abs'] = _real_fn('np.abs', lambda ex, st, node: (lambda x: z3.If(x < 0, -x, x)))
LIB['np.sign'] = _real_fn('np.sign', lambda ex, st, node: (lambda x: z3.If(x < 0, z3.RealVal(-1), z3.If(x > 0, z3.RealVal(1), z3.RealVal(0)))))


@lib('np.power')
def np_power(ex, args, kwargs, node, st):
    """np.power(X, 2) elementwise; np.power(base, X) with a scalar base (A3)"""
    from specs.reals import rpow
    a, b = args
    if is_cint(b) and b == 2:
        return _map_real(ex, st, a, lambda x: x * x)
    ra = _real(a)
    if ra is not None:
        return _map_real(ex, st, b, lambda x: rpow(ra, x))
    raise Unsupported('np.power form')


def _summary(name, rel):
    """np.max / np.min / np.mean / np.quantile of an array of which the executor sees a few elements:
    a real symbol (one per array and statistic) constrained only by what holds for *every* array
    containing those elements; `nonneg` arrays (distances) have non-negative statistics."""
    def h(ex, args, kwargs, node, st):
        v = args[0]
        items = ex.elementwise_items(v, st)
        if items is None:
            raise Unsupported('%s of %r' % (name, type(v)))
        o = st.heap[v.oid]
        sym = z3.Real('%s_%s' % (name, o.name or v.oid))
        done = st.vars.setdefault('__summaries__', set())
        if sym.decl().name() not in done:
            done.add(sym.decl().name())
            for x in items:
                c = rel(sym, _real(x))
                if c is not None:
                    st.assume(c)
            if getattr(o, 'nonneg', False):
                st.assume(sym >= 0)
        return sym
    return h


LIB['np.max'] = _summary('npmax', lambda m, x: m >= x)
LIB['np.min'] = _summary('npmin', lambda m, x: m <= x)
LIB['np.mean'] = _summary('npmean', lambda m, x: None)


def _np_quantile(ex, args, kwargs, node, st):
    q = _summary('npquantile', lambda m, x: None)(ex, args, kwargs, node, st)
    mx = LIB['np.max'](ex, args, kwargs, node, st)
    mn = LIB['np.min'](ex, args, kwargs, node, st)
    st.assume(z3.And(mn <= q, q <= mx))
    return q


LIB['np.quantile'] = _np_quantile


def _arg_extreme(ex, args, node, st, which):
    """np.argmin / np.argmax of a 1-D view: index of the first minimal (maximal) element (A3).  For a slice of a 2-D array the
    defining facts are stated over the positions of the underlying array, which gives E-matching a natural trigger."""
    q = ex.seq_of(args[0], st, node)
    less = (lambda a, b: val_lt(a, b)) if which == 'min' else (lambda a, b: val_lt(b, a))
    if q.items is not None and all(concrete(x) for x in q.items):
        if not q.items:
            ex.oblige('nonempty', False, st, node, 'arg%s of an empty sequence' % which)
            raise PathEnd()
        best = 0
        for k, x in enumerate(q.items):
            if (x < q.items[best]) if which == 'min' else (x > q.items[best]):
                best = k
        return best
    if q.items is not None and 0 < len(q.items) <= 8:
        # a short literal list of symbolic values: the index of the first extreme element, position by position
        k = fresh('arg%s' % which, IntS)
        xs = list(q.items)
        st.assume(z3.Or([k == t for t in range(len(xs))]))
        for t in range(len(xs)):
            facts = [z3.Not(zbool(less(xs[u], xs[t]))) for u in range(len(xs)) if u != t]
            facts += [zbool(less(xs[t], xs[u])) for u in range(t)]
            st.assume(z3.Implies(k == t, z3.And(facts) if facts else z3.BoolVal(True)))
        return k
    n = zint(q.length)
    ex.oblige('nonempty', n > 0, st, node, 'arg%s of an empty sequence raises ValueError' % which)
    st.assume(n > 0)
    if q.pos is not None:
        at, lo, hi, start, step = q.pos
        kp = fresh('arg%s_pos' % which, IntS)
        p = z3.Const('am_p!%d' % ex.qcount(), IntS)
        st.assume(z3.And(lo <= kp, kp < hi))
        def forall_at(body):
            # the element term is the natural trigger; on changed code it may not mention the position (a constant row /
            # column index): then the fact is stated without a trigger instead of crashing the checker
            try:
                return z3.ForAll([p], body, patterns=[at(p)])
            except z3.Z3Exception:
                return z3.ForAll([p], body)
        st.assume(forall_at(z3.Implies(z3.And(lo <= p, p < hi), z3.Not(zbool(less(at(p), at(kp)))))))
        earlier = z3.And(kp < p, p < hi) if step == -1 else z3.And(lo <= p, p < kp)
        st.assume(forall_at(z3.Implies(earlier, zbool(less(at(kp), at(p))))))
        return (kp - start) * step
    k = fresh('arg%s' % which, IntS)
    j = z3.Const('am_j!%d' % ex.qcount(), IntS)
    st.assume(z3.And(0 <= k, k < n))
    st.assume(z3.ForAll([j], z3.Implies(z3.And(0 <= j, j < n), z3.Not(zbool(less(q.get(j), q.get(k)))))))
    st.assume(z3.ForAll([j], z3.Implies(z3.And(0 <= j, j < k), zbool(less(q.get(k), q.get(j))))))
    return k


@lib('argmin')
def lib_argmin(ex, args, kwargs, node, st):
    return _arg_extreme(ex, args, node, st, 'min')


@lib('argmax')
def lib_argmax(ex, args, kwargs, node, st):
    return _arg_extreme(ex, args, node, st, 'max')


LIB['np.argmin'] = lib_argmin
LIB['np.argmax'] = lib_argmax
