"""Runs real functions of /repo natively (executed by /venv/bin/python, no z3 here).

stdin: JSON {"repo": path, "calls": [{"func": "dtw._distance_matrix_length", "args": {...}}, ...]}
stdout: JSON list of {"ok": bool, "result": enc, "exc": str, "args_after": {...}}
Values are encoded with type tags so that containers survive the round trip."""
import sys
import json
import math
import array
import importlib
import io
import contextlib


def dec(v):
    if v is None or isinstance(v, (bool, int, str)):
        return v
    if isinstance(v, float):
        return v
    if isinstance(v, dict):
        if 'f' in v:
            return float.fromhex(v['f']) if isinstance(v['f'], str) else float(v['f'])
        if 't' in v:
            return tuple(dec(x) for x in v['t'])
        if 'l' in v:
            return [dec(x) for x in v['l']]
        if 'a' in v:
            return array.array(v.get('tc', 'd'), [dec(x) for x in v['a']])
        if 'n' in v:
            import numpy as np
            a = np.array(dec({'l': v['n']}), dtype=v.get('dtype', 'float64'))
            if v.get('order') == 'F':
                a = np.asfortranarray(a)
            return a
        if 'd' in v:
            return {k: dec(x) for k, x in v['d'].items()}
        if 's' in v:
            return v['s']
        if 'call' in v:
            # a value produced by a /repo function, e.g. a closure from alignment.make_substitution_fn
            mod, _, fn = v['call']['func'].rpartition('.')
            f = getattr(importlib.import_module('dtaidistance.' + mod), fn)
            return f(**{k: dec(x) for k, x in v['call'].get('args', {}).items()})
        if 'fnref' in v:
            mod, _, fn = v['fnref'].rpartition('.')
            return getattr(importlib.import_module('dtaidistance.' + mod), fn)
        if 'obj' in v:
            mod = importlib.import_module('dtaidistance.' + v['obj']['module'])
            cls = getattr(mod, v['obj']['cls'])
            return cls(**{k: dec(x) for k, x in v['obj'].get('kwargs', {}).items()})
    if isinstance(v, list):
        return [dec(x) for x in v]
    raise ValueError('cannot decode %r' % (v,))


def enc(v):
    try:
        import numpy as np
    except ImportError:
        np = None
    if v is None or isinstance(v, (bool, str)):
        return v
    if np is not None and isinstance(v, (np.bool_,)):
        return bool(v)
    if isinstance(v, int) or (np is not None and isinstance(v, np.integer)):
        return int(v)
    if isinstance(v, float) or (np is not None and isinstance(v, np.floating)):
        return {'f': float(v).hex()}
    if isinstance(v, tuple):
        return {'t': [enc(x) for x in v]}
    if isinstance(v, list):
        return {'l': [enc(x) for x in v]}
    if isinstance(v, array.array):
        return {'a': [enc(x) for x in v], 'tc': v.typecode}
    if np is not None and isinstance(v, np.ndarray):
        return {'n': enc(v.tolist())['l'] if v.ndim > 0 else [enc(v.item())], 'dtype': str(v.dtype), 'shape': list(v.shape)}
    if isinstance(v, dict):
        return {'d': {str(k): enc(x) for k, x in v.items()}}
    if isinstance(v, (set, frozenset)):
        return {'set': sorted(enc(x) for x in v)}
    d = getattr(v, '__dict__', None)
    if isinstance(d, dict) and type(v).__module__.startswith('dtaidistance'):
        # an object of the library: its simple public attributes (numbers, arrays) are the observation
        out = {}
        for k, x in d.items():
            if k.startswith('_'):
                continue
            if x is None or isinstance(x, (bool, int, float, str)) or (np is not None and isinstance(x, (np.ndarray, np.floating, np.integer))):
                out[k] = enc(x)
        return {'o': {'cls': type(v).__module__.replace('dtaidistance.', '', 1) + '.' + type(v).__name__, 'fields': out}}
    return {'repr': repr(v)}


def main():
    req = json.load(sys.stdin)
    sys.path.insert(0, req['repo'] + '/src')
    out = []
    for call in req['calls']:
        parts = call['func'].split('.')
        rec = {'ok': False, 'result': None, 'exc': None}
        try:
            obj = None
            for cut in range(len(parts) - 1, 0, -1):
                try:
                    obj = importlib.import_module('dtaidistance.' + '.'.join(parts[:cut]))
                    rest = parts[cut:]
                    break
                except ImportError:
                    continue
            for r in rest:
                obj = getattr(obj, r)
            args = {k: dec(v) for k, v in call['args'].items()}
            kw = args.pop('**', {}) if '**' in args else {}
            pos = args.pop('*', []) if '*' in args else []
            buf = io.StringIO()
            with contextlib.redirect_stdout(buf):
                res = obj(*pos, **args, **kw)
            rec['ok'] = True
            rec['result'] = enc(res)
            rec['args_after'] = {k: enc(v) for k, v in args.items()}
            if kw:
                rec['args_after']['kwargs'] = enc(kw)
        except BaseException as e:      # noqa: the exception *is* the observation
            rec['exc'] = '%s: %s' % (type(e).__name__, e)
        out.append(rec)
    json.dump(out, sys.stdout)


if __name__ == '__main__':
    main()
