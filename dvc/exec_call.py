"""Calls: builtins, assumed library contracts (A3), spec functions, contracted repository
functions (modular: requires checked, ensures assumed) and inlined loop-free helpers."""
import ast
import re
re_result = re.compile(r'\bresult\b')
import z3
from .vals import *
from .ops import *
from .state import State, Unsupported, CannotBind, PathEnd, fresh
from .contracts import CONTRACTS, SPECS
from .exec_stmt import _Return, _Raise, Modified

INF = float('inf')


class CallMixin:

    def ev_Call(self, node, st):
        # spec-only forms first
        f = node.func
        if isinstance(f, ast.Name) and (f.id not in st.vars or (self.spec_mode and not isinstance(st.vars[f.id], FuncV))):
            h = getattr(self, 'form_' + f.id, None)
            if h is not None and (self.spec_mode or f.id in ('isinstance', 'hasattr', 'type')):
                return h(node, st)
        fn = self.ev(f, st)
        args = []
        for a in node.args:
            if isinstance(a, ast.Starred):
                args.extend(self.concrete_items(self.ev(a.value, st), st))
            else:
                args.append(self.ev(a, st))
        kwargs = {}
        for kw in node.keywords:
            if kw.arg is None:
                kwargs.update(self.as_dict(self.ev(kw.value, st)))
            else:
                kwargs[kw.arg] = self.ev(kw.value, st)
        return self.call(fn, args, kwargs, node, st)

    def call(self, fn, args, kwargs, node, st):
        if not isinstance(fn, FuncV):
            raise Unsupported('call of %r (line %s in %s)' % (fn, getattr(node, 'lineno', '?'), self.fname))
        name = fn.name
        if name == 'lambda':
            lam, env = fn.bound
            st2 = st.fork()
            st2.pc = st.pc
            st2.vars = dict(env)
            st2.vars.update(st.vars)
            for p, a in zip(lam.args.args, args):
                st2.vars[p.arg] = a
            return self.ev(lam.body, st2)
        if name.startswith('spec.'):
            return self.call_spec(name[5:], args, kwargs, node, st)
        if name.startswith('builtin.'):
            h = getattr(self, 'bi_' + name[8:], None)
            if h is None:
                raise Unsupported('builtin %s' % name)
            return h(args, kwargs, node, st)
        if name.startswith('method.'):
            h = getattr(self, 'me_' + name[7:], None)
            if h is None:
                raise Unsupported('method %s' % name)
            return h(fn.bound, args, kwargs, node, st)
        if name.startswith('lib.'):
            return self.call_lib(name[4:], args, kwargs, node, st)
        if name.startswith('class.'):
            return self.construct(name[6:], args, kwargs, node, st)
        if fn.bound is not None:
            args = [fn.bound] + list(args)
        return self.call_repo(name, args, kwargs, node, st)

    # ------------------------------------------------------------------ spec-mode forms
    def form_forall(self, node, st):
        lam = node.args[0]
        if not isinstance(lam, ast.Lambda):
            raise Unsupported('forall needs a lambda')
        names = [a.arg for a in lam.args.args]
        if self.concrete_spec:
            return self.forall_concrete(names, lam.body, st)
        vs = [z3.Const('q_%s!%d' % (n, self.qcount()), IntS) for n in names]
        st2 = st.fork()
        st2.pc = st.pc
        for n, v in zip(names, vs):
            st2.vars[n] = v
        body = zbool(truth(self.ev(lam.body, st2)))
        pats = []
        for kw in node.keywords:
            if kw.arg == 'pattern':
                pats = [self.ev(kw.value, st2)]
            if kw.arg == 'alt':          # alternative single-term patterns: any of them triggers
                pats = list(self.ev(kw.value, st2))
        if not pats:
            # explicit trigger markers T1(k) / T2(r, c) in the body (always-true predicates)
            from .vals import find_triggers
            pats = find_triggers(body, vs)
        if pats:
            return z3.ForAll(vs, body, patterns=[p if not isinstance(p, tuple) else z3.MultiPattern(*p) for p in pats])
        return z3.ForAll(vs, body)

    def form_exists(self, node, st):
        lam = node.args[0]
        names = [a.arg for a in lam.args.args]
        if self.concrete_spec:
            return b_not(self.forall_concrete(names, ast.UnaryOp(op=ast.Not(), operand=lam.body), st))
        vs = [z3.Const('e_%s!%d' % (n, self.qcount()), IntS) for n in names]
        st2 = st.fork()
        st2.pc = st.pc
        for n, v in zip(names, vs):
            st2.vars[n] = v
        return z3.Exists(vs, zbool(truth(self.ev(lam.body, st2))))

    concrete_spec = False
    quant_range = (-2, 12)

    def forall_concrete(self, names, body, st):
        import itertools
        lo, hi = self.quant_range
        for combo in itertools.product(range(lo, hi), repeat=len(names)):
            st2 = st.fork()
            for n, v in zip(names, combo):
                st2.vars[n] = v
            try:
                r = truth(self.ev(body, st2))
            except PathEnd:
                continue
            if r is False:
                self.last_counter = dict(zip(names, combo))
                return False
            if r is not True:
                r = z3.simplify(zbool(r))
                if z3.is_false(r):
                    self.last_counter = dict(zip(names, combo))
                    return False
        return True

    _q = 0

    def qcount(self):
        CallMixin._q += 1
        return CallMixin._q

    def form_implies(self, node, st):
        a = truth(self.ev(node.args[0], st))
        if a is False:
            return True
        if a is not True:
            self.guards.append(zbool(a))
        try:
            b = truth(self.ev(node.args[1], st))
        except PathEnd:
            if self.concrete_spec:
                # a cell outside the concrete buffer does not exist: nothing to compare
                # (out-of-bounds accesses of the real code are caught natively by ASan)
                return True
            # the consequent is undefined (e.g. dereferences NULL): the implication can only hold
            # where its antecedent is false
            b = False
        finally:
            if a is not True:
                self.guards.pop()
        return b_implies(a, b)

    def form_iff(self, node, st):
        a = truth(self.ev(node.args[0], st))
        b = truth(self.ev(node.args[1], st))
        return compare('==', a, b) if not (isinstance(a, bool) and isinstance(b, bool)) else a == b

    def form_ite(self, node, st):
        c = truth(self.ev(node.args[0], st))
        if c is True:
            return self.ev(node.args[1], st)
        if c is False:
            return self.ev(node.args[2], st)
        return ite(c, self.ev(node.args[1], st), self.ev(node.args[2], st))

    def form_old(self, node, st):
        o = self.spec_old
        if o is None:
            o = State()
            o.vars = st.old_vars
            o.heap = st.old_heap
        o2 = o.fork()
        # quantified variables stay visible
        for k, v in st.vars.items():
            if k not in o2.vars:
                o2.vars[k] = v
        return self.ev(node.args[0], o2)

    def form_length(self, node, st):
        return self.bi_len([self.ev(node.args[0], st)], {}, node, st)

    form_nelems = form_length

    def form_is_none(self, node, st):
        return self.identity(self.ev(node.args[0], st), None)

    def form_arr(self, node, st):
        """arr(x): the z3 array term behind a 1-D array object (for spec functions over arrays)."""
        v = self.ev(node.args[0], st)
        return self.array_term(v, st)

    def array_term(self, v, st):
        if isinstance(v, Ptr):
            obj = st.heap[v.oid]
            return self.materialize(obj)
        if isinstance(v, Ref):
            return self.materialize(st.heap[v.oid])
        if is_z3(v) and z3.is_array(v):
            return v
        raise Unsupported('arr() of %r' % type(v))

    def materialize(self, obj):
        if obj.items is None:
            return obj.arr
        if obj.kind == 'ipair':
            a = z3.K(IntS, ip_mk(z3.IntVal(0), z3.IntVal(0)))
            for k, x in enumerate(obj.items):
                a = z3.Store(a, k, ip_mk(zint(x[0]), zint(x[1])))
            return a
        if obj.kind not in ('int', 'val', 'bool'):
            raise Unsupported('materialize array of kind %s' % obj.kind)
        es = kind_sort(obj.kind)
        a = z3.K(IntS, vlit(0.0) if obj.kind == 'val' else (z3.IntVal(0) if obj.kind == 'int' else z3.BoolVal(False)))
        for k, x in enumerate(obj.items):
            a = z3.Store(a, k, vlit(x) if obj.kind == 'val' else (zint(x) if obj.kind == 'int' else zbool(x)))
        return a

    def form_off(self, node, st):
        v = self.ev(node.args[0], st)
        if isinstance(v, Ptr):
            return v.off
        return 0

    def form_isinstance(self, node, st):
        v = self.ev(node.args[0], st)
        t = ast.unparse(node.args[1])
        return self.isinstance_of(v, t, st)

    def isinstance_of(self, v, t, st):
        if isinstance(v, Opt):
            return b_and(b_not(v.isnone), self.isinstance_of(v.v, t, st))
        if t in ('np.ndarray', 'numpy.ndarray'):
            if isinstance(v, Seq):
                return bool(v.nd)
            if isinstance(v, Ref):
                o = st.heap[v.oid]
                return isinstance(o, ArrObj) and o.pykind == 'ndarray'
            return False
        if t == 'int':
            return is_int(v)
        if t == 'float':
            return is_val(v)
        if t in ('tuple', 'list'):
            if isinstance(v, tuple):
                return t == 'tuple'
            if isinstance(v, Ref):
                o = st.heap[v.oid]
                return t == 'list' and isinstance(o, ArrObj) and o.pykind == 'list'
            return False
        if isinstance(v, Ref) and isinstance(st.heap[v.oid], RecObj):
            return st.heap[v.oid].cls.split('.')[-1] == t.split('.')[-1]
        raise Unsupported('isinstance(%r, %s)' % (type(v), t))

    def form_hasattr(self, node, st):
        v = self.ev(node.args[0], st)
        a = self.ev(node.args[1], st)
        if isinstance(v, str):
            return False
        if isinstance(v, Ref) and isinstance(st.heap[v.oid], RecObj):
            o = st.heap[v.oid]
            return a in o.fields or self.find_method(o.cls, a) is not None
        raise Unsupported('hasattr on %r' % type(v))

    def form_type(self, node, st):
        v = self.ev(node.args[0], st)
        if isinstance(v, Opt):
            raise Unsupported('type() of optional value; split the contract into cases')
        if v is None:
            return FuncV('builtin.NoneType')
        if is_int(v):
            return FuncV('builtin.int')
        if is_val(v):
            return FuncV('builtin.float')
        if isinstance(v, tuple):
            return FuncV('builtin.tuple')
        if isinstance(v, Ref) and isinstance(st.heap[v.oid], ArrObj):
            return FuncV('builtin.' + st.heap[v.oid].pykind)
        if is_bool(v):
            return FuncV('builtin.bool')
        if is_real(v):
            return FuncV('builtin.float')
        raise Unsupported('type() of %r' % type(v))

    # ------------------------------------------------------------------ spec functions
    def call_spec(self, name, args, kwargs, node, st):
        s = SPECS.get(name)
        if s is None:
            raise Unsupported('unknown spec function %s' % name)
        self.used_specs.add(name)
        if self.concrete_spec and s.py is not None:
            return s.py(self, st, *args)
        return s.z3(self, st, *args)

    # ------------------------------------------------------------------ builtins
    def bi_len(self, args, kwargs, node, st):
        v = args[0]
        if isinstance(v, Opt):
            self.oblige('not-none', b_not(v.isnone), st, node, 'len() of a value that may be None')
            v = v.v
        if isinstance(v, (tuple, list, dict, str)):
            return len(v)
        if v is None and self.spec_mode:
            return 0
        if isinstance(v, Ptr):
            if v.oid is None:
                return 0
            return st.heap[v.oid].length
        if isinstance(v, Seq):
            return v.length
        if isinstance(v, Ref):
            o = st.heap[v.oid]
            if isinstance(o, ArrObj):
                return o.shape[0] if o.shape is not None else o.length
            if isinstance(o, RecObj):
                h = self.rec_len(o, v, st, node)
                if h is not NotImplemented:
                    return h
        raise Unsupported('len of %r' % type(v))

    def bi_min(self, args, kwargs, node, st):
        return self.minmax(args, node, st, vmin2, 'min')

    def bi_max(self, args, kwargs, node, st):
        return self.minmax(args, node, st, vmax2, 'max')

    def minmax(self, args, node, st, f2, which):
        if len(args) == 1:
            return self.seq_minmax(args[0], node, st, which)
        r = self.need_num(args[0], node)
        for a in args[1:]:
            r = f2(r, self.need_num(a, node))
        return r

    def seq_minmax(self, v, node, st, which):
        """min / max / np.min / np.max of a sequence (A3: the extremum of a non-empty sequence;
        ValueError on an empty one is an obligation)."""
        q = self.seq_of(v, st, node)
        if q.items is not None:
            if not q.items:
                self.oblige('nonempty', False, st, node, '%s() of an empty sequence' % which)
                raise PathEnd()
            r = q.items[0]
            for x in q.items[1:]:
                r = (vmin2 if which == 'min' else vmax2)(r, x)
            return r
        self.oblige('nonempty', compare('>', q.length, 0), st, node, '%s() of an empty sequence' % which)
        if q.win is not None and q.kind == 'val':
            # A3: max / min / np.max / np.min of a window = left fold keeping the first extremum
            from specs.bounds import WinMaxf, WinMinf
            self.notes.add('assumed library contract: %s of a window is its left fold (WinMax/WinMin)' % which)
            return (WinMinf if which == 'min' else WinMaxf)(q.win[0], q.win[1], q.win[2])
        if q.kind not in ('val', 'int'):
            raise Unsupported('%s of sequence of %s' % (which, q.kind))
        es = kind_sort(q.kind)
        r = fresh('%s_seq' % which, es)
        k = z3.Const('mk!%d' % self.qcount(), IntS)
        n = zint(q.length)
        le = (lambda a, b: z3.Not(vlt(b, a))) if q.kind == 'val' else (lambda a, b: a <= b)
        if which == 'min':
            st.assume(z3.ForAll([k], z3.Implies(z3.And(k >= 0, k < n), le(r, q.get(k)))))
        else:
            st.assume(z3.ForAll([k], z3.Implies(z3.And(k >= 0, k < n), le(q.get(k), r))))
        w = fresh('%s_at' % which, IntS)
        st.assume(z3.And(w >= 0, w < n, r == q.get(w)))
        return r

    def bi_abs(self, args, kwargs, node, st):
        return num_abs(self.need_num(args[0], node))

    def bi_int(self, args, kwargs, node, st):
        v = args[0]
        if is_int(v):
            return v
        if isinstance(v, float):
            return int(v)
        if is_z3(v) and v.sort() == Val:
            # int(a / 2**k) for integers a: exact when |a| < 2**53 (obligation)
            if v.decl().name() == 'vdiv':
                num, den = v.arg(0), v.arg(1)
                ni, di = self.val_as_int(num), self.val_as_int(den)
                if ni is not None and di is not None and z3.is_int_value(di) and di.as_long() in (1, 2, 4, 8):
                    self.oblige('float-exact', z3.And(ni <= 2 ** 53, ni >= -2 ** 53), st, node,
                                'int(a / %d) is exact only for |a| <= 2**53' % di.as_long())
                    return c_div(ni, di)
            raise Unsupported('int() of a float expression')
        if isinstance(v, bool) or is_bool(v):
            return zint(v)
        raise Unsupported('int() of %r' % type(v))

    def val_as_int(self, t):
        if t.decl().name() == 'vofreal':
            r = t.arg(0)
            if z3.is_app(r) and r.decl().kind() == z3.Z3_OP_TO_REAL:
                return r.arg(0)
            r = z3.simplify(r)
            if z3.is_rational_value(r) and r.denominator_as_long() == 1:
                return z3.IntVal(r.numerator_as_long())
        return None

    def bi_float(self, args, kwargs, node, st):
        v = args[0]
        if isinstance(v, str):
            return float(v)
        if concrete(v):
            return float(v)
        return vlit(v)

    def bi_range(self, args, kwargs, node, st):
        a = [self.need_num(x, node) for x in args]
        if len(a) == 1:
            return FuncV('rangeobj', bound=(0, a[0]))
        if len(a) == 2:
            return FuncV('rangeobj', bound=(a[0], a[1]))
        raise Unsupported('range with step')

    def bi_tuple(self, args, kwargs, node, st):
        return tuple(self.concrete_items(args[0], st))

    def bi_list(self, args, kwargs, node, st):
        if not args:
            return self.new_list(st, [])
        v = args[0]
        if isinstance(v, Ref) and isinstance(st.heap[v.oid], ArrObj) and st.heap[v.oid].items is None \
                and st.heap[v.oid].shape is None and st.heap[v.oid].pykind == 'list':
            # list(xs) of a list of symbolic length: a new list object with the same elements
            oid = st.new_oid('L')
            st.heap[oid] = st.heap[v.oid].clone()
            return Ref(oid)
        return self.new_list(st, self.concrete_items(v, st))

    def bi_divmod(self, args, kwargs, node, st):
        a, b = self.need_num(args[0], node), self.need_num(args[1], node)
        if is_cint(a) and is_cint(b):
            if b == 0:
                self.oblige('div0', False, st, node, 'divmod by zero')
                raise PathEnd()
            return divmod(a, b)
        self.oblige('div0', zint(b) != 0, st, node, 'divmod by zero')
        if not self.is_feasible(st, zint(b) <= 0):
            return (zint(a) / zint(b), zint(a) % zint(b))      # floor division for a positive divisor (SMT-LIB div / mod)
        raise Unsupported('divmod with a divisor that may be negative')

    def bi_print(self, args, kwargs, node, st):
        return None

    def bi_tqdm(self, args, kwargs, node, st):
        return args[0]

    def bi_str(self, args, kwargs, node, st):
        return '<str>'

    def bi_seq_min(self, args, kwargs, node, st):
        return self.seq_minmax(args[0], node, st, 'min')

    def bi_seq_max(self, args, kwargs, node, st):
        return self.seq_minmax(args[0], node, st, 'max')

    # ------------------------------------------------------------------ methods
    def me_append(self, recv, args, kwargs, node, st):
        if not isinstance(recv, Ref):
            raise Unsupported('append on %r' % type(recv))
        obj = st.heap[recv.oid]
        v = args[0]
        if obj.items is not None and obj.pykind == 'list' and isinstance(v, tuple) and len(v) == 2 and all(is_int(x) for x in v) \
                and all(isinstance(x, tuple) and len(x) == 2 for x in obj.items):
            # a list of index pairs: kept in array form from the first element on (its length may become symbolic in a loop)
            arr = z3.K(IntS, ip_mk(z3.IntVal(0), z3.IntVal(0)))
            for k_, x in enumerate(obj.items):
                arr = z3.Store(arr, k_, ip_mk(zint(x[0]), zint(x[1])))
            n0 = len(obj.items)
            st.heap[recv.oid] = obj.clone(kind='ipair', items=None, arr=z3.Store(arr, n0, ip_mk(zint(v[0]), zint(v[1]))), length=n0 + 1)
            return None
        if obj.items is not None:
            o2 = obj.clone()
            o2.items.append(v)
            o2.length = len(o2.items)
            if o2.kind == 'any' or len(o2.items) == 1:
                o2.kind = 'int' if all(is_int(x) for x in o2.items) else (
                    'val' if all(is_val(x) or is_int(x) for x in o2.items) else 'any')
            st.heap[recv.oid] = o2
            return None
        v = self.elem_coerce(obj, v, node, st)
        n = zint(obj.length)
        st.heap[recv.oid] = obj.clone(arr=z3.Store(obj.arr, n, v), length=n + 1)
        return None

    def me_pop(self, recv, args, kwargs, node, st):
        if not isinstance(recv, Ref) or args:
            raise Unsupported('pop on %r / with an index' % type(recv))
        obj = st.heap[recv.oid]
        if obj.items is not None:
            if not obj.items:
                self.oblige('nonempty', False, st, node, 'pop from an empty list raises IndexError')
                raise PathEnd()
            o2 = obj.clone()
            v = o2.items.pop()
            o2.length = len(o2.items)
            st.heap[recv.oid] = o2
            return v
        n = zint(obj.length)
        self.oblige('nonempty', n > 0, st, node, 'pop from an empty list raises IndexError')
        st.assume(n > 0)
        v = self.arr_read(obj, n - 1, node, st)
        st.heap[recv.oid] = obj.clone(length=n - 1)
        return v

    def me_reverse(self, recv, args, kwargs, node, st):
        if not isinstance(recv, Ref):
            raise Unsupported('reverse on %r' % type(recv))
        obj = st.heap[recv.oid]
        if obj.items is not None:
            o2 = obj.clone()
            o2.items.reverse()
            st.heap[recv.oid] = o2
            return None
        # in-place reversal of a list of symbolic length: a fresh array defined position by position (a definition of the
        # fresh symbol, not an assumption about the program)
        n = zint(obj.length)
        new = fresh('rev_' + (obj.name or 'list'), z3.ArraySort(IntS, kind_sort(obj.kind)))
        k = z3.Const('rv_k!%d' % self.qcount(), IntS)
        st.assume(z3.ForAll([k], z3.Implies(z3.And(0 <= k, k < n), z3.Select(new, k) == z3.Select(obj.arr, n - 1 - k)),
                            patterns=[z3.Select(new, k)]))
        st.heap[recv.oid] = obj.clone(arr=new)
        return None

    def me_lower(self, recv, args, kwargs, node, st):
        if isinstance(recv, str):
            return recv.lower()
        raise Unsupported('lower() of a non-constant string')

    def me_format(self, recv, args, kwargs, node, st):
        return '<str>'

    def me_items(self, recv, args, kwargs, node, st):
        if isinstance(recv, dict):
            return tuple((k, v) for k, v in recv.items())
        raise Unsupported('items()')

    def me_get(self, recv, args, kwargs, node, st):
        if isinstance(recv, dict):
            return recv.get(args[0], args[1] if len(args) > 1 else None)
        raise Unsupported('get()')

    def me_debug(self, recv, args, kwargs, node, st):
        return None

    me_info = me_warning = me_error = me_debug

    # ------------------------------------------------------------------ multiprocessing.Pool (assumed library contract, A3)
    def _pool_results(self, recv, args, kwargs, node, st, ordered):
        """Pool.map / imap (ordered=True): a list R with len(R) == len(xs) and R[k] == fn(xs[k]) for every k -- every item
        exactly once, results in the order of the items.  imap_unordered (ordered=False): the documentation promises the same
        results `in arbitrary order`; modelled as: len(R) == len(xs) and every R[k] is fn(xs[q]) for some q (which q is not
        known).  fn is called once on an arbitrary item xs[q], 0 <= q < len(xs): its preconditions are proved for every item,
        its result term is generalised over q (fn is a function of its argument: dtw.distance#value)."""
        from .omp import consts_of
        if not isinstance(recv, PoolV) or len(args) < 2:
            raise Unsupported('Pool method call')
        fn, xs = args[0], args[1]
        seq = self.seq_of(xs, st, node)
        if self.mode == 'run':
            items = seq.items if seq.items is not None else [seq.get(k) for k in range(seq.length)]
            res = [self.call(fn, [x], {}, node, st) for x in items]
            return self.new_list(st, res)      # (for imap_unordered: the in-order completion, one of the legal ones)
        n = seq.length
        import re
        from .state import _fresh
        before = consts_of(list(st.pc))
        fmark = next(_fresh)
        q = fresh('pool_q', IntS)
        mark = len(st.pc)
        st.assume(z3.And(q >= 0, q < zint(n)))
        item = seq.get(q, st) if getattr(seq, 'kind', '') == 'any' and seq.items is None else seq.get(q)
        r = self.call(fn, [item], {}, node, st)
        if not (is_z3(r) and r.sort() == Val):
            raise Unsupported('Pool.map over a function that does not return a float')
        local = st.pc[mark:]
        del st.pc[mark:]
        R = fresh('pool_res', z3.ArraySort(IntS, Val))
        # symbols created by the call itself (the callee's result and ghost values): fresh per item, hence bound inside the
        # quantified fact; everything else (parameters, earlier results) is the caller's and stays free
        def created_here(nme):
            m = re.search(r'!(\d+)$', nme)
            return nme.startswith('ret_') or (m is not None and int(m.group(1)) > fmark)
        new_syms = [v for nme, v in consts_of(local + [r]).items()
                    if nme not in before and v.get_id() != q.get_id() and created_here(nme)]
        body = z3.And(*(list(local) + [z3.Select(R, q if ordered else fresh('pool_k', IntS)) == r]))
        if ordered:
            inner = z3.Exists(new_syms, body) if new_syms else body
            fact = z3.ForAll([q], z3.Implies(z3.And(q >= 0, q < zint(n)), inner), patterns=[z3.Select(R, q)])
            # the range hypothesis is part of `local`; state it outside as the guard
        else:
            k = fresh('pool_k', IntS)
            body = z3.And(*(list(local) + [z3.Select(R, k) == r]))
            fact = z3.ForAll([k], z3.Implies(z3.And(k >= 0, k < zint(n)), z3.Exists([q] + new_syms, body)), patterns=[z3.Select(R, k)])
        st.assume(fact)
        oid = st.new_oid('L')
        st.heap[oid] = ArrObj('val', arr=R, length=n, pykind='list')
        return Ref(oid)

    def me_pool_map(self, recv, args, kwargs, node, st):
        return self._pool_results(recv, args, kwargs, node, st, True)

    me_pool_imap = me_pool_map

    def me_pool_imap_unordered(self, recv, args, kwargs, node, st):
        return self._pool_results(recv, args, kwargs, node, st, False)

    # ------------------------------------------------------------------ repository functions
    def bind_args(self, finfo, args, kwargs, node, st):
        """Python/C argument binding to parameter names (defaults evaluated in module scope)."""
        a = finfo.node.args
        names = [p.arg for p in getattr(a, 'posonlyargs', [])] + [p.arg for p in a.args]
        out = {}
        args = list(args)
        if len(args) > len(names):
            if a.vararg is None:
                raise Unsupported('too many positional arguments for %s' % finfo.qname)
            out[a.vararg.arg] = tuple(args[len(names):])
            args = args[:len(names)]
        for n, v in zip(names, args):
            out[n] = v
        kw = dict(kwargs)
        for n in names[len(args):]:
            if n in kw:
                out[n] = kw.pop(n)
        for p in a.kwonlyargs:
            if p.arg in kw:
                out[p.arg] = kw.pop(p.arg)
        # defaults
        defaults = list(a.defaults)
        dn = names[len(names) - len(defaults):] if defaults else []
        for n, d in zip(dn, defaults):
            if n not in out:
                out[n] = self.eval_default(finfo, d, st)
        for p, d in zip(a.kwonlyargs, a.kw_defaults):
            if p.arg not in out and d is not None:
                out[p.arg] = self.eval_default(finfo, d, st)
        if a.kwarg is not None:
            out[a.kwarg.arg] = kw
            kw = {}
        elif kw:
            self.oblige('call-args', False, st, node, 'unexpected keyword arguments %s for %s' % (sorted(kw), finfo.qname))
            raise PathEnd()
        for n in names:
            if n not in out:
                self.oblige('call-args', False, st, node, 'missing argument %s for %s' % (n, finfo.qname))
                raise PathEnd()
        return out

    def eval_default(self, finfo, d, st):
        from .executor import Frame
        self.frames.append(Frame(finfo, None))
        try:
            s2 = State()
            s2.heap = st.heap
            return self.ev(d, s2)
        finally:
            self.frames.pop()

    def call_repo(self, name, args, kwargs, node, st):
        from .libmodels import REPO_MODELS
        if name in REPO_MODELS:
            self.notes.add('assumed contract on a repository helper: %s -- %s' % (name, REPO_MODELS[name][1]))
            return REPO_MODELS[name][0](self, args, kwargs, node, st)
        finfo = self.program.function(name)
        top = self.frames[0].contract
        view = getattr(top, 'callee_views', None) or {}
        c = CONTRACTS.get(view.get(name, name))
        if name in view:
            self.notes.add('callee %s summarised by the view contract %s' % (name, view[name]))
        if finfo is None and c is None:
            raise Unsupported('call to unknown function %s (line %s in %s)' % (name, getattr(node, 'lineno', '?'), self.fname))
        if c is not None and not c.inline and not (self.mode == 'run' and finfo is not None):
            return self.call_contract(c, finfo, args, kwargs, node, st)
        if finfo is None:
            raise Unsupported('no body for %s' % name)
        return self.call_inline(finfo, c, args, kwargs, node, st)

    def call_inline(self, finfo, c, args, kwargs, node, st):
        from .executor import Frame
        if self.inline_depth > 6:
            raise Unsupported('inline depth')
        bound = self.bind_args(finfo, args, kwargs, node, st)
        saved_vars = st.vars
        saved_guards = self.guards
        if self.guards:
            # obligations inside the callee must stay guarded: move guards into the path
            raise Unsupported('inlined call %s under an expression guard' % finfo.qname)
        st.vars = bound
        self.frames.append(Frame(finfo, c))
        self.frame.ghost = {}
        self.inline_depth += 1
        try:
            try:
                self.exec_block(finfo.node.body, st)
                r = None
            except _Return as e:
                r = e.value
        finally:
            self.inline_depth -= 1
            self.frames.pop()
            st.vars = saved_vars
        if self.lang == 'c':
            self.sync_boxes(st)
        return r

    def call_contract(self, c, finfo, args, kwargs, node, st):
        """Modular call: prove `requires`, havoc `assigns`, assume `ensures`."""
        if finfo is not None:
            bound = self.bind_args(finfo, args, kwargs, node, st)
        else:
            names = list(c.params)
            bound = dict(zip(names, args))
            bound.update(kwargs)
        # a **kwargs parameter described key by key: keys the caller omits take the callee's defaults
        for pn, pd in c.params.items():
            if isinstance(pd, dict) and isinstance(bound.get(pn), dict):
                full = dict(bound[pn])
                keys = list(pd)
                for case in (c.cases or []):
                    cd = case.get('params', {}).get(pn)
                    if isinstance(cd, dict):
                        keys += [k_ for k_ in cd if k_ not in keys]
                for key in keys:
                    if key not in full:
                        full[key] = getattr(c, 'kwdefaults', {}).get(key)
                bound[pn] = full
        # a parameter the callee's contract fixes to a constant (its proof covers that value only) must receive that value
        for pn, pd in c.params.items():
            if isinstance(pd, tuple) and len(pd) == 2 and pd[0] == 'const' and pn in bound and not getattr(self, 'frame_only', False):
                got = bound[pn]
                if isinstance(got, Opt):
                    same = b_and(got.isnone, True) if pd[1] is None else (b_and(b_not(got.isnone), compare('==', got.v, pd[1])) if got.v is not None else False)
                elif got is None or pd[1] is None or isinstance(got, (str, bool)) or isinstance(pd[1], (str, bool)):
                    same = (got is pd[1]) if (got is None or pd[1] is None or isinstance(pd[1], bool) or isinstance(got, bool)) else (got == pd[1])
                else:
                    same = compare('==', got, pd[1])
                self.oblige('requires', zbool(same) if is_z3(same) else bool(same), st, node,
                            'the contract of %s covers %s == %r only' % (c.name, pn, pd[1]),
                            detail='%s.const-%s+%d' % (c.name.split('::')[-1].split('.')[-1], pn,
                                                       (getattr(node, 'lineno', 0) or 0) - (self.frame.finfo.lineno or 0)))
        if getattr(self, 'frame_only', False):
            # frame analysis: only the callee's write set matters
            for a in c.assigns:
                self.havoc_assigned(a, bound, st)
                v_ = bound.get(a.split('.')[0])
                if isinstance(v_, (Ref, Ptr)) and getattr(v_, 'oid', None) is not None:
                    obj_ = st.heap[v_.oid]
                    self.frame_write(obj_, a.split('.')[1] if '.' in a else None, st, node)
            if c.returns is None and c.lang == 'c' and finfo is not None:
                rt = (getattr(finfo.node, 'rettype', '') or '').strip()
                c.returns = {'seq_t': 'val', 'double': 'val', 'idx_t': 'int', 'int': 'int', 'bool': 'bool',
                             '_Bool': 'bool', 'void': None}.get(rt)
            return self.fresh_result(c, st)
        cs = st.fork()
        cs.pc = st.pc
        cs.vars = dict(bound)
        ghost = {}
        saved_frame_ghost = getattr(self.frame, 'ghost', {})
        self.frame.ghost = ghost
        try:
            for g, text in c.bind.items():
                ghost[g] = self.eval_spec(text, cs)
                for d_ in (getattr(ghost[g], 'defs', None) or ()):
                    st.assume(d_)          # names of the callee's specification context (fresh per evaluation)
            for n_, r in enumerate(c.requires):
                self.oblige('requires', self.eval_spec(r, cs), st, node,
                            'precondition of %s: %s' % (c.name, r), detail='%s.%d+%d' % (
                                c.name.split('::')[-1].split('.')[-1], n_,
                                (getattr(node, 'lineno', 0) or 0) - (self.frame.finfo.lineno or 0)))
            pre = State()
            pre.vars = dict(bound)
            pre.heap = dict(st.heap)
            # havoc what the callee may assign
            for a in c.assigns:
                self.havoc_assigned(a, bound, st)
                v_ = bound.get(a.split('.')[0])
                if isinstance(v_, (Ref, Ptr)) and getattr(v_, 'oid', None) is not None and hasattr(self, 'omp_log'):
                    self.omp_log(v_.oid, None, 'w', st, node)
            # out parameters that receive freshly allocated blocks
            for pn, d in (getattr(c, 'allocates', None) or {}).items():
                cell = bound.get(pn)
                if isinstance(cell, Ptr) and cell.oid is not None:
                    if isinstance(d, tuple) and len(d) == 2 and isinstance(d[1], str) and d[0] != 'ptr':
                        # conditional allocation: (descriptor, condition over the callee's pre-state)
                        cond = truth(self.eval_spec(d[1], cs))
                        if self.decide(cond, st, node, tag='alloc'):
                            newp = self.make_value(d[0], '%s_new' % pn, st)
                        else:
                            newp = Ptr(None, 0)
                    else:
                        newp = self.make_value(d, '%s_new' % pn, st)
                    box = st.heap[cell.oid].clone()
                    box.items = [newp]
                    st.heap[cell.oid] = box
            if c.returns is None and c.lang == 'c' and finfo is not None:
                rt = (getattr(finfo.node, 'rettype', '') or '').strip()
                c.returns = {'seq_t': 'val', 'double': 'val', 'idx_t': 'int', 'int': 'int', 'bool': 'bool',
                             '_Bool': 'bool', 'void': None}.get(rt)
            result = self.fresh_result(c, st)
            if result is None and any(re_result.search(t_) for t_ in c.ensures):
                # without a result shape every clause about `result` would evaluate to False and be *assumed* -- possibly under a
                # quantifier, where the literal-False guard below does not see it -- making the caller's proof vacuous
                raise CannotBind('callee %s is used by contract in %s but its contract declares no `returns` shape although its '
                                 'postcondition speaks about `result`' % (c.name, self.fname))
            cs2 = st.fork()
            cs2.pc = st.pc
            cs2.vars = dict(bound)
            for text in c.ensures:
                e = self.eval_spec(text, cs2, env={'result': result, '__exc__': None}, old_state=pre)
                if e is False:
                    raise CannotBind('postcondition %r of callee %s is literally false at the call in %s '
                                     '(ill-typed contract, e.g. missing `returns`)' % (text, c.name, self.fname))
                st.assume(zbool(e))
            # heap objects created by fresh_result live in st.heap already
            if self.lang == 'c':
                self.sync_boxes(st)
            return result
        finally:
            self.frame.ghost = saved_frame_ghost

    def havoc_assigned(self, a, bound, st):
        base, _, field = a.partition('.')
        v = bound.get(base)
        if not isinstance(v, (Ref, Ptr)) or v.oid is None:
            return
        obj = st.heap[v.oid]
        if isinstance(obj, RecObj):
            o2 = obj.clone()
            for f in ([field] if field else list(o2.fields)):
                o2.fields[f] = self.havoc_value(o2.fields[f], '%s.%s' % (base, f), st)
            st.heap[v.oid] = o2
        elif obj.pykind == 'cbox':
            o2 = obj.clone()
            o2.items = [self.havoc_value(o2.items[0], base + '_cell', st)]
            st.heap[v.oid] = o2
        else:
            self.cur_state = st
            st.heap[v.oid] = self.havoc_obj(obj, v.oid)

    def fresh_result(self, c, st):
        r = self.make_value(c.returns, 'ret_' + c.name.split('::')[-1].split('.')[-1], st)
        if c.lang == 'c' and c.returns == 'int':
            st.assume(z3.And(r >= -2 ** 63, r <= 2 ** 63 - 1))     # a C idx_t value
        return r

    def make_value(self, desc, name, st):
        """Fresh symbolic value of a type descriptor (see Program.build_param)."""
        return self.program.make_value(self, desc, name, st, origin='local')

    def call_assigned_names(self, call, st):
        """Names whose objects a call inside a loop may write (from callee `assigns`)."""
        f = call.func
        name = None
        if isinstance(f, ast.Name):
            try:
                g = self.lookup_global(f.id)
            except Unsupported:
                g = NotImplemented
            if isinstance(g, FuncV):
                name = g.name
        out = []
        c = CONTRACTS.get(name) if name else None
        if c is not None and c.assigns:
            finfo = self.program.function(name)
            pnames = [p.arg for p in finfo.node.args.args] if finfo else list(c.params)
            for a in c.assigns:
                base = a.split('.')[0]
                if base in pnames:
                    i = pnames.index(base)
                    if i < len(call.args):
                        arg = call.args[i]
                        while isinstance(arg, (ast.Subscript,)):
                            arg = arg.value
                        if isinstance(arg, ast.Name):
                            out.append(arg.id)
                        elif hasattr(arg, 'value') and isinstance(getattr(arg, 'value'), ast.Name):
                            out.append(arg.value.id)
        return out

    def construct(self, cls, args, kwargs, node, st):
        """Class instantiation: a fresh record, then the real __init__ is executed inline."""
        init = self.find_method(cls, '__init__')
        oid = st.new_oid('R')
        st.heap[oid] = RecObj(cls, {})
        ref = Ref(oid)
        if init is not None:
            self.call_repo(init, [ref] + list(args), kwargs, node, st)
        return ref

    # hooks overridden / extended by library models
    def rec_getitem(self, obj, base, idx, node, st):
        return NotImplemented

    def rec_len(self, obj, base, st, node):
        return NotImplemented

    def rec_iter(self, obj, base, st, node):
        return NotImplemented

    def call_lib(self, name, args, kwargs, node, st):
        from . import libmodels
        h = libmodels.LIB.get(name)
        if h is None:
            raise Unsupported('library function %s has no assumed contract (A3)' % name)
        self.notes.add('assumed library contract: ' + name)
        return h(self, args, kwargs, node, st)

    def np_fancy_store(self, base, idx, v, st, node, transposed=False):
        from . import libmodels
        return libmodels.np_fancy_store(self, base, idx, v, st, node, transposed)

    def store_slice(self, base, t, v, st, node):
        from . import libmodels
        return libmodels.np_slice_store(self, base, t, v, st, node)
