"""Generate and discharge the obligations of a set of contracted functions."""
import copy
import time
import z3
from .executor import Exec
from .state import State, Obligation, Unsupported, CannotBind, PathEnd
from .contracts import CONTRACTS, SPECS, LEMMAS, THEORIES
from .vals import order_axioms, arith_axioms
from . import solve


class FuncReport:
    def __init__(self, name):
        self.name = name
        self.obligations = []
        self.paths = 0
        self.notes = set()
        self.cases = []
        self.error = None
        self.vacuous = []
        self.covers = {}
        self.trivial = 0
        self.lines_hit = set()
        self.lines_all = set()


def contract_axioms(c):
    from .vals import trigger_axioms
    ax = list(trigger_axioms()) + THEORIES['mention']()
    if c.order_axioms:
        ax += order_axioms()
    if c.arith_axioms:
        ax += arith_axioms()
    for t in c.theories:
        ax += THEORIES[t]()
    for l in c.lemmas:
        ax += LEMMAS[l].axioms()
    for a in c.extra_axioms:
        ax += a() if callable(a) else [a]
    return ax


def machine_ranges(program, finfo, args, st):
    """A2: C integer parameters and struct fields are values of their machine types; a buffer of
    n elements has a byte size <= PTRDIFF_MAX (n <= 2**60 for 8-byte elements)."""
    from .vals import Ptr, ArrObj, RecObj, is_z3, IntS
    ctypes = getattr(finfo.node, 'ctypes', {})

    def rng(v, t):
        t = t.replace('const ', '').strip()
        if not (is_z3(v) and v.sort() == IntS):
            return
        if t in ('int',):
            st.assume(z3.And(v >= -2 ** 31, v <= 2 ** 31 - 1))
        elif t in ('unsigned char', 'ba_t'):
            st.assume(z3.And(v >= 0, v <= 255))
        else:
            st.assume(z3.And(v >= -2 ** 63, v <= 2 ** 63 - 1))
    for n, v in args.items():
        t = ctypes.get(n, 'idx_t')
        if isinstance(v, Ptr) and v.oid is not None:
            o = st.heap[v.oid]
            if isinstance(o, ArrObj) and is_z3(o.length):
                st.assume(o.length <= 2 ** 60)
            if isinstance(o, RecObj):
                for f, ft in program.structs.get(o.cls, ()):
                    if f in o.fields:
                        rng(o.fields[f], ft)
        else:
            rng(v, t)


def generate(program, cname, mode='vc', only_case=None):
    """Symbolically execute the function bound to contract `cname`; returns a FuncReport with
    every obligation (not yet discharged)."""
    c = CONTRACTS[cname]
    rep = FuncReport(cname)
    finfo = program.function(cname)
    if finfo is None:
        raise CannotBind('contract %s: function not found in /repo' % cname)
    cases = c.cases or [dict(label='')]
    if only_case is not None:
        cases = [cases[only_case]]
    axioms = contract_axioms(c)
    for case in cases:
        cc = copy.copy(c)
        cc.params = dict(c.params)
        cc.params.update(case.get('params', {}))
        cc.requires = list(c.requires) + list(case.get('requires', []))
        cc.ensures = list(c.ensures) + list(case.get('ensures', []))
        cc.bind = dict(c.bind or {})
        cc.bind.update(case.get('bind', {}))
        ex = Exec(program, mode)
        ex.case_label = case.get('label', '')

        def make_entry(ex, cc=cc):
            st = State()
            args = {}
            for n, d in cc.params.items():
                args[n] = program.make_value(ex, d, n, st, origin='param')
            if finfo.lang == 'c':
                machine_ranges(program, finfo, args, st)
            return st, args
        ex.explore(finfo, cc, make_entry)
        for ob in ex.obligations:
            ob.axioms = [] if ob.kind == 'hint-pure' else axioms
            if ex.case_label:
                ob.name = ob.name + '[%s]' % ex.case_label
        from . import omp
        races = omp.race_obligations(ex, cname, c.props)
        for ob in races:
            ob.axioms = axioms
            ob.case = ex.case_label
        ex.obligations += races
        rep.obligations += ex.obligations
        rep.paths += ex.paths
        rep.notes |= ex.notes
        rep.trivial += getattr(ex, 'trivial', 0)
        rep.covers.update(ex.covers)
        rep.lines_hit |= set(getattr(ex, 'stmt_lines', ()))
        import ast as _ast
        rep.lines_all |= set(getattr(n_, 'lineno', 0) for b_ in getattr(finfo.node, 'body', []) for n_ in _ast.walk(b_)
                             if isinstance(n_, _ast.stmt) and getattr(n_, 'lineno', 0))
        # vacuity: the precondition of this case must be satisfiable
        st, args = make_entry(ex)
        ex.frames = [__import__('dvc.executor', fromlist=['Frame']).Frame(finfo, cc)]
        st.vars = dict(args)
        st.old_vars = dict(args)
        st.old_heap = dict(st.heap)
        ex.frame.ghost = {}
        for g, text in cc.bind.items():
            ex.frame.ghost[g] = ex.eval_spec(text, st)
            for d in getattr(ex.frame.ghost[g], 'defs', ()):
                st.assume(d)
        s = z3.Solver()
        s.set('timeout', 5000)
        for f in st.pc:
            s.add(f)
        for r in cc.requires:
            s.add(ex.eval_spec(r, st))
        r = s.check()
        rep.cases.append((case.get('label', ''), str(r)))
        if r == z3.unsat:
            rep.vacuous.append(case.get('label', ''))
    for o in rep.obligations:
        o.cname = cname         # the contract (variant) the obligation was generated from; o.func is the real function
    return rep


def merge_names(obligations):
    """Several paths may emit an obligation with the same name; number the duplicates."""
    seen = {}
    for ob in obligations:
        n = seen.get(ob.name, 0)
        seen[ob.name] = n + 1
        if n:
            ob.name = '%s#%d' % (ob.name, n)
    return obligations


def verify(program, cnames, timeout_ms=10000, both=False, lemma_names=()):
    t0 = time.time()
    reports = []
    obligations = []
    for n in cnames:
        rep = generate(program, n)
        reports.append(rep)
        obligations += rep.obligations
    for ln in lemma_names:
        obligations += LEMMAS[ln].obligations()
    merge_names(obligations)
    results = solve.discharge(obligations, timeout_ms=timeout_ms, both=both)
    return reports, obligations, results, time.time() - t0


def frame_only(program, cname, params, assigns=(), requires=()):
    """Frame analysis of a function whose functional contract is not (yet) written: loops are cut
    with the trivial invariant, every other obligation is ignored, only `frame` (a store through a
    caller-owned object not listed in `assigns`) and `static-write` obligations are kept.  Sound for
    the frame because pointer targets survive havoc (only offsets and contents are forgotten)."""
    from .contracts import Contract
    finfo = program.function(cname)
    if finfo is None:
        raise CannotBind('function %s not found' % cname)
    c = Contract(cname + '#frame', params=params, requires=list(requires), ensures=[], assigns=list(assigns))
    c.lang = finfo.lang
    ex = Exec(program, 'vc')
    ex.auto_loops = True
    ex.frame_only = True
    ex.check_overflow = False

    def make_entry(ex):
        st = State()
        args = {n: program.make_value(ex, d, n, st, origin='param') for n, d in params.items()}
        return st, args
    ex.explore(finfo, c, make_entry)
    keep = [o for o in ex.obligations if o.kind in ('frame', 'static-write')]
    for o in keep:
        o.func = cname
        o.name = o.name.replace(cname + '#frame', cname)
    return keep, dict(paths=ex.paths, stores_examined=getattr(ex, 'stores_seen', 0), notes=sorted(ex.notes))


# ------------------------------------------------------------------ parallel generation
class ObText:
    """An obligation reduced to what the rest of the pipeline needs (picklable)."""

    def __init__(self, ob):
        self.name = ob.name
        self.kind = ob.kind
        self.func = ob.func
        self.cname = getattr(ob, 'cname', ob.func)
        self.line = ob.line
        self.props = ob.props
        self.note = ob.note
        self.case = ob.case
        self.smt2 = solve.to_smt2(ob.hyps, ob.goal, ob.axioms)
        self.hyps = None
        self.goal = None
        self.axioms = None


_PROGRAM = None


def _gen_job(job):
    cname, case_idx = job
    try:
        rep = generate(_PROGRAM, cname, only_case=case_idx)
        merge_names(rep.obligations)
        c = CONTRACTS[cname]
        ax = contract_axioms(c)
        vac = []
        step = max(1, len(rep.obligations) // 8)
        for o in rep.obligations[::step]:
            vac.append(ObText(Obligation('vacuity::hyps-of::' + o.name, 'vacuity', o.hyps, z3.BoolVal(False), cname, axioms=ax)))
        return dict(ok=True, name=cname, case_idx=case_idx, paths=rep.paths, notes=sorted(rep.notes), cases=rep.cases,
                    vacuous=rep.vacuous, covers=len(rep.covers), trivial=rep.trivial,
                    lines_hit=sorted(rep.lines_hit), lines_all=sorted(rep.lines_all),
                    obligations=[ObText(o) for o in rep.obligations], vacuity=vac)
    except (Unsupported, CannotBind) as e:
        return dict(ok=False, name=cname, case_idx=case_idx, error='%s: %s' % (type(e).__name__, e))


def generate_parallel(program, cnames, procs=16, bind_errors=None):
    """One job per (function, contract case); returns FuncReports whose obligations are ObText."""
    import multiprocessing as mp
    global _PROGRAM
    _PROGRAM = program
    jobs = []
    for n in cnames:
        c = CONTRACTS[n]
        if program.function(n) is None:
            raise CannotBind('contract %s: function not found in /repo' % n)
        for k in range(len(c.cases or [1])):
            jobs.append((n, k))
    if len(jobs) <= 1 or procs == 1:
        outs = [_gen_job(j) for j in jobs]
    else:
        pool = mp.get_context('fork').Pool(min(procs, len(jobs)))
        try:
            outs = pool.map(_gen_job, jobs, chunksize=1)
        finally:
            pool.close()
            pool.join()
    reports = {}
    vac = []
    failed = {}
    for o in outs:
        if not o['ok']:
            if bind_errors is None:
                raise CannotBind(o['error'])
            # a contract that does not fit the (changed) code: that function is not verified, the rest of the check goes on
            # (other functions, run-time sweep, bounded sweeps); the check cannot exit 0 (check.py: run.errors)
            failed[o.get('name') or '?'] = o['error']
            continue
        rep = reports.get(o['name'])
        if rep is None:
            rep = reports[o['name']] = FuncReport(o['name'])
        rep.obligations += o['obligations']
        rep.paths += o['paths']
        rep.notes |= set(o['notes'])
        rep.cases += o['cases']
        rep.vacuous += o['vacuous']
        rep.trivial += o['trivial']
        rep.lines_hit |= set(o.get('lines_hit', ()))
        rep.lines_all |= set(o.get('lines_all', ()))
        rep.covers['branches@%d' % o['case_idx']] = o['covers']
        vac += o['vacuity']
    if bind_errors is not None:
        bind_errors.update(failed)
        for n in failed:
            reports.pop(n, None)
    return [reports[n] for n in cnames if n in reports], vac
