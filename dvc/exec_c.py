"""C-specific execution: pointers into heap blocks, declarations, casts, ++/--, assignment
expressions.  Integers are mathematical with an overflow obligation per operation (A2)."""
import ast
import z3
from .vals import *
from .ops import *
from .state import Unsupported, PathEnd, fresh
from . import cnodes

INT_TYPES = {'idx_t', 'int', 'long', 'ssize_t', 'size_t', 'unsigned int', 'unsigned long', 'ba_t',
             'unsigned char', 'char', 'long long', 'Py_ssize_t', 'uint8_t', 'intptr_t'}
FLOAT_TYPES = {'seq_t', 'double', 'float'}


def base_ctype(t):
    t = t.replace('const ', '').replace('volatile ', '').strip()
    return t


def is_ptr_type(t):
    return t.strip().endswith('*')


class CMixin:

    def ctype_of(self, name):
        return getattr(self.frame, 'ctypes', {}).get(name)

    def coerce_to_ctype(self, ctype, v, st, node):
        if ctype is None:
            return v
        t = base_ctype(ctype)
        if is_ptr_type(t):
            if (is_cint(v) and v == 0) or v is None:
                return Ptr(None, 0)
            if isinstance(v, Ptr) and v.oid is not None:
                obj = st.heap[v.oid]
                if isinstance(obj, ArrObj) and obj.kind == 'raw':
                    # malloc'ed block receives its element type from the cast / declaration
                    elem = t[:-1].strip()
                    if elem in FLOAT_TYPES:
                        kind, size = 'val', 8
                    elif elem in ('idx_t', 'long', 'ssize_t', 'size_t', 'Py_ssize_t'):
                        kind, size = 'int', 8
                    elif elem == 'int':
                        kind, size = 'int', 4
                    elif elem in ('ba_t', 'unsigned char', 'char'):
                        kind, size = 'int', 1
                    elif elem == 'void':
                        return v
                    else:
                        raise Unsupported('malloc of element type %s' % elem)
                    nb = obj.length
                    if is_cint(nb):
                        n = nb // size
                    else:
                        n = z3.simplify(zint(nb) / size)
                    o2 = obj.clone(kind=kind, length=n)
                    o2.arr = fresh('heap_' + v.oid, z3.ArraySort(IntS, kind_sort(kind)))
                    if self.mode == 'run' and is_cint(n):
                        o2.items = [Uninit('heap')] * max(0, n)
                    st.heap[v.oid] = o2
            return v
        if t in FLOAT_TYPES:
            if isinstance(v, Ptr):
                raise Unsupported('pointer to float conversion')
            if isinstance(v, bool) or is_bool(v):
                v = zint(v) if is_z3(v) else int(v)
            if concrete(v):
                return float(v)
            return vlit(v)
        if t in INT_TYPES:
            if is_val(v):
                # double -> integer conversion: UB when out of range; modelled as an
                # uninterpreted truncation with an obligation-free fresh value is unsound, so:
                return self.c_float_to_int(v, t, st, node)
            if is_bool(v):
                return zint(v) if is_z3(v) else int(v)
            if t in ('int',) and not is_cint(v) and self.check_overflow and not self.spec_mode:
                self.oblige('overflow', z3.And(zint(v) >= -2 ** 31, zint(v) <= 2 ** 31 - 1), st, node,
                            'value fits int')
            return v
        if t in ('bool', '_Bool'):
            return truth(v)
        return v

    def c_float_to_int(self, v, t, st, node):
        if isinstance(v, float):
            if v != v or abs(v) >= 2 ** 31:
                self.oblige('float-to-int', False, st, node, 'double to %s conversion out of range (UB)' % t)
                raise PathEnd()
            return int(v)
        trunc = z3.Function('c_trunc', Val, IntS)
        self.oblige('float-to-int', False, st, node,
                    'double value converted to %s: range not provable for an abstract double (UB if out of range)' % t)
        return trunc(v)

    def coerce_local(self, name, v, st, node):
        if self.lang != 'c':
            return v
        return self.coerce_to_ctype(self.ctype_of(name), v, st, node)

    def coerce_field(self, obj, attr, v, st, node):
        if self.lang != 'c':
            return v
        ft = self.program.struct_field_type(obj.cls, attr)
        return self.coerce_to_ctype(ft, v, st, node)

    # ------------------------------------------------------------------ statements
    def ex_CDecl(self, node, st):
        self.frame.ctypes[node.name] = node.ctype
        t = base_ctype(node.ctype)
        if node.init is not None:
            if isinstance(node.init, cnodes.CInitList):
                st.vars[node.name] = self.struct_value(t, node.init, st, node)
                return
            v = self.ev(node.init, st)
            st.vars[node.name] = self.coerce_to_ctype(node.ctype, v, st, node)
        else:
            if t in self.program.structs:
                st.vars[node.name] = self.struct_value(t, None, st, node)
            else:
                st.vars[node.name] = Uninit(node.name)

    def struct_value(self, t, init, st, node):
        """A struct local is a heap record accessed by value; `&x` yields a pointer to it."""
        fields = {}
        sdef = self.program.structs[t]
        for fname, ftype in sdef:
            fields[fname] = Uninit(fname)
        if init is not None:
            names = init.fields or [f for f, _ in sdef]
            for fname, e in zip(names, init.values):
                fields[fname] = self.coerce_to_ctype(dict(sdef)[fname], self.ev(e, st), st, node)
        oid = st.new_oid('S')
        st.heap[oid] = RecObj(t, fields)
        return Ref(oid)

    def ev_Name(self, node, st):
        v = ExprFallback.ev_Name(self, node, st)
        if isinstance(v, Uninit) and not self.spec_mode:
            self.oblige('uninit', False, st, node, 'read of uninitialised variable %s' % v.name)
            raise PathEnd()
        return v

    def ex_COmpFor(self, node, st):
        """Sequential semantics for the functional contract; access logging for the data-race
        freedom obligations of dvc/omp.py (C07)."""
        from .exec_stmt import Modified
        if self.mode != 'vc':
            self.exec_stmt(node.loop, st)
            return
        loop = node.loop
        m = Modified()
        for s in loop.body:
            m.visit(s)
        declared = set()
        for sub_ in ast.walk(ast.Module(body=loop.body, type_ignores=[])):
            if isinstance(sub_, cnodes.CDecl):
                declared.add(sub_.name)
        loopvars = set()
        for s in loop.step + loop.init:
            mm = Modified()
            mm.visit(s)
            loopvars |= mm.names
        priv = set(node.privates) | declared | loopvars
        for nme in sorted(m.names):
            self.oblige('omp-private', nme in priv, st, node,
                        'scalar %s assigned in the parallel loop body is private or declared inside' % nme,
                        detail='%s' % nme)
            if nme not in priv:
                self.last_false = None
        for (nme, attr) in sorted(m.attrs):
            self.oblige('omp-shared-write', False, st, node, 'shared struct field %s.%s assigned inside the parallel loop' % (nme, attr),
                        detail='%s.%s' % (nme, attr))
        for nme in sorted(m.derefs):
            self.oblige('omp-shared-write', False, st, node, 'shared cell *%s assigned inside the parallel loop' % nme, detail='*' + nme)
        self.omp_ctx = dict(loop=loop, mark=None, loopvar=None, log=[], heap0=None,
                            varname=sorted(loopvars)[0] if loopvars else None)
        try:
            self.exec_stmt(loop, st)
        finally:
            # paths that end inside the body are flushed by Exec.explore; a path that leaves the
            # loop normally stops logging here
            self.omp_flush(st)
            self.omp_ctx = None

    def omp_flush(self, st):
        ctx = getattr(self, 'omp_ctx', None)
        if not ctx or ctx['mark'] is None or not ctx['log']:
            return
        if not hasattr(self, 'omp_paths'):
            self.omp_paths = []
        self.omp_paths.append(dict(pc=list(st.pc), mark=ctx['mark'], loopvar=ctx['loopvar'], log=list(ctx['log'])))
        ctx['log'] = []

    def omp_log(self, oid, pos, kind, st, node):
        ctx = getattr(self, 'omp_ctx', None)
        if not ctx or ctx['mark'] is None or self.spec_mode:
            return
        if oid not in ctx['heap0']:
            return          # allocated inside the iteration
        if isinstance(st.heap.get(oid), ArrObj) and st.heap[oid].pykind == 'cbox':
            return
        p = pos if is_z3(pos) or pos is None else z3.IntVal(pos)
        ctx['log'].append((oid, p, kind, len(st.pc), getattr(node, 'lineno', 0)))

    # ------------------------------------------------------------------ expressions
    def ev_CCast(self, node, st):
        v = self.ev(node.value, st)
        return self.coerce_to_ctype(node.ctype, v, st, node)

    def ev_CSizeof(self, node, st):
        t = base_ctype(node.ctype)
        if is_ptr_type(t):
            return 8
        return {'seq_t': 8, 'double': 8, 'idx_t': 8, 'int': 4, 'ba_t': 1, 'unsigned char': 1, 'char': 1,
                'long': 8, 'size_t': 8, 'ssize_t': 8, 'float': 4}.get(t) or self.unsupported('sizeof(%s)' % t)

    def unsupported(self, what):
        raise Unsupported(what)

    def ev_CStmtExpr(self, node, st):
        self.exec_block(node.body, st)
        return None

    def ev_CSeq(self, node, st):
        v = None
        for e in node.exprs:
            v = self.ev(e, st)
        return v

    def ev_CAddr(self, node, st):
        t = node.value
        if isinstance(t, ast.Subscript):
            base = self.ev(t.value, st)
            idx = self.ev(t.slice, st)
            if isinstance(base, Ptr):
                return self.ptr_arith(ast.Add, base, idx, node, st)
            raise Unsupported('& of subscript on non-pointer')
        if isinstance(t, ast.Name):
            v = st.vars.get(t.id)
            if isinstance(v, Ref) and isinstance(st.heap[v.oid], RecObj):
                return Ptr(v.oid, 0)
            if isinstance(v, Ptr) and v.oid is not None and isinstance(st.heap.get(v.oid), RecObj) \
                    and '*' not in (self.frame.ctypes.get(t.id) or '*'):
                # a struct local initialised from a by-value result (held as a pointer to its record): &p is that record
                return Ptr(v.oid, 0)
            # address of a scalar / pointer local: box it
            box = getattr(self.frame, 'boxes', None)
            if box is None:
                box = self.frame.boxes = {}
            if t.id not in box:
                oid = st.new_oid('B')
                st.heap[oid] = ArrObj('any', items=[v], length=1, pykind='cbox', name=t.id)
                box[t.id] = oid
            else:
                o = st.heap[box[t.id]].clone()
                o.items[0] = st.vars.get(t.id)
                st.heap[box[t.id]] = o
            return Ptr(box[t.id], 0)
        if isinstance(t, ast.Attribute):
            raise Unsupported('& of struct field')
        raise Unsupported('& of expression')

    def sync_boxes(self, st):
        """After a call that may write through &local, copy boxed values back to the locals."""
        box = getattr(self.frame, 'boxes', None)
        if not box:
            return
        for name, oid in box.items():
            st.vars[name] = st.heap[oid].items[0]

    def ev_CDeref(self, node, st):
        p = self.ev(node.value, st)
        return self.ptr_read(p, 0, node, st)

    def ev_CIncDec(self, node, st):
        cur = self.ev(self.as_load(node.target), st)
        new = self.binop(ast.Add, cur, node.delta, node, st)
        self.assign(node.target, new, st, node)
        return new if node.prefix else cur

    def ev_CAssignExpr(self, node, st):
        v = self.ev(node.value, st)
        if node.op is not None:
            cur = self.ev(self.as_load(node.target), st)
            v = self.binop(node.op, cur, v, node, st)
        self.assign(node.target, v, st, node)
        t = node.target
        if isinstance(t, ast.Name):
            return st.vars[t.id]
        return v

    # ------------------------------------------------------------------ pointers
    def ptr_block(self, p, node, st):
        if not isinstance(p, Ptr):
            raise Unsupported('dereference of non-pointer %r' % type(p))
        if p.oid is None:
            self.oblige('null-deref', False, st, node, 'NULL dereference')
            raise PathEnd()
        return st.heap[p.oid]

    def ptr_read(self, p, idx, node, st):
        obj = self.ptr_block(p, node, st)
        if isinstance(obj, RecObj):
            return Ref(p.oid)
        pos = self.binop_nooverflow(p.off, idx)
        self.omp_log(p.oid, pos, 'r', st, node)
        if getattr(obj, 'freed', False):
            self.oblige('use-after-free', False, st, node, 'read of freed block')
        if obj.pykind == 'cbox':
            return obj.items[0]
        if obj.items is not None and is_cint(pos):
            if not (0 <= pos < len(obj.items)):
                self.oblige('bounds', False, st, node, 'read at %d outside block of %d' % (pos, len(obj.items)))
                raise PathEnd()
            return obj.items[pos]
        self.oblige('bounds', z3.And(zint(pos) >= 0, zint(pos) < zint(obj.length)), st, node,
                    'read inside %s' % (obj.name or 'block'))
        if obj.kind == 'rows':
            return Ptr(self.row_ref(obj, pos, st).oid, 0)
        if obj.items is not None:
            return self.pick(obj.items, pos)
        return z3.Select(obj.arr, zint(pos))

    def binop_nooverflow(self, a, b):
        if is_cint(a) and is_cint(b):
            return a + b
        if is_cint(a) and a == 0:
            return b
        if is_cint(b) and b == 0:
            return a
        return zint(a) + zint(b)

    def ptr_write(self, p, idx, v, node, st):
        obj = self.ptr_block(p, node, st)
        if isinstance(obj, RecObj):
            raise Unsupported('struct assignment through pointer')
        pos = self.binop_nooverflow(p.off, idx)
        self.omp_log(p.oid, pos, 'w', st, node)
        if getattr(obj, 'freed', False):
            self.oblige('use-after-free', False, st, node, 'write to freed block')
        self.frame_write(obj, None, st, node)
        if obj.pykind == 'cbox':
            o2 = obj.clone()
            if v is None:
                v = Ptr(None, 0)
            o2.items[0] = v
            st.heap[p.oid] = o2
            return
        v = self.elem_coerce(obj, v, node, st) if obj.kind in ('val', 'int', 'bool') else v
        if obj.items is not None and is_cint(pos):
            if not (0 <= pos < len(obj.items)):
                self.oblige('bounds', False, st, node, 'write at %d outside block of %d' % (pos, len(obj.items)))
                raise PathEnd()
            o2 = obj.clone()
            o2.items[pos] = v
            st.heap[p.oid] = o2
            return
        self.oblige('bounds', z3.And(zint(pos) >= 0, zint(pos) < zint(obj.length)), st, node,
                    'write inside %s' % (obj.name or 'block'))
        if obj.items is not None:
            o2 = obj.clone()
            o2.items = [ite(zint(pos) == q, v, x) for q, x in enumerate(obj.items)]
            st.heap[p.oid] = o2
            return
        st.heap[p.oid] = obj.clone(arr=z3.Store(obj.arr, zint(pos), v))

    def ptr_arith(self, op, a, b, node, st):
        if isinstance(b, Ptr) and not isinstance(a, Ptr):
            a, b = b, a
        if isinstance(b, Ptr):
            if op is ast.Sub and a.oid == b.oid:
                return self.binop(ast.Sub, a.off, b.off, node, st)
            raise Unsupported('pointer-pointer arithmetic')
        if op is ast.Add:
            return Ptr(a.oid, self.binop_nooverflow(a.off, b))
        if op is ast.Sub:
            return Ptr(a.oid, self.binop_nooverflow(a.off, num_neg(b)))
        raise Unsupported('pointer operator')

    def ptr_compare(self, op, a, b):
        an = a.oid is None if isinstance(a, Ptr) else (a is None or (is_cint(a) and a == 0))
        bn = b.oid is None if isinstance(b, Ptr) else (b is None or (is_cint(b) and b == 0))
        if not isinstance(a, Ptr) or not isinstance(b, Ptr):
            # comparison with NULL / 0
            if op == '==':
                return an and bn
            if op == '!=':
                return not (an and bn)
        if op in ('==', '!='):
            if a.oid != b.oid:
                return op == '!='
            return compare(op, a.off, b.off)
        raise Unsupported('pointer ordering')


from .exec_expr import ExprMixin as ExprFallback
