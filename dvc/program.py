"""Program model: the real source files of /repo, re-read on every run.

Python modules are parsed with `ast` (the verified text *is* the file's AST); C translation units
are read through clang's JSON AST by cfront.py.  Nothing here is hand-written about the code."""
import ast
import os
import z3
from .vals import *
from .state import Unsupported, fresh
from .contracts import INPUT_BUILDERS

REPO = os.environ.get('DVC_REPO', '/repo')
PKG = 'src/dtaidistance'
CDIR = 'src/DTAIDistanceC/DTAIDistanceC'

BUILTINS = {'len', 'min', 'max', 'abs', 'int', 'float', 'range', 'tuple', 'list', 'print', 'str',
            'tqdm', 'divmod'}


class FuncInfo:
    def __init__(self, qname, node, lang, module, cls=None):
        self.qname = qname
        self.node = node
        self.lang = lang
        self.module = module
        self.cls = cls
        self.lineno = getattr(node, 'lineno', 0)


class ModInfo:
    def __init__(self, name, path):
        self.name = name
        self.path = path
        self.src = open(path).read()
        self.tree = ast.parse(self.src)
        self.functions = {}
        self.classes = {}
        self.imports = {}
        self.consts = {}
        self.scan(self.tree.body)

    def scan(self, body):
        for s in body:
            if isinstance(s, ast.FunctionDef):
                self.functions[s.name] = FuncInfo('%s.%s' % (self.name, s.name), s, 'py', self)
            elif isinstance(s, ast.ClassDef):
                methods = {}
                attrs = {}
                for m in s.body:
                    if isinstance(m, ast.FunctionDef):
                        methods[m.name] = FuncInfo('%s.%s.%s' % (self.name, s.name, m.name), m, 'py', self, cls=s.name)
                        m._static = any(isinstance(d, ast.Name) and d.id == 'staticmethod' for d in m.decorator_list)
                    elif isinstance(m, ast.Assign) and len(m.targets) == 1 and isinstance(m.targets[0], ast.Name):
                        attrs[m.targets[0].id] = m.value
                self.classes[s.name] = (methods, attrs, [ast.unparse(b) for b in s.bases])
            elif isinstance(s, ast.Import):
                for a in s.names:
                    self.imports[(a.asname or a.name).split('.')[0]] = ('ext', a.name)
            elif isinstance(s, ast.ImportFrom):
                for a in s.names:
                    if s.level >= 1:
                        base = self.name.rsplit('.', 1)[0] + '.' if ('.' in self.name) else ''
                        if s.level >= 2:
                            base = ''
                        if s.module is None:
                            self.imports[a.asname or a.name] = ('repo', base + a.name)
                        else:
                            self.imports[a.asname or a.name] = ('repoattr', base + s.module, a.name)
                    else:
                        self.imports[a.asname or a.name] = ('extattr', s.module, a.name)
            elif isinstance(s, ast.Assign) and len(s.targets) == 1 and isinstance(s.targets[0], ast.Name):
                self.consts[s.targets[0].id] = s.value
            elif isinstance(s, ast.Try):
                self.scan(s.body)
            elif isinstance(s, ast.If):
                pass


class Program:
    def __init__(self, repo=None):
        self.repo = repo or REPO
        self.modules = {}
        self.cfiles = {}
        self.structs = {}
        self.cfuncs = {}
        self.files_read = set()

    # ------------------------------------------------------------------ Python side
    def native_root(self):
        """stand-in for /repo in native runs: current Python sources + the extension built from the current C sources"""
        from . import extbuild
        return extbuild.native_root(self.repo)

    def module(self, name):
        if name in self.modules:
            return self.modules[name]
        rel = name.replace('.', '/')
        for cand in (os.path.join(self.repo, PKG, rel + '.py'),
                     os.path.join(self.repo, PKG, rel, '__init__.py')):
            if os.path.exists(cand):
                m = ModInfo(name, cand)
                self.modules[name] = m
                self.files_read.add(os.path.relpath(cand, self.repo))
                return m
        return None

    def function(self, qname):
        qname = qname.split('#')[0]
        if '::' in qname:
            return self.cfunction(qname)
        parts = qname.split('.')
        for cut in range(len(parts) - 1, 0, -1):
            m = self.module('.'.join(parts[:cut]))
            if m is None:
                continue
            rest = parts[cut:]
            if len(rest) == 1:
                return m.functions.get(rest[0])
            if len(rest) == 2 and rest[0] in m.classes:
                return m.classes[rest[0]][0].get(rest[1])
        return None

    def find_method(self, cls, attr):
        """cls is 'module.Class'"""
        mod, _, cname = cls.rpartition('.')
        m = self.module(mod)
        if m is None or cname not in m.classes:
            return None
        methods, attrs, bases = m.classes[cname]
        if attr in methods:
            return '%s.%s.%s' % (mod, cname, attr)
        for b in bases:
            if b in m.classes:
                r = self.find_method('%s.%s' % (mod, b), attr)
                if r:
                    return r
        return None

    def class_attr(self, cls, attr, ex):
        mod, _, cname = cls.rpartition('.')
        m = self.module(mod)
        if m and cname in m.classes and attr in m.classes[cname][1]:
            v = self.const_value(m.classes[cname][1][attr])
            if v is not NotImplemented and 'Enum' in m.classes[cname][2]:
                from .vals import EnumMember
                return EnumMember(cls, attr, v)
            return v
        return NotImplemented

    def const_value(self, node):
        if isinstance(node, ast.Constant):
            return node.value
        if isinstance(node, ast.Call) and isinstance(node.func, ast.Name) and node.func.id == 'float' \
                and len(node.args) == 1 and isinstance(node.args[0], ast.Constant):
            return float(node.args[0].value)
        if isinstance(node, ast.UnaryOp) and isinstance(node.op, ast.USub):
            v = self.const_value(node.operand)
            if v is not NotImplemented:
                return -v
        return NotImplemented

    SPECIAL = {
        'array_min': FuncV('builtin.seq_min'), 'array_max': FuncV('builtin.seq_max'),
        'argmin': FuncV('lib.argmin'), 'argmax': FuncV('lib.argmax'),
        'np': ModuleV('np'), 'DTYPE': 'float64', 'logger': ModuleV('logger'),
    }

    def lookup_global(self, finfo, n, ex):
        if finfo.lang == 'c':
            return self.c_global(finfo, n, ex)
        m = finfo.module
        if n in m.functions:
            return FuncV(m.functions[n].qname)
        if n in m.classes:
            return FuncV('class.%s.%s' % (m.name, n))
        if n in self.SPECIAL:
            return self.SPECIAL[n]
        if n in m.imports:
            return self.import_value(m.imports[n])
        if n in m.consts:
            v = self.const_value(m.consts[n])
            if v is not NotImplemented:
                return v
            c = m.consts[n]
            if isinstance(c, ast.Name) and c.id == 'None':
                return None
            if isinstance(c, ast.Constant):
                return c.value
            if isinstance(c, ast.Attribute) or isinstance(c, ast.Name):
                # alias such as `default = ...` handled above; module aliases:
                pass
        if n in BUILTINS:
            return FuncV('builtin.' + n)
        if n == 'inf':
            return float('inf')
        if n in ('Exception', 'ValueError', 'AttributeError', 'IndexError', 'TypeError'):
            return FuncV('builtin.exc_' + n)
        return NotImplemented

    def import_value(self, imp):
        if imp[0] == 'ext':
            return ModuleV({'numpy': 'np'}.get(imp[1], imp[1]))
        if imp[0] == 'repo':
            return ModuleV('repo:' + imp[1])
        if imp[0] == 'repoattr':
            m = self.module(imp[1])
            if m is None:
                return ModuleV('repo:' + imp[1] + '.' + imp[2])
            if imp[2] in m.functions:
                return FuncV(m.functions[imp[2]].qname)
            if imp[2] in m.classes:
                return FuncV('class.%s.%s' % (m.name, imp[2]))
            if imp[2] in m.consts:
                return self.const_value(m.consts[imp[2]])
            return ModuleV('repo:' + imp[1] + '.' + imp[2])
        if imp[0] == 'extattr':
            if imp[1] == 'tqdm':
                return FuncV('builtin.tqdm')
            return FuncV('lib.%s.%s' % (imp[1], imp[2]))
        raise Unsupported('import %r' % (imp,))

    def module_attr(self, base, attr, ex):
        n = base.name
        if n.startswith('repo:'):
            m = self.module(n[5:])
            if m is None:
                # a compiled extension module (Cython): its functions exist only as assumed contracts
                from .contracts import CONTRACTS
                q = '%s.%s' % (n[5:], attr)
                if any(k == q or k.startswith(q + '#') for k in CONTRACTS):
                    return FuncV(q)
                raise Unsupported('repo module %s not found' % n)
            if attr in m.functions:
                return FuncV(m.functions[attr].qname)
            if attr in m.classes:
                return FuncV('class.%s.%s' % (m.name, attr))
            if attr in m.consts:
                v = self.const_value(m.consts[attr])
                if v is not NotImplemented:
                    return v
            if attr in m.imports:
                return self.import_value(m.imports[attr])
            if attr in self.SPECIAL:
                return self.SPECIAL[attr]
            raise Unsupported('%s.%s' % (n, attr))
        if n == 'logger':
            return FuncV('builtin.print')
        if n == 'np' and attr in ('Inf', 'inf'):
            return float('inf')
        if n == 'np' and attr in ('double', 'float64'):
            return 'float64'
        if n == 'math' and attr == 'inf':
            return float('inf')
        return FuncV('lib.%s.%s' % (n, attr))

    # ------------------------------------------------------------------ symbolic inputs
    def make_value(self, ex, desc, name, st, origin='param'):
        if desc is None or desc == 'none':
            return None
        if callable(desc):
            return desc(ex, name, st, origin)
        if isinstance(desc, tuple):
            if desc[0] == 'tuple':
                return tuple(self.make_value(ex, d, '%s_%d' % (name, i), st, origin) for i, d in enumerate(desc[1:]))
            if desc[0] == 'rec':
                oid = st.new_oid('R')
                fields = {f: self.make_value(ex, d, '%s.%s' % (name, f), st, origin) for f, d in desc[2].items()}
                st.heap[oid] = RecObj(desc[1], fields, origin=origin, name=name)
                return Ref(oid)
            if desc[0] == 'ptr':
                inner = self.make_value(ex, desc[1], name, st, origin)
                return Ptr(inner.oid, 0)
            if desc[0] == 'const':
                return desc[1]
            if desc[0] == 'funcref':
                # a function of /repo passed as a value (callback parameter): 'module.function'
                mod, _, fn = desc[1].rpartition('.')
                m = self.module(mod)
                if m is None or fn not in m.functions:
                    raise Unsupported('funcref %s: no such function in /repo' % desc[1])
                return FuncV(m.functions[fn].qname)
            if desc[0] == 'specfn':
                # an arbitrary callback, described by a specification function (uninterpreted results)
                return FuncV('spec.' + desc[1])
            if desc[0] == 'cstruct':
                sdef = self.structs.get(desc[1])
                if sdef is None:
                    raise Unsupported('unknown struct %s' % desc[1])
                fields = {}
                for f, t in sdef:
                    t = t.strip()
                    if t in ('bool', '_Bool'):
                        fields[f] = z3.Bool('%s.%s' % (name, f))
                    elif t in ('seq_t', 'double', 'float'):
                        fields[f] = z3.Const('%s.%s' % (name, f), Val)
                    else:
                        fields[f] = z3.Int('%s.%s' % (name, f))
                oid = st.new_oid('S')
                st.heap[oid] = RecObj(desc[1], fields, origin=origin, name=name)
                return Ptr(oid, 0)
        if isinstance(desc, dict):
            return {k: self.make_value(ex, d, '%s_%s' % (name, k), st, origin) for k, d in desc.items()}
        if isinstance(desc, str):
            if desc.startswith('opt:'):
                inner = self.make_value(ex, desc[4:], name, st, origin)
                return Opt(z3.Bool(name + '_isnone'), inner)
            if desc == 'int':
                return z3.Int(name)
            if desc == 'nat':
                v = z3.Int(name)
                st.assume(v >= 0)
                return v
            if desc == 'bool':
                return z3.Bool(name)
            if desc in ('val', 'val+'):     # 'val+': same symbolic value; the concrete candidates are positive (replay.small_values)
                return z3.Const(name, Val)
            if desc in ('series', 'arr:val', 'arr:int', 'arr:bool', 'list:int', 'list:val', 'array:val'):
                kind = {'series': 'val'}.get(desc, desc.split(':')[-1])
                pyk = {'series': 'array', 'list': 'list', 'arr': 'cblock', 'array': 'array'}[desc.split(':')[0]]
                n = z3.Int(name + '_len')
                st.assume(n >= 0)
                oid = st.new_oid('A')
                st.heap[oid] = ArrObj(kind, arr=z3.Array(name, IntS, kind_sort(kind)), length=n,
                                      origin=origin, name=name, pykind=pyk)
                return Ref(oid)
            if desc == 'list:ipair':
                n = z3.Int(name + '_len')
                st.assume(n >= 0)
                oid = st.new_oid('A')
                st.heap[oid] = ArrObj('ipair', arr=z3.Array(name, IntS, kind_sort('ipair')), length=n, origin=origin, name=name, pykind='list')
                return Ref(oid)
            if desc in ('cptr:val', 'cptr:int'):
                kind = desc.split(':')[1]
                n = z3.Int(name + '_size')
                st.assume(n >= 0)
                oid = st.new_oid('A')
                st.heap[oid] = ArrObj(kind, arr=z3.Array(name, IntS, kind_sort(kind)), length=n,
                                      origin=origin, name=name, pykind='cblock')
                return Ptr(oid, 0)
            if desc == 'series_nd':
                # multivariate series: r points of nd values each, stored row-major in one flat array;
                # s[i] is a view of nd consecutive values (what a 2-D NumPy array row is)
                n = z3.Int(name + '_len')
                nd = z3.Int(name + '_ndim')
                st.assume(z3.And(n >= 0, nd >= 1, nd <= 2 ** 10))
                oid = st.new_oid('A')
                o = ArrObj('rowsflat', arr=z3.Array(name, IntS, Val), length=n, origin=origin, name=name, pykind='ndarray')
                o.nd = nd
                st.heap[oid] = o
                return Ref(oid)
            if desc == 'idxarr':
                n = z3.Int(name + '_len')
                st.assume(n >= 0)
                oid = st.new_oid('A')
                st.heap[oid] = ArrObj('int', arr=z3.Array(name, IntS, IntS), length=n, origin=origin, name=name,
                                      pykind='ndarray', dtype=('sym', z3.Bool(name + '_intdtype')))
                return Ref(oid)
            if desc == 'series_collection':
                # a Python list / SeriesContainer of series: element k is a read-only series object
                cnt = z3.Int(name + '_len')
                st.assume(cnt >= 0)
                S = z3.Array(name, IntS, z3.ArraySort(IntS, Val))
                lenfn = z3.Function(name + '_rowlen', IntS, IntS)
                oid = st.new_oid('P')
                st.heap[oid] = ArrObj('rows', arr=(S, lenfn), length=cnt, origin=origin, name=name, pykind='list')
                return Ref(oid)
            if desc == 'cptrs':
                # seq_t **ptrs: an array of pointers to separate series blocks
                cnt = z3.Int(name + '_size')
                st.assume(cnt >= 0)
                S = z3.Array(name, IntS, z3.ArraySort(IntS, Val))
                lenfn = z3.Function(name + '_rowsize', IntS, IntS)
                oid = st.new_oid('P')
                st.heap[oid] = ArrObj('rows', arr=(S, lenfn), length=cnt, origin=origin, name=name, pykind='cblock')
                return Ptr(oid, 0)
            if desc in ('cbox:ptr', 'cbox:int'):
                # pointer to a caller-owned scalar / pointer cell (out parameter)
                oid = st.new_oid('B')
                init = Ptr(None, 0) if desc == 'cbox:ptr' else z3.Int(name + '_cell')
                st.heap[oid] = ArrObj('any', items=[init], length=1, origin=origin, name=name, pykind='cbox')
                return Ptr(oid, 0)
            if desc == 'cnull':
                return Ptr(None, 0)
            if desc in ('matrix', 'mat:val'):
                r, c = z3.Int(name + '_rows'), z3.Int(name + '_cols')
                st.assume(z3.And(r >= 0, c >= 0))
                oid = st.new_oid('M')
                st.heap[oid] = ArrObj('val', arr=z3.Const(name, arr2sort(Val)), shape=(r, c),
                                      origin=origin, name=name, pykind='ndarray')
                return Ref(oid)
            if desc in INPUT_BUILDERS:
                return INPUT_BUILDERS[desc](ex, name, st, origin)
        raise Unsupported('type descriptor %r' % (desc,))

    # ------------------------------------------------------------------ C side (filled by cfront)
    def cfunction(self, qname):
        from . import cfront
        f, _, fn = qname.partition('::')
        tu = cfront.load_tu(self, f)
        return tu.functions.get(fn)

    def c_global(self, finfo, n, ex):
        from . import cfront
        return cfront.c_global(self, finfo, n, ex)

    def struct_field_type(self, cls, attr):
        for f, t in self.structs.get(cls, ()):
            if f == attr:
                return t
        return None
