"""Sidecar contract registry and specification-function registry.

A contract is bound to a function of /repo by qualified name:
    Python:  "<module path below dtaidistance>.<qualname>"   e.g. "dtw._distance_matrix_length"
    C:       "<file>::<function>"                            e.g. "dd_dtw.c::dtw_distances_length"
Loops are bound by ordinal (pre-order position of the loop statement in the function body); the
loop header text is recorded in `head` and a mismatch is a binding error (exit 3), not a violation.
"""
import ast

CONTRACTS = {}
SPECS = {}
INPUT_BUILDERS = {}
THEORIES = {}


class Contract:
    def __init__(self, name, params=None, requires=(), ensures=(), loops=None, assigns=(),
                 props=(), inline=False, trusted=False, bind=None, lang=None, cases=None,
                 raises=(), pure=True, note='', order_axioms=False, arith_axioms=False,
                 extra_axioms=(), returns=None, ghost=None, replay=None, exc_ok=False, kinds=None,
                 lemmas=(), theories=(), hints=None, allocates=None, callee_views=None):
        self.name = name
        self.params = params or {}
        self.requires = list(requires)
        self.ensures = list(ensures)
        self.loops = loops or {}
        self.assigns = list(assigns)
        self.props = tuple(props)
        self.inline = inline
        self.trusted = trusted
        self.bind = bind or {}
        self.lang = lang or ('c' if '::' in name else 'py')
        self.cases = cases
        self.raises = tuple(raises)
        self.pure = pure
        self.note = note
        self.order_axioms = order_axioms
        self.arith_axioms = arith_axioms
        self.extra_axioms = tuple(extra_axioms)
        self.returns = returns
        self.ghost = ghost or {}
        self.replay = replay
        self.exc_ok = exc_ok
        self.kinds = kinds or {}
        self.lemmas = tuple(lemmas)
        self.theories = tuple(theories)
        self.hints = hints or {}
        self.allocates = allocates or {}
        self.callee_views = callee_views or {}


def contract(name, **kw):
    c = Contract(name, **kw)
    CONTRACTS[name] = c
    return c


class Spec:
    """A specification function: `z3` builds the term, `py` evaluates it on concrete values
    (used by replay), `axioms` are the defining axioms added to every obligation that mentions
    it (recursive definitions are z3 RecFunctions and need none)."""

    def __init__(self, name, z3=None, py=None, axioms=None, decl=None, doc=''):
        self.name = name
        self.z3 = z3
        self.py = py
        self.axioms = axioms
        self.decl = decl
        self.doc = doc


def spec(name, **kw):
    s = Spec(name, **kw)
    SPECS[name] = s
    return s


def input_builder(name):
    def deco(f):
        INPUT_BUILDERS[name] = f
        return f
    return deco


_parse_cache = {}


def parse_expr(text):
    e = _parse_cache.get(text)
    if e is None:
        e = ast.parse(text.strip(), mode='eval').body
        _parse_cache[text] = e
    return e


LEMMAS = {}


class Lemma:
    """A lemma over the spec functions: `axioms()` is what users may assume, `obligations()` is its
    machine-checked proof (z3 induction schema) or, for lemmas proved in Lean, a reference checked
    by the Lean step of the check (then obligations() is empty and `lean` names the theorem)."""

    def __init__(self, name, axioms, obligations, doc='', lean=None):
        self.name = name
        self.axioms = axioms
        self.obligations = obligations
        self.doc = doc
        self.lean = lean


def induction_lemma(name, params, k, lo, hyp, prop, doc='', axioms=(), props=(), patterns=None):
    """forall params, k >= lo: hyp(k) -> prop(k), proved by induction on k:
         base:  hyp(lo) |- prop(lo)
         step:  k >= lo, (hyp(k) -> prop(k)), hyp(k+1) |- prop(k+1)"""
    import z3
    from .state import Obligation

    def ax():
        body = z3.Implies(z3.And(k >= lo, hyp(k)), prop(k))
        if patterns is not None:
            return [z3.ForAll(list(params) + [k], body, patterns=patterns(k))]
        return [z3.ForAll(list(params) + [k], body)]

    def obs():
        base = Obligation('lemma:%s::base' % name, 'lemma', [hyp(lo)], prop(lo), 'lemma:' + name,
                          props=props, note=doc, axioms=list(axioms))
        step = Obligation('lemma:%s::step' % name, 'lemma',
                          [k >= lo, z3.Implies(hyp(k), prop(k)), hyp(k + 1)], prop(k + 1), 'lemma:' + name,
                          props=props, note=doc, axioms=list(axioms))
        return [base, step]
    l = Lemma(name, ax, obs, doc)
    LEMMAS[name] = l
    return l


def fuel_function(name, sorts, ret, body, fuel=2):
    """Boogie/Dafny-style fuel encoding of a recursive spec function.
    body(rec, *args) builds the definition using `rec` for the recursive calls.
    Returns (top-level z3 function, axioms callable)."""
    import z3
    fs = [z3.Function(name if i == fuel else '%s_f%d' % (name, i), *(list(sorts) + [ret])) for i in range(fuel + 1)]
    args = [z3.Const('%s_a%d' % (name, i), s) for i, s in enumerate(sorts)]

    def axioms():
        ax = []
        for i in range(fuel, 0, -1):
            hi, lo = fs[i], fs[i - 1]
            ax.append(z3.ForAll(args, hi(*args) == lo(*args), patterns=[hi(*args)]))
            ax.append(z3.ForAll(args, hi(*args) == body(lo, *args), patterns=[hi(*args)]))
        return ax
    return fs[fuel], axioms


def _register_triggers():
    from .vals import T1f, T2f
    from .ops import zint
    spec('T1', z3=lambda ex, st, a: T1f(zint(a)), py=lambda ex, st, a: True)
    spec('T2', z3=lambda ex, st, a, b: T2f(zint(a), zint(b)), py=lambda ex, st, a, b: True)


_register_triggers()


def _register_mention():
    """Mention(t): an always-true marker that merely puts the term t into the solver's term set, so
    that quantified invariants triggered on that term shape get instantiated there."""
    import z3
    from .vals import Val, BoolS, IntS, vlit, is_int
    from .ops import zint
    mv = z3.Function('MentionV', Val, BoolS)
    mi = z3.Function('MentionI', IntS, BoolS)
    spec('Mention', z3=lambda ex, st, t: (mi(zint(t)) if is_int(t) else mv(vlit(t))), py=lambda ex, st, t: True)
    a = z3.Const('mn_v', Val)
    b = z3.Const('mn_i', IntS)
    THEORIES['mention'] = lambda: [z3.ForAll([a], mv(a), patterns=[mv(a)]), z3.ForAll([b], mi(b), patterns=[mi(b)])]


_register_mention()
