"""Expression evaluation of the dvc executor (Python `ast` nodes; the C front end produces the
same node vocabulary plus a few C-only node classes from cnodes.py)."""
import ast
import z3
from .vals import *
from .ops import *
from .state import Unsupported, PathEnd, fresh
from . import cnodes

INF = float('inf')

CMPOPS = {ast.Lt: '<', ast.LtE: '<=', ast.Gt: '>', ast.GtE: '>=', ast.Eq: '==', ast.NotEq: '!='}
I64_MAX = 2 ** 63 - 1
I64_MIN = -2 ** 63
I32_MAX = 2 ** 31 - 1
I32_MIN = -2 ** 31


class ExprMixin:

    # ------------------------------------------------------------------ entry point
    def ev(self, node, st):
        m = getattr(self, 'ev_' + type(node).__name__, None)
        if m is None:
            raise Unsupported('expression %s at line %s in %s' % (
                type(node).__name__, getattr(node, 'lineno', '?'), self.fname))
        return m(node, st)

    def ev_Constant(self, node, st):
        return node.value

    def ev_Name(self, node, st):
        n = node.id
        if self.spec_mode and n in ('result', '__exc__') and n in self.spec_env:
            # in a postcondition `result` is the returned value, also when the body has a local of that name
            return self.spec_env[n]
        if n in st.vars:
            return st.vars[n]
        if self.spec_mode:
            if n in self.spec_env:
                return self.spec_env[n]
            if n == 'inf':
                return INF
            from .contracts import SPECS
            if n in SPECS:
                return FuncV('spec.' + n)
            if n in ('abs', 'min', 'max', 'len'):
                return FuncV('builtin.' + n)
        g = self.lookup_global(n)
        if g is not NotImplemented:
            return g
        raise Unsupported('unbound name %s in %s (line %s)' % (n, self.fname, getattr(node, 'lineno', '?')))

    def ev_Tuple(self, node, st):
        out = []
        for e in node.elts:
            if isinstance(e, ast.Starred):
                v = self.ev(e.value, st)
                out.extend(self.concrete_items(v, st))
            else:
                out.append(self.ev(e, st))
        return tuple(out)

    def ev_List(self, node, st):
        items = [self.ev(e, st) for e in node.elts]
        return self.new_list(st, items)

    def ev_ListComp(self, node, st):
        """[elt for targets in iterable] with one generator and no condition: a sequence snapshot whose element k is the
        element expression evaluated with the targets bound to item k of the iterable (evaluated on demand, also for a
        symbolic k; the caller states 0 <= k < length on the path it evaluates it on)."""
        if len(node.generators) != 1 or node.generators[0].ifs or getattr(node.generators[0], 'is_async', 0):
            raise Unsupported('list comprehension with several generators or a condition')
        gen = node.generators[0]
        lo, hi, getter = self.iter_view(gen.iter, st, node)
        env = dict(st.vars)

        def get(k, state=None):
            s2 = (state or st).fork()
            s2.pc = (state or st).pc        # obligations and assumptions of the element land on the evaluating path
            s2.vars = dict(env)
            self.assign(gen.target, getter(lo + k, s2), s2, node)
            v = self.ev(node.elt, s2)
            base = state or st
            for oid_, o_ in s2.heap.items():        # objects the element refers to (rows of a collection) live on
                if oid_ not in base.heap:
                    base.heap[oid_] = o_
            return v
        n = hi - lo
        if not is_z3(n):
            items = [get(k) for k in range(max(0, n))]
            return self.new_list(st, items)
        return Seq(get, n, 'any')

    def ev_Dict(self, node, st):
        d = {}
        for k, v in zip(node.keys, node.values):
            if k is None:
                d.update(self.as_dict(self.ev(v, st)))
            else:
                kk = self.ev(k, st)
                if not isinstance(kk, str):
                    raise Unsupported('dict with non-constant key')
                d[kk] = self.ev(v, st)
        return d

    def ev_JoinedStr(self, node, st):
        return '<fstring>'

    def ev_Lambda(self, node, st):
        return FuncV('lambda', bound=(node, dict(st.vars)))

    # ------------------------------------------------------------------ operators
    def elementwise_items(self, v, st):
        if isinstance(v, Ref):
            o = st.heap.get(v.oid)
            if isinstance(o, ArrObj) and o.pykind == 'ndarray' and o.items is not None and o.shape is None:
                return o.items
        return None

    def new_ndarray(self, st, items):
        oid = st.new_oid('N')
        st.heap[oid] = ArrObj('any', items=list(items), length=len(items), pykind='ndarray', dtype='float')
        return Ref(oid)

    def ev_UnaryOp(self, node, st):
        v = self.ev(node.operand, st)
        ev_ = self.elementwise_items(v, st)
        if ev_ is not None and isinstance(node.op, ast.USub):
            return self.new_ndarray(st, [self.real_or_num_neg(x) for x in ev_])
        if isinstance(node.op, ast.Not):
            return b_not(truth(v))
        if isinstance(node.op, ast.USub):
            v = self.need_num(v, node)
            if self.lang == 'c' and is_int(v) and not is_cint(v):
                self.overflow(-zint(v), node, st)
            return self.real_or_num_neg(v)
        if isinstance(node.op, ast.UAdd):
            return v
        raise Unsupported('unary op')

    def real_or_num_neg(self, v):
        if is_real(v):
            return -v
        return num_neg(v)

    def ev_BoolOp(self, node, st):
        is_and = isinstance(node.op, ast.And)
        acc = []
        npush = 0
        try:
            for e in node.values:
                try:
                    v = truth(self.ev(e, st))
                except PathEnd:
                    if self.spec_mode or not npush:
                        raise
                    # the operand is undefined under the guards collected so far: those guards cannot all hold here
                    st.assume(z3.Not(z3.And(*self.guards[-npush:])))
                    return False if is_and else True
                if is_and and v is False:
                    return False
                if (not is_and) and v is True:
                    return True
                acc.append(v)
                g = v if is_and else b_not(v)
                if g is not True:
                    self.guards.append(zbool(g))
                    npush += 1
        finally:
            for _ in range(npush):
                self.guards.pop()
        return b_and(*acc) if is_and else b_or(*acc)

    def ev_Compare(self, node, st):
        left = self.ev(node.left, st)
        res = []
        for op, rn in zip(node.ops, node.comparators):
            right = self.ev(rn, st)
            res.append(self.compare_op(op, left, right, node, st))
            left = right
        return b_and(*res)

    def compare_op(self, op, a, b, node, st):
        t = type(op)
        if t in CMPOPS:
            if isinstance(a, Ptr) or isinstance(b, Ptr):
                return self.ptr_compare(CMPOPS[t], a, b)
            a = self.unwrap_opt_for_order(a, CMPOPS[t], node, st)
            b = self.unwrap_opt_for_order(b, CMPOPS[t], node, st)
            return compare(CMPOPS[t], a, b)
        if t in (ast.Is, ast.IsNot):
            r = self.identity(a, b)
            return r if t is ast.Is else b_not(r)
        if t in (ast.In, ast.NotIn) and is_cset(b):
            if not (isinstance(a, str) and len(a) == 1):
                raise Unsupported('only single-character membership is modelled for string cells')
            r = cs_has(b, z3.IntVal(ord(a)))
            return r if t is ast.In else b_not(r)
        if t in (ast.In, ast.NotIn) and isinstance(a, str) and isinstance(b, str):
            return (a in b) if t is ast.In else (a not in b)
        if t in (ast.In, ast.NotIn):
            items = self.concrete_items(b, st)
            r = b_or(*[self.py_equal(a, x) for x in items])
            return r if t is ast.In else b_not(r)
        raise Unsupported('comparison operator')

    def py_equal(self, a, b):
        if isinstance(a, FuncV) and isinstance(b, FuncV):
            return a.name == b.name
        return compare('==', a, b)

    def unwrap_opt_for_order(self, a, op, node, st):
        if isinstance(a, Opt) and op not in ('==', '!='):
            self.oblige('not-none', b_not(a.isnone), st, node, 'ordering comparison on a value that may be None')
            return a.v
        return a

    def identity(self, a, b):
        if b is None or a is None:
            x = a if b is None else b
            if x is None:
                return True
            if isinstance(x, Opt):
                return x.isnone
            if isinstance(x, Ptr):
                return x.oid is None
            return False
        if isinstance(b, bool) and not is_z3(b):
            # `x is False` / `x is True`
            if isinstance(a, bool):
                return a is b
            if is_z3(a) and a.sort() == BoolS:
                return a if b else z3.Not(a)
            if isinstance(a, Opt):
                if a.v is not None and is_bool(a.v):
                    return b_and(b_not(a.isnone), self.identity(a.v, b))
                return False
            return False
        if isinstance(a, FuncV) and isinstance(b, FuncV):
            return a.name == b.name
        if isinstance(a, Ref) and isinstance(b, Ref):
            return a.oid == b.oid
        if isinstance(a, str) and isinstance(b, str):
            return a == b
        raise Unsupported('identity test on %r / %r' % (type(a), type(b)))

    def ev_IfExp(self, node, st):
        c = truth(self.ev(node.test, st))
        if c is True:
            return self.ev(node.body, st)
        if c is False:
            return self.ev(node.orelse, st)
        # an operand that cannot be evaluated (its guarded obligation says why) only removes its own case
        dead_a = dead_b = False
        a = b = None
        self.guards.append(zbool(c))
        try:
            a = self.ev(node.body, st)
        except PathEnd:
            if self.spec_mode:
                raise
            dead_a = True
        finally:
            self.guards.pop()
        self.guards.append(z3.Not(zbool(c)))
        try:
            b = self.ev(node.orelse, st)
        except PathEnd:
            if self.spec_mode or dead_a:
                raise
            dead_b = True
        finally:
            self.guards.pop()
        if dead_a:
            st.assume(z3.Not(zbool(c)))
            return b
        if dead_b:
            st.assume(zbool(c))
            return a
        return ite(c, a, b)

    def need_num(self, v, node):
        if isinstance(v, Opt):
            self.oblige('not-none', b_not(v.isnone), self.cur_state, node, 'arithmetic on a value that may be None')
            return v.v
        if v is None:
            self.oblige('not-none', False, self.cur_state, node, 'arithmetic on None')
            raise PathEnd()
        return v

    def ev_BinOp(self, node, st):
        a = self.ev(node.left, st)
        b = self.ev(node.right, st)
        return self.binop(type(node.op), a, b, node, st)

    def binop(self, op, a, b, node, st):
        if isinstance(a, Ptr) or isinstance(b, Ptr):
            return self.ptr_arith(op, a, b, node, st)
        ea, eb = self.elementwise_items(a, st), self.elementwise_items(b, st)
        if ea is not None or eb is not None:
            # NumPy broadcasting of a scalar against a 1-D array / of two equal-length arrays (A3)
            n = len(ea if ea is not None else eb)
            if ea is not None and eb is not None and len(ea) != len(eb):
                raise Unsupported('elementwise operation on arrays of different lengths')
            items = [self.binop(op, ea[k] if ea is not None else a, eb[k] if eb is not None else b, node, st)
                     for k in range(n)]
            return self.new_ndarray(st, items)
        if op in (ast.Div, ast.Mult) and isinstance(a, Ref) and not isinstance(b, (Ref, Seq)):
            o = st.heap.get(a.oid)
            if isinstance(o, ArrObj) and o.pykind == 'ndarray' and o.items is None and o.shape is None and o.kind == 'val':
                # NumPy broadcasting of a scalar over a 1-D float array (A3): a new array
                b_ = self.need_num(b, node)
                s_ = vlit(b_)
                if op is ast.Div:
                    self.oblige('div0', (zint(b_) != 0) if is_int(b_) else (s_ != vzero), st, node, 'division of an array by zero')
                f = vdiv if op is ast.Div else vmul
                new = fresh('npbc', z3.ArraySort(IntS, Val))
                k_ = z3.Const('bc_k!%d' % self.qcount(), IntS)
                pats = [z3.Select(new, k_)] + ([z3.Select(o.arr, k_)] if z3.is_const(o.arr) else [])
                st.assume(z3.ForAll([k_], z3.Select(new, k_) == f(z3.Select(o.arr, k_), s_), patterns=pats))
                oid = st.new_oid('N')
                st.heap[oid] = ArrObj('val', arr=new, length=o.length, pykind='ndarray', dtype='float')
                return Ref(oid)
        if op is ast.Mult and (isinstance(a, Ref) or isinstance(b, Ref)):
            return self.list_repeat(a, b, node, st)
        if op is ast.Add and isinstance(a, str) and isinstance(b, str):
            return a + b
        if op is ast.Add and is_cset(a) and isinstance(b, str):
            t = a
            for ch in b:
                t = cs_add(t, z3.IntVal(ord(ch)))
            return t
        if op is ast.Add and isinstance(a, tuple) and isinstance(b, tuple):
            return a + b
        a = self.need_num(a, node)
        b = self.need_num(b, node)
        if isinstance(a, bool):
            a = int(a)
        if isinstance(b, bool):
            b = int(b)
        if op is ast.Mult and is_z3(b) and b.sort() == BoolS and is_int(a):
            return z3.If(b, zint(a), 0)
        if op is ast.Mult and is_z3(a) and a.sort() == BoolS and is_int(b):
            return z3.If(a, zint(b), 0)
        if is_z3(a) and a.sort() == BoolS:
            a = zint(a)
        if is_z3(b) and b.sort() == BoolS:
            b = zint(b)
        if concrete(a) and concrete(b):
            return self.concrete_binop(op, a, b, node, st)
        if is_real(a) or is_real(b):
            return self.real_binop(op, a, b, node, st)
        if is_val(a) or is_val(b):
            x, y = vlit(a), vlit(b)
            if op is ast.Add:
                return vadd(x, y)
            if op is ast.Sub:
                return vsub(x, y)
            if op is ast.Mult:
                return vmul(x, y)
            if op is ast.Div:
                return vdiv(x, y)
            if op is ast.Pow:
                return vpow(x, y)
            raise Unsupported('float operator %s' % op.__name__)
        # integers
        x, y = zint(a), zint(b)
        if op is ast.Add:
            r = x + y
        elif op is ast.Sub:
            r = x - y
        elif op is ast.Mult:
            r = x * y
        elif op is ast.FloorDiv or (op is ast.Div and self.lang == 'c' and not self.spec_mode):
            self.oblige('div0', y != 0, st, node, 'division by zero')
            if self.lang == 'c' and not self.spec_mode:
                r = c_div(x, y)
            else:
                self.oblige('div-positive', y > 0, st, node, 'floor division encoded for positive divisors only')
                r = x / y
        elif op is ast.Mod:
            self.oblige('div0', y != 0, st, node, 'modulo by zero')
            if self.lang == 'c' and not self.spec_mode:
                r = c_mod(x, y)
            else:
                self.oblige('div-positive', y > 0, st, node, 'modulo encoded for positive divisors only')
                r = x % y
        elif op is ast.Div:
            # Python true division of ints gives a float
            return vdiv(vlit(x), vlit(y))
        elif op is ast.Pow:
            if is_cint(b) and 0 <= b <= 4:
                r = z3.IntVal(1)
                for _ in range(b):
                    r = r * x
            else:
                raise Unsupported('integer power with symbolic exponent')
        elif op in (ast.BitAnd, ast.BitOr, ast.BitXor, ast.LShift, ast.RShift):
            f = z3.Function('bit_' + op.__name__.lower(), IntS, IntS, IntS)
            self.notes.add('bit operation %s modelled as an uninterpreted function' % op.__name__)
            return f(x, y)
        else:
            raise Unsupported('integer operator %s' % op.__name__)
        if self.lang == 'c' and not self.spec_mode:
            self.overflow(r, node, st)
        return r

    def concrete_binop(self, op, a, b, node, st):
        if self.lang == 'c' and not self.spec_mode and is_cint(a) and is_cint(b):
            if op in (ast.Div, ast.FloorDiv, ast.Mod):
                if b == 0:
                    self.oblige('div0', False, st, node, 'division by zero')
                    raise PathEnd()
                q = abs(a) // abs(b)
                q = q if (a < 0) == (b < 0) else -q
                r = q if op is not ast.Mod else a - q * b
            else:
                r = {ast.Add: a + b, ast.Sub: a - b, ast.Mult: a * b}.get(op)
                if r is None:
                    raise Unsupported('C operator')
            if not (I64_MIN <= r <= I64_MAX):
                self.oblige('overflow', False, st, node, 'signed overflow')
            return r
        try:
            if op is ast.Add:
                return a + b
            if op is ast.Sub:
                return a - b
            if op is ast.Mult:
                return a * b
            if op is ast.Div:
                return a / b
            if op is ast.FloorDiv:
                return a // b
            if op is ast.Mod:
                return a % b
            if op is ast.Pow:
                return a ** b
        except ZeroDivisionError:
            self.oblige('div0', False, st, node, 'division by zero')
            raise PathEnd()
        raise Unsupported('operator')

    def real_binop(self, op, a, b, node, st):
        def R(x):
            if is_real(x):
                return x
            if is_int(x):
                return z3.ToReal(zint(x))
            if isinstance(x, float):
                return z3.RealVal(repr(x))
            raise Unsupported('mixing Real and Val')
        x, y = R(a), R(b)
        if op is ast.Add:
            return x + y
        if op is ast.Sub:
            return x - y
        if op is ast.Mult:
            return x * y
        if op is ast.Div:
            self.oblige('div0', y != 0, st, node, 'division by zero')
            return x / y
        if op is ast.Pow and is_cint(b) and 0 <= b <= 3:
            r = z3.RealVal(1)
            for _ in range(b):
                r = r * x
            return r
        raise Unsupported('real operator')

    def overflow(self, r, node, st):
        """C signed arithmetic: every intermediate result must fit the type (A2)."""
        if self.spec_mode or not self.check_overflow:
            return
        lo, hi = (I64_MIN, I64_MAX)
        self.oblige('overflow', z3.And(r >= lo, r <= hi), st, node, 'signed integer overflow')

    # ------------------------------------------------------------------ attributes
    def ev_Attribute(self, node, st):
        base = self.ev(node.value, st)
        return self.getattr_value(base, node.attr, node, st)

    def getattr_value(self, base, attr, node, st):
        if isinstance(base, ModuleV):
            return self.module_attr(base, attr, node)
        if isinstance(base, Opt):
            self.oblige('not-none', b_not(base.isnone), st, node, 'attribute of a value that may be None')
            base = base.v
        if isinstance(base, Ptr):
            if base.oid is None:
                self.oblige('null-deref', False, st, node, 'NULL dereference')
                raise PathEnd()
            obj = st.heap[base.oid]
            if isinstance(obj, RecObj):
                return self.rec_field(obj, attr, node)
            raise Unsupported('-> on non-struct pointer')
        if isinstance(base, Ref):
            obj = st.heap[base.oid]
            if isinstance(obj, RecObj):
                if attr in obj.fields:
                    return obj.fields[attr]
                m = self.find_method(obj.cls, attr)
                if m is not None:
                    return FuncV(m, bound=base)
                raise Unsupported('unknown field %s.%s' % (obj.cls, attr))
            if isinstance(obj, ArrObj):
                if attr == 'shape':
                    return tuple(obj.shape) if obj.shape else (obj.length,)
                if attr == 'T' and obj.shape:
                    return TView(base)
                return FuncV('method.' + attr, bound=base)
        if isinstance(base, FuncV) and base.name.startswith('class.'):
            m = self.find_method(base.name[6:], attr)
            if m is not None:
                return FuncV(m)
            a = self.class_attr(base.name[6:], attr)
            if a is not NotImplemented:
                return a
        if isinstance(base, EnumMember):
            if attr == 'value':
                return base.value
            if attr == 'name':
                return base.name
            raise Unsupported('enum member attribute .%s' % attr)
        if isinstance(base, (dict, tuple, str)):
            return FuncV('method.' + attr, bound=base)
        if isinstance(base, PoolV):
            if attr == '_processes':
                n = fresh('pool_processes', IntS)       # number of worker processes: some positive integer
                st.assume(n >= 1)
                return n
            return FuncV('method.pool_' + attr, bound=base)
        raise Unsupported('attribute .%s on %r (line %s, %s)' % (attr, type(base), getattr(node, 'lineno', '?'), self.fname))

    def rec_field(self, obj, attr, node):
        if attr not in obj.fields:
            raise Unsupported('unknown struct field %s.%s' % (obj.cls, attr))
        return obj.fields[attr]

    # ------------------------------------------------------------------ subscripts
    def ev_Subscript(self, node, st):
        base = self.ev(node.value, st)
        if isinstance(node.slice, ast.Slice):
            return self.slice_value(base, node.slice, node, st)
        if isinstance(node.slice, ast.Tuple) and any(isinstance(e, ast.Slice) for e in node.slice.elts):
            return self.slice2d_value(base, node.slice, node, st)
        idx = self.ev(node.slice, st)
        return self.index_value(base, idx, node, st)

    def norm_index(self, idx, length, node, st, what='index'):
        """Python index normalisation with its IndexError obligation."""
        idx = self.need_num(idx, node)
        if is_cint(idx) and is_cint(length):
            if not (-length <= idx < length):
                self.oblige('bounds', False, st, node, '%s %s outside [%s,%s)' % (what, idx, -length, length))
                raise PathEnd()
            return idx + length if idx < 0 else idx
        i, n = zint(idx), zint(length)
        if self.lang == 'c' or self.spec_mode:
            self.oblige('bounds', z3.And(i >= 0, i < n), st, node, '%s within buffer' % what)
            return idx
        self.oblige('bounds', z3.And(i >= -n, i < n), st, node, '%s in range (IndexError)' % what)
        if is_cint(idx):
            return idx if idx >= 0 else n + idx
        if not self.is_feasible(st, i < 0):
            return idx          # provably non-negative on this path: no wrap-around
        return z3.If(i < 0, i + n, i)

    def index_value(self, base, idx, node, st):
        if isinstance(base, Opt):
            self.oblige('not-none', b_not(base.isnone), st, node, 'subscript of a value that may be None')
            base = base.v
        if isinstance(base, TView):
            raise Unsupported('read through .T')
        if isinstance(base, (tuple, list)):
            if is_cint(idx):
                if not (-len(base) <= idx < len(base)):
                    self.oblige('bounds', False, st, node, 'tuple index out of range')
                    raise PathEnd()
                return base[idx]
            # symbolic index into a concrete tuple: ite chain
            i = zint(idx)
            self.oblige('bounds', z3.And(i >= 0, i < len(base)), st, node, 'tuple index')
            r = base[-1]
            for k in range(len(base) - 2, -1, -1):
                r = ite(i == k, base[k], r)
            return r
        if isinstance(base, dict):
            if not isinstance(idx, str) or idx not in base:
                raise Unsupported('dict lookup %r' % (idx,))
            return base[idx]
        if isinstance(base, Seq):
            k = self.norm_index(idx, base.length, node, st)
            return base.get(k)
        if isinstance(base, Ptr):
            return self.ptr_read(base, idx, node, st)
        if isinstance(base, Ref):
            obj = st.heap[base.oid]
            if isinstance(obj, ArrObj):
                return self.arr_read(obj, idx, node, st)
            if isinstance(obj, RecObj):
                h = self.rec_getitem(obj, base, idx, node, st)
                if h is not NotImplemented:
                    return h
        if self.spec_mode and (is_val(base) or is_int(base) or base is None):
            raise PathEnd()      # undefined term: handled by implies() / reported by eval_spec
        raise Unsupported('subscript of %r (line %s, %s)' % (type(base), getattr(node, 'lineno', '?'), self.fname))

    def arr_read(self, obj, idx, node, st):
        if obj.shape is not None:
            if not (isinstance(idx, tuple) and len(idx) == 2):
                raise Unsupported('2-D array needs a pair index')
            i = self.norm_index(idx[0], obj.shape[0], node, st, 'row index')
            j = self.norm_index(idx[1], obj.shape[1], node, st, 'column index')
            if obj.items is not None and is_cint(i) and is_cint(j):
                return obj.items[i][j]
            return sel2(obj.arr, zint(i), zint(j))
        k = self.norm_index(idx, obj.length, node, st)
        if obj.items is not None:
            if is_cint(k):
                return obj.items[k]
            if not obj.items:
                if self.spec_mode:
                    return fresh('empty_read', kind_sort(obj.kind if obj.kind != 'any' else 'int'))
                raise PathEnd()
            r = obj.items[-1]
            for q in range(len(obj.items) - 2, -1, -1):
                r = ite(zint(k) == q, obj.items[q], r)
            return r
        if obj.kind == 'rows':
            return self.row_ref(obj, k, st)
        if obj.kind == 'rowsflat':
            # a point of a multivariate series: pointer to its first value inside the flat storage
            for oid_, o_ in st.heap.items():
                if o_ is obj:
                    return Ptr(oid_, zint(k) * obj.nd)
            raise Unsupported('row of a detached multivariate series')
        if obj.kind == 'ipair':
            e = z3.Select(obj.arr, zint(k))
            return (ip_fst(e), ip_snd(e))
        return z3.Select(obj.arr, zint(k))

    def row_ref(self, obj, k, st):
        """Element k of a collection of series: a read-only series object whose content is
        row k of the collection's 2-D array and whose length is lenfn(k)."""
        S, lenfn = obj.arr
        kk = zint(k)
        oid = 'row[%s|%s]' % (obj.name, z3.simplify(kk).sexpr())
        if oid not in st.heap:
            st.heap[oid] = ArrObj('val', arr=z3.Select(S, kk), length=lenfn(kk), origin=obj.origin,
                                  name='%s[%s]' % (obj.name, z3.simplify(kk).sexpr()), pykind='array')
            st.heap[oid].row_of = (obj.name, kk)
        return Ref(oid)

    def arr_term(self, obj):
        return obj.arr

    def clip_slice(self, lo, hi, length, node, st):
        """Python slice clipping for step 1: returns (start, stop) with 0 <= start, stop <= length."""
        def clip(v, default):
            if v is None:
                return default
            v = self.need_num(v, node)
            if is_cint(v) and is_cint(length):
                if v < 0:
                    v += length
                return max(0, min(length, v))
            x, n = zint(v), zint(length)
            x = z3.If(x < 0, x + n, x)
            return z3.If(x < 0, 0, z3.If(x > n, n, x))
        return clip(lo, 0), clip(hi, length)

    def slice_value(self, base, sl, node, st):
        if sl.step is not None:
            raise Unsupported('1-D slice with step')
        lo = None if sl.lower is None else self.ev(sl.lower, st)
        hi = None if sl.upper is None else self.ev(sl.upper, st)
        if isinstance(base, Ref):
            obj = st.heap[base.oid]
            if not isinstance(obj, ArrObj) or obj.shape is not None:
                raise Unsupported('slice of non 1-D array')
            length = obj.length
            if obj.items is not None:
                items = obj.items
                get = None
            else:
                arr = obj.arr
                items = None
            kind = obj.kind
            rows = obj.arr if obj.kind == 'rows' else None
        elif isinstance(base, Seq):
            length, kind, items, rows = base.length, base.kind, base.items, None
            bget = base.get
        elif isinstance(base, (tuple, list)):
            a, b = self.clip_slice(lo, hi, len(base), node, st)
            if is_cint(a) and is_cint(b):
                return base[a:b]
            raise Unsupported('symbolic tuple slice')
        else:
            raise Unsupported('slice of %r' % type(base))
        a, b = self.clip_slice(lo, hi, length, node, st)
        if items is not None and is_cint(a) and is_cint(b):
            sub = list(items[a:b])
            return Seq(lambda k, sub=sub: self.pick(sub, k), len(sub), kind, items=sub)
        n = ite(compare('<', b, a), 0, self.binop(ast.Sub, b, a, node, st) if not self.spec_mode else zint(b) - zint(a))
        if isinstance(base, Seq):
            return Seq(lambda k: bget(zint(a) + zint(k)), n, kind, nd=base.nd)
        if rows is not None:
            raise Unsupported('slice of a series collection')
        if items is not None:
            its = list(items)
            return Seq(lambda k: self.pick(its, zint(a) + zint(k)), n, kind)
        return Seq(lambda k: z3.Select(arr, zint(a) + zint(k)), n, kind, win=(arr, zint(a), zint(b)))

    def pick(self, items, k):
        if is_cint(k):
            return items[k]
        if not items:
            raise PathEnd()
        r = items[-1]
        for q in range(len(items) - 2, -1, -1):
            r = ite(zint(k) == q, items[q], r)
        return r

    def slice2d_value(self, base, tup, node, st):
        """NumPy `m[a:b:-1, c]` / `m[r, a:b:-1]` (reads only; the value is a snapshot)."""
        if not isinstance(base, Ref):
            raise Unsupported('2-D slice of non-array')
        obj = st.heap[base.oid]
        if not isinstance(obj, ArrObj) or obj.shape is None or len(tup.elts) != 2:
            raise Unsupported('2-D slice')
        e0, e1 = tup.elts
        if isinstance(e0, ast.Slice) and isinstance(e1, ast.Slice):
            raise Unsupported('2-D block slice')
        if isinstance(e0, ast.Slice):
            sl, fixed, dim, fdim = e0, self.ev(e1, st), obj.shape[0], obj.shape[1]
            mk = lambda k: (k, fixed)
        else:
            sl, fixed, dim, fdim = e1, self.ev(e0, st), obj.shape[1], obj.shape[0]
            mk = lambda k: (fixed, k)
        fixed = self.norm_index(fixed, fdim, node, st, 'fixed index')
        if is_z3(fixed) and not z3.is_const(fixed) and not z3.is_int_value(fixed):
            fc = fresh('slfix', IntS)        # named, so that the element term is a legal E-matching pattern
            st.assume(fc == fixed)
            fixed = fc
        start, n, step = self.np_slice_range(sl, dim, node, st)
        if is_z3(start) and not z3.is_const(start) and not z3.is_int_value(start):
            sc_ = fresh('slstart', IntS)
            st.assume(sc_ == start)
            start = sc_
        arr = obj.arr
        items = obj.items

        def get(k):
            pos = zint(start) + zint(k) * step if not (is_cint(start) and is_cint(k)) else start + k * step
            i, j = mk(pos)
            if items is not None and is_cint(i) and is_cint(j):
                return items[i][j]
            if items is not None:
                raise Unsupported('symbolic read of concrete 2-D array')
            return sel2(arr, zint(i), zint(j))
        pos = None
        if items is None:
            def at(p):
                i, j = mk(p)
                return sel2(arr, zint(i), zint(j))
            s0, n0 = zint(start), zint(n)
            pos = (at, s0, s0 + n0, s0, 1) if step == 1 else (at, s0 - n0 + 1, s0 + 1, s0, -1)
        return Seq(get, n, obj.kind, pos=pos, nd=(obj.pykind == 'ndarray'))

    def np_slice_range(self, sl, dim, node, st):
        """start, count, step of a Python slice on an axis of length dim; step in {1,-1}."""
        step = 1 if sl.step is None else self.ev(sl.step, st)
        if step not in (1, -1):
            raise Unsupported('slice step other than +-1')
        lo = None if sl.lower is None else self.need_num(self.ev(sl.lower, st), node)
        hi = None if sl.upper is None else self.need_num(self.ev(sl.upper, st), node)
        n = zint(dim)

        def norm(v, lo_clip, hi_clip):
            x = zint(v)
            x = z3.If(x < 0, x + n, x)
            return z3.If(x < lo_clip, lo_clip, z3.If(x > hi_clip, hi_clip, x))
        if step == 1:
            a = z3.IntVal(0) if lo is None else norm(lo, 0, n)
            b = n if hi is None else norm(hi, 0, n)
            cnt = z3.If(b > a, b - a, 0)
        else:
            a = n - 1 if lo is None else norm(lo, -1, n - 1)
            b = z3.IntVal(-1) if hi is None else norm(hi, -1, n - 1)
            cnt = z3.If(a > b, a - b, 0)
        a = z3.simplify(a)
        cnt = z3.simplify(cnt)
        if z3.is_int_value(a):
            a = a.as_long()
        if z3.is_int_value(cnt):
            cnt = cnt.as_long()
        return a, cnt, step

    # ------------------------------------------------------------------ helpers
    def concrete_items(self, v, st):
        if isinstance(v, (tuple, list)):
            return list(v)
        if isinstance(v, Seq) and v.items is not None:
            return list(v.items)
        if isinstance(v, Ref):
            obj = st.heap[v.oid]
            if isinstance(obj, ArrObj) and obj.items is not None and obj.shape is None:
                return list(obj.items)
        raise Unsupported('need a sequence of concrete length')

    def as_dict(self, v):
        if isinstance(v, dict):
            return v
        raise Unsupported('** of non-dict')

    def new_list(self, st, items, kind=None, pykind='list'):
        oid = st.new_oid('L')
        if kind is None:
            kind = 'any'
            if items and all(is_int(x) for x in items):
                kind = 'int'
            elif items and all(is_val(x) or is_int(x) for x in items):
                kind = 'val'
        st.heap[oid] = ArrObj(kind, items=list(items), length=len(items), pykind=pykind)
        return Ref(oid)

    def list_repeat(self, a, b, node, st):
        if isinstance(b, Ref):
            a, b = b, a
        obj = st.heap[a.oid]
        n = self.need_num(b, node)
        if not isinstance(obj, ArrObj) or obj.items is None or len(obj.items) != 1:
            raise Unsupported('list repetition of a non-singleton')
        x = obj.items[0]
        kind = 'val' if is_val(x) else ('int' if is_int(x) else 'any')
        oid = st.new_oid('L')
        if is_cint(n) and self.mode == 'run':
            st.heap[oid] = ArrObj(kind, items=[x] * max(0, n), length=max(0, n))
            return Ref(oid)
        if kind == 'any':
            raise Unsupported('symbolic repetition of non-numeric element')
        xv = vlit(x) if kind == 'val' else zint(x)
        ln = zint(n)
        arr = fresh('rep', z3.ArraySort(IntS, kind_sort(kind)))
        qi = z3.Const('rp_i!%d' % self.qcount(), IntS)
        st.assume(z3.ForAll([qi], z3.Select(arr, qi) == xv, patterns=[z3.Select(arr, qi)]))
        st.heap[oid] = ArrObj(kind, arr=arr, length=z3.If(ln < 0, 0, ln) if not is_cint(n) else max(0, n))
        return Ref(oid)
