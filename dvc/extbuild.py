"""The native sweeps and replays run the real package -- Python sources *and* the compiled C/Cython
extension -- of /repo's current working tree.  The extension modules lying in /repo/src/dtaidistance are
untracked build products of unknown age, so they are never used: this module builds the extension from the
current sources in a scratch copy outside /repo and /verif (removed afterwards), keeps only the resulting
shared objects in <tmp>/dvc_native_cache_<uid>/ext/<hash of the C / Cython sources>/, and assembles
<tmp>/dvc_native_cache_<uid>/pkg/<hash of everything>/src/dtaidistance = current .py files + those shared objects
(a cache: anything missing is rebuilt; only the current entry and one predecessor are kept).
A change to any C, header, .pyx/.pxd or setup file therefore triggers a rebuild (about a minute); a change to
Python sources only re-copies the .py files."""
import fcntl
import hashlib
import os
import shutil
import subprocess
import tempfile

HERE = os.path.dirname(os.path.dirname(os.path.abspath(__file__)))
VENV_PY = '/venv/bin/python'
_CACHE = {}


def _files(repo):
    ext, py = [], []
    for base, exts, bucket in (('src/dtaidistance', ('.pyx', '.pxd'), ext), ('src/DTAIDistanceC/DTAIDistanceC', ('.c', '.h'), ext),
                               ('src/dtaidistance', ('.py',), py)):
        root = os.path.join(repo, base)
        for d, dirs, names in os.walk(root):
            dirs[:] = sorted(x for x in dirs if x not in ('__pycache__', 'jinja', 'build'))
            for n in sorted(names):
                if n.endswith(exts) and not (n.endswith('.c') and base == 'src/dtaidistance'):
                    bucket.append(os.path.relpath(os.path.join(d, n), repo))
    for n in ('setup.py', 'setup.cfg', 'pyproject.toml', 'MANIFEST.in'):
        if os.path.exists(os.path.join(repo, n)):
            ext.append(n)
    return sorted(ext), sorted(py)


def _hash(repo, names):
    h = hashlib.sha256()
    for n in names:
        h.update(n.encode() + b'\0')
        with open(os.path.join(repo, n), 'rb') as f:
            h.update(f.read())
        h.update(b'\0')
    return h.hexdigest()[:20]


def _build_ext(repo, dest):
    """build the extension modules of the current tree in a scratch copy; leave only the .so files in dest"""
    scratch = tempfile.mkdtemp(prefix='dtaibuild_')
    try:
        work = os.path.join(scratch, 'repo')
        shutil.copytree(repo, work, symlinks=True,
                        ignore=shutil.ignore_patterns('.git', '*.so', '__pycache__', 'build', '*.egg-info', 'tests', 'docs', '.pytest_cache'))
        # generated Cython C files are not tracked: drop stale copies so that the .pyx files are translated afresh
        pkgdir = os.path.join(work, 'src', 'dtaidistance')
        for n in os.listdir(pkgdir):
            if n.endswith('.c') and os.path.exists(os.path.join(pkgdir, n[:-2] + '.pyx')) or n in ('dtw_cc_numpy.c', 'util_numpy_cc.c'):
                os.remove(os.path.join(pkgdir, n))
        env = dict(os.environ, PIP_NO_INDEX='1')
        p = subprocess.run([VENV_PY, 'setup.py', 'build_ext', '--inplace'], cwd=work, capture_output=True, text=True, timeout=1800, env=env)
        sos = [n for n in os.listdir(os.path.join(work, 'src', 'dtaidistance')) if n.endswith('.so')]
        if p.returncode != 0 or not sos:
            raise RuntimeError('building the extension of the current tree failed (rc=%s):\n%s' % (p.returncode, (p.stdout + p.stderr)[-3000:]))
        tmp = dest + '.tmp%d' % os.getpid()
        os.makedirs(tmp, exist_ok=True)
        for n in sos:
            shutil.copy2(os.path.join(work, 'src', 'dtaidistance', n), os.path.join(tmp, n))
        if os.path.exists(dest):
            shutil.rmtree(dest)
        os.rename(tmp, dest)
    finally:
        shutil.rmtree(scratch, ignore_errors=True)


def native_root(repo):
    """directory to use in place of /repo for native runs: <root>/src/dtaidistance is the current tree, freshly built"""
    repo = os.path.abspath(repo)
    if repo in _CACHE:
        return _CACHE[repo]
    extf, pyf = _files(repo)
    eh = _hash(repo, extf)
    fh = _hash(repo, extf + pyf)
    # the cache holds copies of repository files, so it lives outside /repo and /verif; nothing depends on it surviving
    # (a missing entry is rebuilt), and only the current entry plus one predecessor is kept
    bdir = os.path.join(tempfile.gettempdir(), 'dvc_native_cache_%d' % os.getuid())
    os.makedirs(os.path.join(bdir, 'ext'), exist_ok=True)
    os.makedirs(os.path.join(bdir, 'pkg'), exist_ok=True)
    with open(os.path.join(bdir, 'ext.lock'), 'w') as lock:
        fcntl.flock(lock, fcntl.LOCK_EX)
        edir = os.path.join(bdir, 'ext', eh)
        if not (os.path.isdir(edir) and any(n.endswith('.so') for n in os.listdir(edir))):
            _build_ext(repo, edir)
        root = os.path.join(bdir, 'pkg', fh)
        pk = os.path.join(root, 'src', 'dtaidistance')
        if not os.path.isdir(pk):
            tmp = root + '.tmp%d' % os.getpid()
            shutil.rmtree(tmp, ignore_errors=True)
            for n in pyf:
                dst = os.path.join(tmp, n)
                os.makedirs(os.path.dirname(dst), exist_ok=True)
                shutil.copy2(os.path.join(repo, n), dst)
            for n in os.listdir(edir):
                shutil.copy2(os.path.join(edir, n), os.path.join(tmp, 'src', 'dtaidistance', n))
            os.rename(tmp, root)
        # keep the cache small: the current and a few recent entries
        for sub, keep in (('pkg', fh), ('ext', eh)):
            d = os.path.join(bdir, sub)
            entries = sorted((os.path.getmtime(os.path.join(d, x)), x) for x in os.listdir(d) if x != keep and '.tmp' not in x)
            for _, x in entries[:-1]:
                shutil.rmtree(os.path.join(d, x), ignore_errors=True)
    _CACHE[repo] = root
    return root
