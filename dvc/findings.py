"""Known findings (committed in known_findings.json, never written at run time)."""
from .contracts import CONTRACTS
from . import replay


def replay_witness(run, k):
    """True when the recorded witness still violates the contract on the real code."""
    w = k.get('witness')
    if not w:
        return True
    if w.get('kind', 'py') == 'py':
        out = replay.native_calls(run.program.native_root(), [dict(func=w['function'], args=w['args'])])[0]
        if 'expect_exc' in w:
            return (not out['ok']) and out['exc'].startswith(w['expect_exc'])
        if 'expect_expr' in w:
            # a Python expression over the decoded native result (`result`) and arguments (`args`)
            import math
            if not out['ok']:
                return False
            return bool(eval(w['expect_expr'], {'result': plain(out['result']), 'args': plain(w['args']), 'math': math,
                                                'abs': abs, 'len': len, 'all': all, 'any': any, 'range': range}))
        if w.get('expect') == 'nan':
            import json as _j
            return out['ok'] and 'nan' in _j.dumps(out['result'])
        chk = replay.ConcreteChecker(run.program, w.get('contract', w['function']))
        return bool(replay.definite(chk.check_ensures(w['args'], out)))
    from . import creplay
    return creplay.replay_witness(run, k)


def plain(v):
    """tagged JSON -> plain Python (floats, lists, tuples)"""
    if isinstance(v, dict):
        if 'f' in v:
            return float.fromhex(v['f']) if isinstance(v['f'], str) else float(v['f'])
        if 't' in v:
            return tuple(plain(x) for x in v['t'])
        for k in ('l', 'a', 'n'):
            if k in v:
                return [plain(x) for x in v[k]]
        if 'd' in v:
            return {k: plain(x) for k, x in v['d'].items()}
        if 'repr' in v or 'obj' in v or 'set' in v:
            return v
        return {k: plain(x) for k, x in v.items()}
    if isinstance(v, list):
        return [plain(x) for x in v]
    return v
