"""Known findings (committed in known_findings.json, never written at run time)."""
from .contracts import CONTRACTS
from . import replay


def replay_witness(run, k):
    """True when the recorded witness still violates the contract on the real code."""
    w = k.get('witness')
    if not w:
        return True
    if w.get('kind', 'py') == 'py':
        out = replay.native_calls(run.program.repo, [dict(func=w['function'], args=w['args'])])[0]
        if 'expect_exc' in w:
            return (not out['ok']) and out['exc'].startswith(w['expect_exc'])
        if w.get('expect') == 'nan':
            import json as _j
            return out['ok'] and 'nan' in _j.dumps(out['result'])
        chk = replay.ConcreteChecker(run.program, w.get('contract', w['function']))
        return bool(chk.check_ensures(w['args'], out))
    from . import creplay
    return creplay.replay_witness(run, k)
