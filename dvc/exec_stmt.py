"""Statement execution of the dvc executor.

The executor is single-path: every branch on a symbolic condition is a *decision*; the driver
(`Exec.explore`) re-runs the function once per feasible decision vector.  Loops are cut at their
heads in 'vc' mode (invariant checked on entry, havoc, invariant assumed, one arbitrary
iteration, invariant re-checked) and executed iteration by iteration in 'run' mode.
"""
import ast
import z3
from .vals import *
from .ops import *
from .state import Unsupported, CannotBind, PathEnd, fresh
from . import cnodes


class _Break(Exception):
    pass


class _Continue(Exception):
    pass


class _Return(Exception):
    def __init__(self, value):
        self.value = value


class _Raise(Exception):
    def __init__(self, exc):
        self.exc = exc


def loop_nodes(fn_node):
    """Loops of a function in pre-order; the index in this list is the loop ordinal."""
    out = []

    def walk(stmts):
        for s in stmts:
            if isinstance(s, (ast.For, ast.While, cnodes.CFor)):
                out.append(s)
                walk(s.body)
                if getattr(s, 'orelse', None):
                    walk(s.orelse)
            elif isinstance(s, cnodes.COmpFor):
                walk([s.loop])
            elif isinstance(s, ast.If):
                walk(s.body)
                walk(s.orelse)
            elif isinstance(s, ast.With):
                walk(s.body)
            elif isinstance(s, ast.Try):
                walk(s.body)
                for h in s.handlers:
                    walk(h.body)
                walk(s.orelse)
                walk(s.finalbody)
    walk(fn_node.body)
    return out


def loop_head_text(node):
    if isinstance(node, ast.For):
        return 'for %s in %s' % (ast.unparse(node.target), ast.unparse(node.iter))
    if isinstance(node, ast.While):
        return 'while %s' % ast.unparse(node.test)
    if isinstance(node, cnodes.CFor):
        return 'for(;%s;)' % (ast.unparse(node.test) if node.test is not None else '')
    return '?'


class Modified(ast.NodeVisitor):
    """Syntactic write set of a statement list."""

    def __init__(self):
        self.names = set()       # plain variables assigned
        self.stored = set()      # names whose referenced object is written (x[i] = .., x.append)
        self.attrs = set()       # (name, attr) record fields written
        self.derefs = set()      # names written through *p
        self.calls = []          # Call nodes (callee contracts may assign)

    def target(self, t):
        if isinstance(t, ast.Name):
            self.names.add(t.id)
        elif isinstance(t, (ast.Tuple, ast.List)):
            for e in t.elts:
                self.target(e)
        elif isinstance(t, ast.Subscript):
            b = t.value
            while isinstance(b, ast.Subscript):
                b = b.value
            if isinstance(b, ast.Name):
                self.stored.add(b.id)
            elif isinstance(b, ast.Attribute) and isinstance(b.value, ast.Name):
                if b.attr == 'T':
                    self.stored.add(b.value.id)
                else:
                    self.attrs.add((b.value.id, b.attr))
                    self.stored.add(b.value.id + '.' + b.attr)
            elif isinstance(b, cnodes.CDeref) and isinstance(b.value, ast.Name):
                self.stored.add('*' + b.value.id)
            else:
                self.stored.add('?')
        elif isinstance(t, ast.Attribute):
            if isinstance(t.value, ast.Name):
                self.attrs.add((t.value.id, t.attr))
            else:
                self.stored.add('?')
        elif isinstance(t, cnodes.CDeref):
            if isinstance(t.value, ast.Name):
                self.derefs.add(t.value.id)
            else:
                self.stored.add('?')
        elif isinstance(t, ast.Starred):
            self.target(t.value)

    def visit_Assign(self, n):
        for t in n.targets:
            self.target(t)
        self.generic_visit(n)

    def visit_AugAssign(self, n):
        self.target(n.target)
        self.generic_visit(n)

    def visit_AnnAssign(self, n):
        self.target(n.target)
        self.generic_visit(n)

    def visit_For(self, n):
        self.target(n.target)
        self.generic_visit(n)

    def visit_CDecl(self, n):
        self.names.add(n.name)
        self.generic_visit(n)

    def visit_CIncDec(self, n):
        self.target(n.target)
        self.generic_visit(n)

    def visit_CAssignExpr(self, n):
        self.target(n.target)
        self.generic_visit(n)

    def visit_Call(self, n):
        self.calls.append(n)
        f = n.func
        if isinstance(f, ast.Attribute) and isinstance(f.value, ast.Name) and f.attr in (
                'append', 'extend', 'pop', 'reverse', 'sort', 'insert', 'remove', 'clear', 'add',
                'update', 'fill', 'resize'):
            self.stored.add(f.value.id)
        self.generic_visit(n)


class StmtMixin:

    # ------------------------------------------------------------------ blocks
    def exec_block(self, stmts, st):
        for s in stmts:
            self.after_stmt(s, st, attr='hints_before')
            self.exec_stmt(s, st)
            self.after_stmt(s, st)

    def after_stmt(self, node, st, attr='hints'):
        """Ghost hints of the sidecar contract: `hints={relative_line: [expr, ...]}` are proved
        right after the statement that starts on that line and may then be used (a proved
        intermediate assertion, never an assumption).  'pure:' hints are arithmetic facts proved
        without the quantified spec axioms."""
        c = self.frame.contract
        # `hints_before` are proved just before the statement (for statements that leave the block: break, continue, return)
        hints = getattr(c, attr, None) if c is not None else None
        if not hints or self.spec_mode or self.frame is not self.frames[0]:
            return
        rel = (getattr(node, 'lineno', 0) or 0) - (self.frame.finfo.lineno or 0)
        todo = list(hints.get(rel, ()))
        skeys = [k for k in hints if isinstance(k, str)]
        if skeys and self.lang == 'py' and (not isinstance(node, (ast.For, ast.While, ast.If))
                                            or (attr == 'hints_before' and isinstance(node, ast.If))):
            try:
                src = ast.unparse(node)
            except Exception:       # noqa: not printable: no textual hint can bind to it
                src = None
            if src is not None:
                for k in skeys:
                    if src.startswith(k):
                        todo += list(hints[k])
        for n_, text in enumerate(todo):
            pure = text.startswith('pure:')
            if pure:
                text = text[5:]
            self.oblige('hint-pure' if pure else 'hint', self.eval_spec(text, st), st, node,
                        'ghost assertion: ' + text, detail='%s+%d.%d' % ('pre' if attr == 'hints_before' else '', rel, n_))

    def exec_stmt(self, node, st):
        self.cur_state = st
        self.cur_node = node
        if len(self.frames) == 1 and not self.spec_mode:
            # statement coverage of the function under contract by the explored paths (reported, see verify.py)
            self.stmt_lines.add(getattr(node, 'lineno', 0))
        m = getattr(self, 'ex_' + type(node).__name__, None)
        if m is None:
            raise Unsupported('statement %s at line %s in %s' % (
                type(node).__name__, getattr(node, 'lineno', '?'), self.fname))
        m(node, st)

    def ex_Pass(self, node, st):
        pass

    def ex_Expr(self, node, st):
        if isinstance(node.value, ast.Constant):
            return
        self.ev(node.value, st)

    def ex_Return(self, node, st):
        v = None if node.value is None else self.ev(node.value, st)
        raise _Return(v)

    def ex_Break(self, node, st):
        raise _Break()

    def ex_Continue(self, node, st):
        raise _Continue()

    def ex_Assert(self, node, st):
        c = truth(self.ev(node.test, st))
        self.oblige('assert', c, st, node, 'assert ' + ast.unparse(node.test))

    def ex_Raise(self, node, st):
        name = '?'
        e = node.exc
        if isinstance(e, ast.Call):
            e = e.func
        if isinstance(e, ast.Name):
            name = e.id
        elif isinstance(e, ast.Attribute):
            name = e.attr
        if name in self.contract_raises():
            raise _Raise(name)
        self.oblige('no-raise', False, st, node, 'raise %s reachable' % name)
        raise PathEnd()

    def simple_branch(self, stmts):
        """Statements that only assign scalars (no calls, stores, control flow): such an `if` is
        executed as conditional assignments (x = c ? e : x) instead of forking the path."""
        for s in stmts:
            if isinstance(s, ast.Pass):
                continue
            if isinstance(s, ast.If):
                if not (self.simple_branch(s.body) and self.simple_branch(s.orelse)):
                    return False
                if any(isinstance(n, ast.Call) for n in ast.walk(s.test)):
                    return False
                continue
            if isinstance(s, ast.Expr) and isinstance(s.value, (cnodes.CAssignExpr, cnodes.CIncDec)):
                tgt = s.value.target
                val = getattr(s.value, 'value', None)
            elif isinstance(s, ast.Assign) and len(s.targets) == 1:
                tgt, val = s.targets[0], s.value
            elif isinstance(s, ast.AugAssign):
                tgt, val = s.target, s.value
            else:
                return False
            if not isinstance(tgt, ast.Name):
                return False
            if val is not None and any(isinstance(n, (ast.Call, cnodes.CAssignExpr, cnodes.CIncDec, cnodes.CStmtExpr))
                                       for n in ast.walk(val) if isinstance(n, ast.AST)):
                return False
        return True

    def ex_If(self, node, st):
        c = truth(self.ev(node.test, st))
        if not isinstance(c, bool) and self.mode == 'vc' and self.simple_branch(node.body) \
                and self.simple_branch(node.orelse) and not any(isinstance(n, ast.Call) for n in ast.walk(node.test)):
            c = z3.simplify(zbool(c))
            if not (z3.is_true(c) or z3.is_false(c)):
                # a branch whose condition contradicts the path condition is not evaluated at all (its reads may be
                # undefined there, e.g. a table that is NULL in this configuration)
                t_ok, f_ok = self.is_feasible(st, c), self.is_feasible(st, z3.Not(c))
                if not t_ok and not f_ok:
                    raise PathEnd()
                if t_ok != f_ok:
                    st.assume(c if t_ok else z3.Not(c))
                    self.exec_block(node.body if t_ok else node.orelse, st)
                    return
                base = dict(st.vars)
                # facts assumed while a branch is evaluated (e.g. "the pointer just dereferenced is not NULL") hold under the
                # branch condition only: they are re-stated as implications before the branches are merged
                n0 = len(st.pc)
                heap0 = dict(st.heap)
                self.guards.append(c)
                dead_then = dead_else = False
                try:
                    self.exec_block(node.body, st)
                except PathEnd:
                    # the branch cannot be completed (its guarded obligation says why): only the other branch continues
                    dead_then = True
                finally:
                    self.guards.pop()
                st.pc = list(st.pc[:n0]) + [z3.Implies(c, f) for f in st.pc[n0:]]
                v_then = st.vars
                st.vars = dict(base)
                if dead_then:
                    st.heap = heap0
                    st.assume(z3.Not(c))
                    self.exec_block(node.orelse, st)
                    return
                n1 = len(st.pc)
                self.guards.append(z3.Not(c))
                try:
                    self.exec_block(node.orelse, st)
                except PathEnd:
                    dead_else = True
                finally:
                    self.guards.pop()
                if dead_else:
                    st.pc = list(st.pc[:n1])
                    st.assume(c)
                    st.vars = v_then
                    return
                st.pc = list(st.pc[:n1]) + [z3.Implies(z3.Not(c), f) for f in st.pc[n1:]]
                v_else = st.vars
                merged = dict(v_else)
                for k in set(v_then) | set(v_else):
                    a, b = v_then.get(k, base.get(k)), v_else.get(k, base.get(k))
                    if a is b:
                        merged[k] = a
                    elif a is None and k not in v_then:
                        merged[k] = b
                    elif b is None and k not in v_else:
                        merged[k] = a
                    else:
                        merged[k] = self.merge_value(c, a, b, k)
                st.vars = merged
                return
        take = self.decide(c, st, node)
        if take:
            self.exec_block(node.body, st)
        else:
            self.exec_block(node.orelse, st)

    def merge_value(self, c, a, b, name):
        if isinstance(a, Uninit):
            return b
        if isinstance(b, Uninit):
            return a
        if isinstance(a, Ptr) and isinstance(b, Ptr):
            if a.oid == b.oid:
                return Ptr(a.oid, ite(c, a.off, b.off))
            raise Unsupported('conditional assignment of pointers to different objects (%s)' % name)
        return ite(c, a, b)

    def ex_Assign(self, node, st):
        v = self.ev(node.value, st)
        for t in node.targets:
            self.assign(t, v, st, node)

    def ex_AnnAssign(self, node, st):
        if node.value is not None:
            self.assign(node.target, self.ev(node.value, st), st, node)

    def ex_AugAssign(self, node, st):
        load = self.as_load(node.target)
        cur = self.ev(load, st)
        rhs = self.ev(node.value, st)
        v = self.binop(type(node.op), cur, rhs, node, st)
        self.assign(node.target, v, st, node)

    def as_load(self, t):
        import copy
        t2 = copy.copy(t)
        if hasattr(t2, 'ctx'):
            t2.ctx = ast.Load()
        return t2

    def ex_Global(self, node, st):
        raise Unsupported('global statement')

    def ex_Import(self, node, st):
        for a in node.names:
            st.vars[(a.asname or a.name).split('.')[0]] = ModuleV(a.name)

    def ex_With(self, node, st):
        """`with multiprocessing.Pool(...) as p:` -- the only context manager in the verified subset (entering / leaving the
        pool has no effect the functions under contract can observe)."""
        if len(node.items) != 1:
            raise Unsupported('with statement with several items')
        item = node.items[0]
        ctx = self.ev(item.context_expr, st)
        if not isinstance(ctx, PoolV):
            raise Unsupported('with statement over %r' % (ctx,))
        if item.optional_vars is not None:
            self.assign(item.optional_vars, ctx, st, node)
        self.exec_block(node.body, st)

    def ex_Try(self, node, st):
        """`try: import <module> ... except ImportError: ...` -- the import of a standard-library module is assumed to
        succeed (A3), the handler is dropped (stated in the evidence).  Every other try statement is outside the subset."""
        only_import = all(isinstance(b, (ast.Import, ast.ImportFrom)) or
                          (isinstance(b, ast.Expr) and isinstance(b.value, ast.Call)) for b in node.body) and \
            any(isinstance(b, (ast.Import, ast.ImportFrom)) for b in node.body)
        handlers_ok = all(isinstance(h.type, ast.Name) and h.type.id == 'ImportError' for h in node.handlers)
        if not (only_import and handlers_ok and not node.orelse and not node.finalbody):
            raise Unsupported('try statement')
        self.notes.add('dropped: except ImportError handler around the import at line %s (the import is assumed to succeed)'
                       % getattr(node, 'lineno', '?'))
        self.exec_block(node.body, st)

    # ------------------------------------------------------------------ assignment
    def assign(self, t, v, st, node):
        if isinstance(t, ast.Name):
            if self.lang == 'c' and t.id not in st.vars and t.id in getattr(self.frame.finfo.module, 'globals', {}):
                self.oblige('static-write', False, st, node, 'write to file-scope variable %s (not re-entrant)' % t.id)
            st.vars[t.id] = self.coerce_local(t.id, v, st, node)
        elif isinstance(t, (ast.Tuple, ast.List)):
            items = self.concrete_items(v, st) if not isinstance(v, tuple) else list(v)
            if len(items) != len(t.elts):
                self.oblige('unpack', False, st, node, 'unpack %d values into %d targets' % (len(items), len(t.elts)))
                raise PathEnd()
            for e, x in zip(t.elts, items):
                self.assign(e, x, st, node)
        elif isinstance(t, ast.Subscript):
            self.store_subscript(t, v, st, node)
        elif isinstance(t, ast.Attribute):
            base = self.ev(t.value, st)
            self.store_attr(base, t.attr, v, st, node)
        elif isinstance(t, cnodes.CDeref):
            p = self.ev(t.value, st)
            self.ptr_write(p, 0, v, node, st)
        else:
            raise Unsupported('assignment target %s' % type(t).__name__)

    def coerce_local(self, name, v, st, node):
        return v

    def store_attr(self, base, attr, v, st, node):
        if isinstance(base, (Ref, Ptr)):
            if base.oid is None:
                self.oblige('null-deref', False, st, node, 'NULL dereference')
                raise PathEnd()
            obj = st.heap[base.oid]
            if isinstance(obj, RecObj):
                self.frame_write(obj, attr, st, node)
                o2 = obj.clone()
                o2.fields[attr] = self.coerce_field(obj, attr, v, st, node)
                st.heap[base.oid] = o2
                return
        raise Unsupported('attribute store on %r' % type(base))

    def coerce_field(self, obj, attr, v, st, node):
        return v

    def store_subscript(self, t, v, st, node):
        base = self.ev(t.value, st)
        if isinstance(t.slice, ast.Slice) or (isinstance(t.slice, ast.Tuple) and any(
                isinstance(e, ast.Slice) for e in t.slice.elts)):
            return self.store_slice(base, t, v, st, node)
        idx = self.ev(t.slice, st)
        if isinstance(base, TView):
            base = base.ref
            if isinstance(idx, tuple) and len(idx) == 2 and not isinstance(idx[0], Ref):
                idx = (idx[1], idx[0])
            else:
                return self.np_fancy_store(base, idx, v, st, node, transposed=True)
        if isinstance(base, Ptr):
            return self.ptr_write(base, idx, v, node, st)
        if isinstance(base, dict):
            if not isinstance(idx, str):
                raise Unsupported('dict store with non-constant key')
            base[idx] = v
            return
        if not isinstance(base, Ref):
            raise Unsupported('subscript store on %r (line %s)' % (type(base), getattr(node, 'lineno', '?')))
        obj = st.heap[base.oid]
        if not isinstance(obj, ArrObj):
            raise Unsupported('subscript store on record')
        if isinstance(idx, tuple) and any(isinstance(x, (Ref, Seq)) for x in idx):
            return self.np_fancy_store(base, idx, v, st, node)
        self.frame_write(obj, None, st, node)
        st.heap[base.oid] = self.arr_store(obj, idx, v, node, st)

    def elem_coerce(self, obj, v, node, st):
        if obj.kind == 'val':
            v = self.need_num(v, node)
            return v if (isinstance(v, float) and obj.items is not None) else (
                float(v) if concrete(v) and obj.items is not None else vlit(v))
        if obj.kind == 'int':
            v = self.need_num(v, node)
            if is_val(v):
                raise Unsupported('float stored into integer array')
            return v if obj.items is not None else zint(v)
        if obj.kind == 'bool':
            return v if obj.items is not None else zbool(truth(v))
        if obj.kind == 'ipair':
            if isinstance(v, tuple) and len(v) == 2 and all(is_int(x) for x in v):
                return ip_mk(zint(v[0]), zint(v[1]))
            raise Unsupported('a list of index pairs receives something that is not a pair of integers')
        if obj.kind == 'cset':
            if obj.items is not None:
                if not isinstance(v, str):
                    raise Unsupported('non-string stored into a string array')
                return v
            if isinstance(v, str):
                return cs_of(v)
            if is_cset(v):
                return v
            raise Unsupported('non-string stored into a string array')
        return v

    def arr_store(self, obj, idx, v, node, st):
        v = self.elem_coerce(obj, v, node, st)
        if obj.shape is not None:
            if not (isinstance(idx, tuple) and len(idx) == 2):
                raise Unsupported('2-D store needs a pair index')
            i = self.norm_index(idx[0], obj.shape[0], node, st, 'row index')
            j = self.norm_index(idx[1], obj.shape[1], node, st, 'column index')
            if obj.items is not None:
                if is_cint(i) and is_cint(j):
                    o2 = obj.clone()
                    o2.items = [list(r) for r in obj.items]
                    o2.items[i][j] = v
                    return o2
                raise Unsupported('symbolic index into concrete 2-D array')
            return obj.clone(arr=sto2(obj.arr, zint(i), zint(j), v))
        k = self.norm_index(idx, obj.length, node, st)
        if obj.items is not None:
            o2 = obj.clone()
            if is_cint(k):
                o2.items[k] = v
            else:
                o2.items = [ite(zint(k) == q, v, x) for q, x in enumerate(obj.items)]
            return o2
        return obj.clone(arr=z3.Store(obj.arr, zint(k), v))

    def frame_write(self, obj, field, st, node):
        """C20 / frame conditions: a write to an object the caller handed in must be listed in
        the contract's `assigns`."""
        self.stores_seen = getattr(self, 'stores_seen', 0) + 1
        if obj.origin != 'param' or self.spec_mode or self.frames[0].contract is None:
            return
        allowed = self.contract_assigns()
        key = obj.name if field is None else '%s.%s' % (obj.name, field)
        if key in allowed or obj.name in allowed:
            return
        self.oblige('frame', False, st, node, 'write to caller-owned %s not in assigns' % key)

    # ------------------------------------------------------------------ loops
    def loop_ordinal(self, node):
        try:
            return self.loops.index(node)
        except ValueError:
            raise Unsupported('loop not found in function')

    def ex_While(self, node, st):
        if node.orelse:
            raise Unsupported('while-else')
        self.run_loop(node, st, cond=lambda s: truth(self.ev(node.test, s)),
                      pre_body=None, body=node.body, step=None, extra_inv=[], alias={})

    def ex_CFor(self, node, st):
        for s in node.init:
            self.exec_stmt(s, st)
        cond = (lambda s: True) if node.test is None else (lambda s: truth(self.ev(node.test, s)))

        def step(s):
            for x in node.step:
                self.exec_stmt(x, s)
        self.run_loop(node, st, cond=cond, pre_body=None, body=node.body, step=step, extra_inv=[], alias={})

    def ex_For(self, node, st):
        if node.orelse:
            raise Unsupported('for-else')
        k = self.loop_ordinal(node)
        itname = '__it%d' % k
        view = self.iter_view(node.iter, st, node)
        lo, hi, getter = view
        st.vars[itname] = lo
        hi_c = hi

        def cond(s):
            return compare('<', s.vars[itname], hi_c)

        def pre_body(s):
            cur = s.vars[itname]
            self.assign(node.target, getter(cur, s), s, node)
            s.vars[itname] = cur + 1 if is_cint(cur) else zint(cur) + 1
        extra = []
        if not (is_cint(lo) and is_cint(hi)) or self.mode == 'vc':
            extra = [lambda s: compare('<=', lo, s.vars[itname]),
                     lambda s: b_or(compare('<=', s.vars[itname], hi_c), compare('<=', s.vars[itname], lo))]
        alias = {'_it': itname}
        if isinstance(node.target, ast.Name):
            alias[node.target.id] = itname
        self.run_loop(node, st, cond=cond, pre_body=pre_body, body=node.body, step=None,
                      extra_inv=extra, alias=alias, hidden=[itname])

    def iter_view(self, it, st, node):
        """(lo, hi, getter(k, state)) for the iterable of a for loop."""
        if isinstance(it, ast.Call) and isinstance(it.func, ast.Name) and it.func.id == 'range' \
                and 'range' not in st.vars:
            args = [self.need_num(self.ev(a, st), node) for a in it.args]
            if len(args) == 1:
                return 0, args[0], lambda k, s: k
            if len(args) == 2:
                return args[0], args[1], lambda k, s: k
            raise Unsupported('range with step')
        if isinstance(it, ast.Call) and isinstance(it.func, ast.Name) and it.func.id == 'zip':
            if len(it.args) == 1 and isinstance(it.args[0], ast.Starred):
                seqs = [self.seq_of(x, st, node) for x in self.concrete_items(self.ev(it.args[0].value, st), st)]
            else:
                seqs = [self.seq_of(self.ev(a, st), st, node) for a in it.args]
            n = seqs[0].length
            for q in seqs[1:]:
                n = vmin2(n, q.length)
            return 0, n, lambda k, s: tuple(q.get(k) for q in seqs)
        if isinstance(it, ast.Call) and isinstance(it.func, ast.Name) and it.func.id == 'enumerate':
            q = self.seq_of(self.ev(it.args[0], st), st, node)
            return 0, q.length, lambda k, s: (k, q.get(k))
        v = self.ev(it, st)
        if isinstance(v, FuncV) and v.name == 'rangeobj':
            lo, hi = v.bound
            return lo, hi, lambda k, s: k
        q = self.seq_of(v, st, node)
        return 0, q.length, lambda k, s: q.get(k)

    def seq_of(self, v, st, node):
        """Snapshot of an iterable as a Seq (Python iterates lists live; the functions under
        contract do not mutate what they iterate, checked by `frame`/havoc analysis)."""
        if isinstance(v, Seq):
            return v
        if isinstance(v, tuple) and len(v) == 2 and isinstance(v[0], Seq):
            return v[0]
        if isinstance(v, (tuple, list)):
            items = list(v)
            return Seq(lambda k: self.pick(items, k), len(items), 'any', items=items)
        if isinstance(v, Ref):
            obj = st.heap[v.oid]
            if isinstance(obj, ArrObj) and obj.shape is None:
                if obj.items is not None:
                    items = list(obj.items)
                    return Seq(lambda k: self.pick(items, k), len(items), obj.kind, items=items)
                arr = obj.arr
                if obj.kind == 'rows':
                    return Seq(lambda k: self.row_ref(obj, k, st), obj.length, 'rows')
                return Seq(lambda k: z3.Select(arr, zint(k)), obj.length, obj.kind)
            if isinstance(obj, RecObj):
                h = self.rec_iter(obj, v, st, node)
                if h is not NotImplemented:
                    return h
        raise Unsupported('iteration over %r (line %s)' % (type(v), getattr(node, 'lineno', '?')))

    def run_loop(self, node, st, cond, pre_body, body, step, extra_inv, alias, hidden=()):
        k = self.loop_ordinal(node)
        if self.mode == 'run':
            return self.run_loop_concrete(node, st, cond, pre_body, body, step)
        spec = self.contract_loop(k, node)
        invs = list(spec.get('inv', []))
        self.prepare_loop_objects(node, st, hidden)
        # ---- invariant on entry
        for n_, f in enumerate(extra_inv):
            self.oblige('inv-entry', f(st), st, node, 'loop %d: iterator bounds' % k, detail='L%d.auto%d' % (k, n_))
        for n_, text in enumerate(invs):
            self.oblige('inv-entry', self.spec_or_false(text, st, alias), st, node,
                        'loop %d invariant holds on entry: %s' % (k, text), detail='L%d.%d' % (k, n_))
        # ---- havoc
        octx = getattr(self, 'omp_ctx', None)
        if octx and octx['loop'] is node:
            octx['mark'] = len(st.pc)
            octx['heap0'] = set(st.heap)
        self.havoc_loop(node, st, hidden)
        if octx and octx['loop'] is node:
            octx['loopvar'] = zint(st.vars[octx['varname']])
        # ---- assume
        for f in extra_inv:
            st.assume(zbool(f(st)))
        for text in invs:
            st.assume(zbool(self.eval_spec(text, st, alias)))
        var0 = None
        if spec.get('variant') is not None:
            var0 = self.eval_spec(spec['variant'], st, alias)
        c = cond(st)
        iterate = self.decide(c, st, node, tag='loop%d' % k)
        if not iterate:
            return
        try:
            if pre_body:
                pre_body(st)
            self.exec_block(body, st)
        except _Continue:
            pass
        except _Break:
            return
        if step:
            step(st)
        for n_, f in enumerate(extra_inv):
            self.oblige('inv-preserved', f(st), st, node, 'loop %d: iterator bounds' % k, detail='L%d.auto%d' % (k, n_))
        for n_, text in enumerate(invs):
            self.oblige('inv-preserved', self.spec_or_false(text, st, alias), st, node,
                        'loop %d invariant preserved: %s' % (k, text), detail='L%d.%d' % (k, n_))
        if var0 is not None:
            var1 = self.eval_spec(spec['variant'], st, alias)
            self.oblige('variant', b_and(compare('>=', var0, 0), compare('<', var1, var0)), st, node,
                        'loop %d variant %s decreases and is bounded below' % (k, spec['variant']), detail='L%d' % k)
        elif not hidden:
            self.notes.add('loop %d of %s: termination not proved (no variant)' % (k, self.fname))
        raise PathEnd()

    def run_loop_concrete(self, node, st, cond, pre_body, body, step):
        n = 0
        while True:
            c = cond(st)
            if not self.decide(c, st, node, tag='iter'):
                return
            n += 1
            if n > self.max_iter:
                raise Unsupported('iteration cap exceeded in run mode')
            try:
                if pre_body:
                    pre_body(st)
                self.exec_block(body, st)
            except _Continue:
                pass
            except _Break:
                return
            if step:
                step(st)

    def spec_or_false(self, text, st, alias):
        """an invariant must be defined wherever it is to be proved: where it reads something that does not exist on this path
        (e.g. the first element of a list that is empty here) the obligation is False, provable only if the path is infeasible"""
        try:
            return self.eval_spec(text, st, alias)
        except CannotBind as e_:
            if 'undefined in the current state' not in str(e_):
                raise
            return z3.BoolVal(False)

    def prepare_loop_objects(self, node, st, hidden):
        """Before a loop is cut: objects the loop writes get their declared element kind
        (contract `kinds`) and a symbolic (array, length) representation."""
        m = Modified()
        for s in node.body:
            m.visit(s)
        c = self.frame.contract
        kinds = getattr(c, 'kinds', None) or {}
        for n in m.stored:
            v = self.resolve_store_name(n, st) if n != '?' else None
            if not isinstance(v, Ref):
                continue
            obj = st.heap[v.oid]
            if not isinstance(obj, ArrObj) or obj.items is None or obj.shape is not None:
                continue
            kind = kinds.get(n, obj.kind)
            if kind not in ('int', 'val', 'bool', 'ipair'):
                raise Unsupported('list %s written in a loop needs an element kind (contract kinds=...)' % n)
            o2 = obj.clone(kind=kind)
            o2.arr = self.materialize(o2)
            o2.length = len(obj.items)
            o2.items = None
            st.heap[v.oid] = o2
        for n, kind in kinds.items():
            if n in m.names and n in st.vars and kind == 'val' and is_int(st.vars[n]):
                st.vars[n] = vlit(st.vars[n])

    def havoc_loop(self, node, st, hidden):
        m = Modified()
        for s in node.body:
            m.visit(s)
        if isinstance(node, cnodes.CFor):
            for s in node.step:
                m.visit(s)
        if isinstance(node, ast.For):
            m.target(node.target)
        for h in hidden:
            m.names.add(h)
        self.apply_havoc(m, st, node)

    def apply_havoc(self, m, st, node):
        if '?' in m.stored:
            raise Unsupported('loop writes through an expression the frame analysis cannot name (line %s)'
                              % getattr(node, 'lineno', '?'))
        # callee effects
        for call in m.calls:
            for nm in self.call_assigned_names(call, st):
                m.stored.add(nm)
        objs = set()
        for n in m.stored:
            v = self.resolve_store_name(n, st)
            if v is None:
                continue
            if isinstance(v, (Ref, Ptr)) and v.oid is not None:
                objs.add(v.oid)
        for n in m.derefs:
            v = st.vars.get(n)
            if isinstance(v, Ptr) and v.oid is not None:
                objs.add(v.oid)
        for oid in objs:
            o = st.heap[oid]
            if isinstance(o, ArrObj) and o.pykind == 'cbox':
                o2 = o.clone()
                o2.items = [self.havoc_value(o2.items[0], (o.name or oid) + '_cell', st)]
                st.heap[oid] = o2
            else:
                st.heap[oid] = self.havoc_obj(o, oid)
        for (n, a) in m.attrs:
            v = st.vars.get(n)
            if isinstance(v, (Ref, Ptr)) and v.oid is not None and isinstance(st.heap[v.oid], RecObj):
                o2 = st.heap[v.oid].clone()
                if a in o2.fields:
                    o2.fields[a] = self.havoc_value(o2.fields[a], '%s.%s' % (n, a), st)
                st.heap[v.oid] = o2
        for n in sorted(m.names):
            if n in st.vars:
                st.vars[n] = self.havoc_value(st.vars[n], n, st)

    def resolve_store_name(self, n, st):
        if n.startswith('*'):
            p = st.vars.get(n[1:])
            if isinstance(p, Ptr) and p.oid is not None:
                obj = st.heap[p.oid]
                if isinstance(obj, ArrObj) and obj.items is not None and len(obj.items) == 1:
                    return obj.items[0]
            return None
        if '.' in n:
            a, b = n.split('.', 1)
            v = st.vars.get(a)
            if isinstance(v, (Ref, Ptr)) and v.oid is not None and isinstance(st.heap[v.oid], RecObj):
                return st.heap[v.oid].fields.get(b)
            return None
        return st.vars.get(n)

    def havoc_obj(self, obj, oid):
        if isinstance(obj, RecObj):
            return obj
        if obj.kind not in ('int', 'val', 'bool', 'cset', 'ipair'):
            if obj.items is not None and not obj.items:
                raise Unsupported('loop appends to an empty list of unknown element kind '
                                  '(declare the kind in the contract: ghost kinds)')
            raise Unsupported('havoc of array with element kind %s' % obj.kind)
        es = kind_sort(obj.kind)
        if obj.shape is not None:
            arr = fresh('hv_' + (obj.name or oid), arr2sort(es))
            return obj.clone(arr=arr, items=None)
        arr = fresh('hv_' + (obj.name or oid), z3.ArraySort(IntS, es))
        growable = obj.pykind == 'list'
        if growable:
            n = fresh('hvlen_' + (obj.name or oid), IntS)
            self.cur_state.assume(n >= 0)
            return obj.clone(arr=arr, items=None, length=n)
        return obj.clone(arr=arr, items=None, length=obj.length)

    def havoc_value(self, v, name, st):
        if v is None or isinstance(v, (Ref, FuncV, ModuleV, str, dict)):
            return v
        if isinstance(v, Ptr):
            if v.oid is None:
                return v
            return Ptr(v.oid, fresh('hv_' + name + '_off', IntS))
        if isinstance(v, Uninit):
            from .exec_c import INT_TYPES, FLOAT_TYPES, base_ctype, is_ptr_type
            t = base_ctype(self.ctype_of(v.name) or 'idx_t')
            if is_ptr_type(t):
                return Ptr(None, 0)
            if t in FLOAT_TYPES:
                return fresh('hv_' + name, Val)
            x = fresh('hv_' + name, IntS)
            st.assume(z3.And(x >= -2 ** 63, x <= 2 ** 63 - 1))
            return x
        if isinstance(v, tuple):
            return tuple(self.havoc_value(x, '%s_%d' % (name, i), st) for i, x in enumerate(v))
        if isinstance(v, Opt):
            return Opt(fresh('hv_' + name + '_isnone', BoolS),
                       None if v.v is None else self.havoc_value(v.v, name, st))
        if isinstance(v, Seq):
            raise Unsupported('loop modifies a sequence snapshot variable %s' % name)
        if is_bool(v):
            return fresh('hv_' + name, BoolS)
        if is_int(v):
            x = fresh('hv_' + name, IntS)
            return x
        if is_val(v):
            return fresh('hv_' + name, Val)
        if is_real(v):
            return fresh('hv_' + name, RealS)
        raise Unsupported('havoc of %r' % type(v))
