"""Replay against the real C code: the engine sources of /repo's working tree are compiled by gcc with
-fsanitize=address,undefined into a throw-away shared object (under a mkdtemp directory outside
/repo and /verif, removed at exit) and called through ctypes with exactly-sized heap buffers."""
import atexit
import json
import os
import shutil
import subprocess
import sys
import tempfile
import z3
from .replay import definite
from .state import CannotBind
from .vals import *
from .ops import truth
from .state import State, Unsupported, PathEnd
from .executor import Exec, Frame
from .contracts import CONTRACTS, SPECS
from .program import CDIR
from . import cfront

RUNNER = os.path.join(os.path.dirname(os.path.abspath(__file__)), 'c_runner.py')
_SO = {}
_TMP = []


def _cleanup():
    for d in _TMP:
        shutil.rmtree(d, ignore_errors=True)


atexit.register(_cleanup)


def build_so(program):
    key = program.repo
    if key in _SO:
        return _SO[key]
    d = tempfile.mkdtemp(prefix='dvc_cbuild_')
    _TMP.append(d)
    cdir = os.path.join(program.repo, CDIR)
    so = os.path.join(d, 'libdd_san.so')
    srcs = [os.path.join(cdir, f) for f in ('dd_dtw.c', 'dd_ed.c', 'dd_dtw_openmp.c', 'dd_globals.c')
            if os.path.exists(os.path.join(cdir, f))]
    # -DNDEBUG: as in the production build (distutils passes it), assert() is compiled out; the
    # verifier *proves* the asserts instead (C08)
    cmd = ['gcc', '-shared', '-fPIC', '-g', '-O1', '-DNDEBUG', '-fopenmp', '-fsanitize=address,undefined',
           '-fno-sanitize-recover=all', '-fno-omit-frame-pointer', '-I' + cdir, '-o', so] + srcs + ['-lm']
    p = subprocess.run(cmd, capture_output=True, text=True, timeout=600)
    if p.returncode != 0:
        raise RuntimeError('sanitizer build failed: %s' % p.stderr[-2000:])
    _SO[key] = so
    return so


def signature(program, cname):
    finfo = program.function(cname)
    node = finfo.node
    params = [(a.arg, node.ctypes[a.arg]) for a in node.args.args]
    return finfo, params, node.rettype


def native_c_batch(program, calls, timeout=300):
    """calls: list of (cname, args[, id]); later calls may pass {'ref': [id, param]} to receive the contents
    an earlier call left in one of its buffers.  Returns outcomes; after a sanitizer abort the remaining
    calls of the batch are marked skipped (chains would be broken)."""
    so = build_so(program)
    structs = None
    reqs = []
    for item in calls:
        cname, args = item[0], item[1]
        finfo, params, ret = signature(program, cname)
        if structs is None:
            structs = {n: f for n, f in program.structs.items() if not n.startswith('struct ') and all(
                t.replace('const ', '').strip() in ('idx_t', 'seq_t', 'bool', 'int', 'double', '_Bool') for _, t in f)}
        d = dict(func=cname.split('::')[1].split('#')[0], ret=ret, params=params, args=args)
        if len(item) > 2:
            d['id'] = item[2]
        reqs.append(d)
    env = dict(os.environ)
    env['LD_PRELOAD'] = subprocess.run(['gcc', '-print-file-name=libasan.so'], capture_output=True, text=True).stdout.strip()
    env['ASAN_OPTIONS'] = 'detect_leaks=0:abort_on_error=0:halt_on_error=1'
    env['UBSAN_OPTIONS'] = 'print_stacktrace=1:halt_on_error=1'
    req = json.dumps(dict(so=so, structs=structs, calls=reqs))
    try:
        p = subprocess.run([sys.executable, RUNNER], input=req, capture_output=True, text=True, timeout=timeout, env=env)
        stdout, stderr, rc = p.stdout, p.stderr, p.returncode
    except subprocess.TimeoutExpired as e:
        stdout, stderr, rc = (e.stdout or b'').decode() if isinstance(e.stdout, bytes) else (e.stdout or ''), 'timeout', -9
    outs = [None] * len(reqs)
    cur = None
    for line in stdout.splitlines():
        if line.startswith('@@ '):
            cur = int(line[3:])
        elif line.startswith('## '):
            outs[cur] = json.loads(line[3:])
            cur = None
    if cur is not None:
        msg = [l for l in stderr.splitlines() if 'ERROR' in l or 'runtime error' in l or 'SUMMARY' in l][:4]
        if not msg and 'Traceback (most recent call last)' in stderr:
            # the harness itself failed (bad request): a checker error, never a verdict about the C code
            raise RuntimeError('C runner harness error in call %d: %s' % (cur, stderr[-400:]))
        outs[cur] = dict(ok=False, exc='sanitizer: ' + (' | '.join(msg) or stderr[-300:] or 'rc=%s' % rc))
    elif rc != 0 and not any(outs):
        raise RuntimeError('C runner failed: %s' % stderr[-500:])
    return outs


def native_c_calls(program, cname, arglist, timeout=120):
    """Run the real function on each args dict; returns outcomes (same order)."""
    so = build_so(program)
    finfo, params, ret = signature(program, cname)
    fn = cname.split('::')[1].split('#')[0]
    structs = {n: f for n, f in program.structs.items() if not n.startswith('struct ') and all(
        t.replace('const ', '').strip() in ('idx_t', 'seq_t', 'bool', 'int', 'double', '_Bool') for _, t in f)}
    outs = [None] * len(arglist)
    start = 0
    env = dict(os.environ)
    env['LD_PRELOAD'] = subprocess.run(['gcc', '-print-file-name=libasan.so'], capture_output=True, text=True).stdout.strip()
    env['ASAN_OPTIONS'] = 'detect_leaks=0:abort_on_error=0:halt_on_error=1'
    env['UBSAN_OPTIONS'] = 'print_stacktrace=1:halt_on_error=1'
    env['OMP_NUM_THREADS'] = env.get('OMP_NUM_THREADS', '4')
    while start < len(arglist):
        calls = [dict(func=fn, ret=ret, params=params, args=a) for a in arglist[start:]]
        req = json.dumps(dict(so=so, structs=structs, calls=calls))
        try:
            p = subprocess.run([sys.executable, RUNNER], input=req, capture_output=True, text=True, timeout=timeout, env=env)
            stdout, stderr, rc = p.stdout, p.stderr, p.returncode
        except subprocess.TimeoutExpired as e:
            stdout, stderr, rc = (e.stdout or b'').decode() if isinstance(e.stdout, bytes) else (e.stdout or ''), 'timeout', -9
        cur = None
        done = 0
        for line in stdout.splitlines():
            if line.startswith('@@ '):
                cur = int(line[3:])
            elif line.startswith('## '):
                outs[start + cur] = json.loads(line[3:])
                done = cur + 1
                cur = None
        if cur is not None:
            # the process died inside call `cur`
            msg = [l for l in stderr.splitlines() if 'ERROR' in l or 'runtime error' in l or 'SUMMARY' in l][:4]
            if not msg and 'Traceback (most recent call last)' in stderr:
                raise RuntimeError('C runner harness error in call %d: %s' % (start + cur, stderr[-400:]))
            outs[start + cur] = dict(ok=False, exc='sanitizer: ' + (' | '.join(msg) or stderr[-300:] or 'rc=%s' % rc))
            start = start + cur + 1
        elif rc != 0 and done < len(calls):
            outs[start + done] = dict(ok=False, exc='runner failed rc=%s: %s' % (rc, stderr[-300:]))
            start = start + done + 1
        else:
            break
    return outs


# ------------------------------------------------------------------ value conversion
def c_from_json(v, ctype, st, name, origin='param'):
    t = ctype.replace('const ', '').strip()
    if isinstance(v, dict) and 'f' in v:
        return float.fromhex(v['f']) if isinstance(v['f'], str) else float(v['f'])
    if v is None:
        return Ptr(None, 0)
    if isinstance(v, dict) and 'buf' in v:
        kind = 'val' if v.get('elem', 'double') == 'double' else 'int'
        items = [(float.fromhex(x['f']) if isinstance(x, dict) else (float(x) if kind == 'val' else int(x))) for x in v['buf']]
        oid = st.new_oid('C')
        st.heap[oid] = ArrObj(kind, items=items, length=len(items), origin=origin, name=name, pykind='cblock')
        return Ptr(oid, v.get('off', 0))
    if isinstance(v, dict) and 'bufs' in v:
        rows = []
        for k, b in enumerate(v['bufs']):
            rows.append(c_from_json({'buf': b}, 'seq_t *', st, '%s[%d]' % (name, k), origin))
        oid = st.new_oid('C')
        st.heap[oid] = ArrObj('any', items=rows, length=len(rows), origin=origin, name=name, pykind='cblock')
        return Ptr(oid, 0)
    if isinstance(v, dict) and 'struct' in v:
        fields = {}
        for f, x in v['struct'].items():
            fields[f] = (float.fromhex(x['f']) if isinstance(x, dict) else x)
        oid = st.new_oid('C')
        st.heap[oid] = RecObj(t.rstrip('*').strip(), fields, origin=origin, name=name)
        return Ptr(oid, 0)
    if t in ('seq_t', 'double') and not isinstance(v, float):
        return float(v)
    return v


class CChecker:
    def __init__(self, program, cname):
        self.program = program
        self.c = CONTRACTS[cname]
        self.finfo, self.params, self.ret = signature(program, cname)

    def _exec(self):
        ex = Exec(self.program, 'run')
        ex.concrete_spec = True
        ex.frames = [Frame(self.finfo, self.c)]
        ex.frame.ghost = {}
        ex.forced, ex.taken, ex.dpos, ex.run_checks = [], [], 0, []
        ex.quant_range = (-1, 14)
        return ex

    def state(self, jargs):
        st = State()
        args = {n: c_from_json(jargs[n], t, st, n) for n, t in self.params}
        st.vars = dict(args)
        st.old_vars = dict(args)
        st.old_heap = dict(st.heap)
        return st

    def holds(self, ex, text, st, env=None, old=None):
        try:
            v = truth(ex.eval_spec(text, st, env=env, old_state=old))
        except PathEnd:
            return False
        except Exception as e:      # noqa: name the clause that cannot be evaluated (checker error, never a verdict)
            raise CannotBind('clause %r cannot be evaluated concretely: %r' % (text, e))
        if isinstance(v, bool):
            return v
        v = z3.simplify(v)
        if z3.is_true(v):
            return True
        if z3.is_false(v):
            return False
        if getattr(self, 'strict3', False):
            raise Unsupported('residual term (a spec function without a concrete evaluator)')
        return False

    def check_requires(self, jargs):
        ex = self._exec()
        st = self.state(jargs)
        self.strict3 = False
        try:
            for g, text in self.c.bind.items():
                ex.frame.ghost[g] = ex.eval_spec(text, st)
            return all(self.holds(ex, r, st) for r in self.c.requires)
        except (Unsupported, IndexError, KeyError, TypeError):
            return False

    def check_ensures(self, jargs, outcome):
        if not outcome.get('ok'):
            return ['undefined behaviour / crash: %s' % outcome.get('exc')]
        self.strict3 = True
        ex = self._exec()
        st = self.state(jargs)
        for g, text in self.c.bind.items():
            ex.frame.ghost[g] = ex.eval_spec(text, st)
        old = State()
        old.vars = dict(st.vars)
        old.heap = dict(st.heap)
        post = st.fork()
        for n, t in self.params:
            if n in outcome.get('args_after', {}):
                # same object ids, new contents
                newv = c_from_json(outcome['args_after'][n], t, post, n)
                oldv = st.vars[n]
                if isinstance(oldv, Ptr) and oldv.oid is not None and isinstance(newv, Ptr):
                    post.heap[oldv.oid] = post.heap[newv.oid]
                    if isinstance(post.heap[oldv.oid], ArrObj) and post.heap[oldv.oid].kind == 'any':
                        # pointer tables: keep the original row objects but refresh their contents
                        rows_old = st.heap[oldv.oid].items
                        rows_new = post.heap[newv.oid].items
                        for a, b in zip(rows_old, rows_new):
                            post.heap[a.oid] = post.heap[b.oid]
                        post.heap[oldv.oid] = st.heap[oldv.oid]
        res = outcome.get('result')
        if isinstance(res, dict) and 'f' in res:
            res = float.fromhex(res['f'])
        elif isinstance(res, dict) and 'struct' in res:
            # a struct returned by value: a record in the post-state, so that `result.field` evaluates
            rp = c_from_json(res, (self.ret or 'struct').strip(), post, 'result', origin='local')
            res = Ref(rp.oid)
        bad = []
        for text in self.c.ensures:
            try:
                if not self.holds(ex, text, post, env={'result': res, '__exc__': None}, old=old):
                    bad.append(text)
            except Unsupported as e:
                bad.append('cannot evaluate %r concretely: %s' % (text, e))
        # frame: buffers not listed in assigns must be unchanged
        for n, t in self.params:
            if n in self.c.assigns or any(a.startswith(n + '.') for a in self.c.assigns):
                continue
            a = outcome.get('args_after', {}).get(n)
            if a is not None and _content(a) != _content(jargs[n]):
                bad.append('frame: %s modified' % n)
        return bad


def _content(v):
    if isinstance(v, dict):
        for k in ('buf', 'bufs', 'struct'):
            if k in v:
                return json.dumps(v[k], sort_keys=True)
    return json.dumps(v, sort_keys=True)


def witness_search(run, cname, cfg, candidate_text, limit):
    c = CONTRACTS[cname]
    gen = c.replay
    if gen is None:
        return None, None, None, 0
    chk = CChecker(run.program, cname)
    n_try = min(limit, 300 if run.tier == 'quick' else 3000)
    batch = []
    for jargs in gen(run.rng, n_try):
        if chk.check_requires(jargs):
            batch.append(jargs)
    seen = 0
    for i in range(0, len(batch), 100):
        part = batch[i:i + 100]
        outs = native_c_calls(run.program, cname, part)
        for jargs, o in zip(part, outs):
            if o is None:
                continue
            seen += 1
            bad = definite(chk.check_ensures(jargs, o))
            if bad:
                return jargs, o, bad, seen
    return None, None, None, seen


def replay_file(run, rec):
    cname = rec['function']
    o = native_c_calls(run.program, cname, [rec['failing_input']])[0]
    bad = definite(CChecker(run.program, cname).check_ensures(rec['failing_input'], o))
    print('function %s\ninput %s\nnative outcome %s\nviolated: %s' % (cname, json.dumps(rec['failing_input']), json.dumps(o), bad))
    return 1 if bad else 0


def replay_witness(run, k):
    w = k['witness']
    o = native_c_calls(run.program, w['function'], [w['args']])[0]
    return bool(definite(CChecker(run.program, w.get('contract', w['function'])).check_ensures(w['args'], o)))
