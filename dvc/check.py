"""Per-property check:  python3-vt -m dvc.check <ID> [--tier quick|thorough] [--replay file]

exit 0  every obligation generated from /repo's working tree is discharged (known findings printed)
exit 1  a violation: `VIOLATION property=<id> replay=<path>` (ends with no-failing-input-found
        when no concrete input could be replayed against the real code)
exit 2  undecided (solver timeout / unknown on some obligation) -- never reported as a violation
exit 3  checker error (contract cannot bind, construct outside the subset, translation-validation
        mismatch, self-test mutation survived, zero obligations)
"""
import sys
import os
import json
import time
import random
import re
import traceback
import importlib

HERE = os.path.dirname(os.path.dirname(os.path.abspath(__file__)))
# where evidence/ and replays/ are written: /verif itself, except for development runs against a scratch tree (DVC_REPO)
OUT = os.environ.get('DVC_OUT', HERE)
sys.path.insert(0, HERE)

from dvc.program import Program, REPO      # noqa: E402
from dvc.state import Unsupported, CannotBind   # noqa: E402
from dvc.contracts import CONTRACTS, LEMMAS     # noqa: E402
from dvc import verify, solve, replay       # noqa: E402


def sanitize(name):
    return re.sub(r'[^A-Za-z0-9_.+-]+', '_', name)[:150]


class Run:
    def __init__(self, prop, tier, seed):
        self.prop = prop
        self.tier = tier
        self.seed = seed
        self.t0 = time.time()
        self.program = Program(REPO)
        self.violations = []
        self.known_printed = []
        self.undecided = []
        self.errors = []
        self.evidence_extra = {}
        self.rng = random.Random(seed)

    # ------------------------------------------------------------------ evidence
    def write_evidence(self, cfg, obligations, results, reports, bounded, tv, selftests, status):
        funcs = {}
        for rep in reports:
            funcs[rep.name] = dict(paths=rep.paths, obligations=len(rep.obligations), status='proved',
                                   cases=[c for c, _ in rep.cases])
            la, lh = getattr(rep, 'lines_all', set()), getattr(rep, 'lines_hit', set())
            if la:
                # statements of the function that no explored path executed: excluded by the precondition / the contract
                # cases, dead -- or a path the engine lost (every entry deserves a look)
                funcs[rep.name]['statements'] = len(la)
                funcs[rep.name]['statements_not_executed_at_lines'] = sorted(la - lh)
        backends = {}
        solver_time = 0.0
        samples = []
        nd = 0
        for ob, r in zip(obligations, results):
            backends[r['backend']] = backends.get(r['backend'], 0) + 1
            solver_time += r['time']
            if r['status'] == 'proved':
                nd += 1
            else:
                f = ob.func
                if f in funcs:
                    funcs[f]['status'] = 'not proved'
            kinds_seen = getattr(self, '_kinds_seen', None)
            if kinds_seen is None:
                kinds_seen = self._kinds_seen = {}
            if (r['status'] != 'proved' and len(samples) < 40) or kinds_seen.get(ob.kind, 0) < 2:
                kinds_seen[ob.kind] = kinds_seen.get(ob.kind, 0) + 1
                samples.append(dict(obligation=ob.name, kind=ob.kind, status=r['status'], backend=r['backend'],
                                    time_s=round(r['time'], 3), what=ob.note[:200]))
        notes = set()
        for rep in reports:
            notes |= rep.notes
        ev = dict(
            property_id=self.prop, tier=self.tier, seed=self.seed,
            level=cfg.get('level', 'proof'),
            coverage=dict(
                obligations=len(obligations), discharged=nd,
                checker_cmd='python3-vt -m dvc.check %s --tier %s' % (self.prop, self.tier),
                trusted_base=cfg.get('trusted_base', []) + sorted(notes),
                functions_under_contract=funcs,
                lemmas={ln: dict(doc=LEMMAS[ln].doc, proof='z3 induction schema' if LEMMAS[ln].lean is None else 'Lean: ' + LEMMAS[ln].lean)
                        for ln in cfg.get('lemmas', [])},
                backends=backends, solver_time_s=round(solver_time, 2),
                obligations_by_kind=self.by_kind(obligations, results),
                samples=samples,
                files_read=sorted(self.program.files_read),
                bounded=bounded, translation_validation=tv, selftest=selftests,
                known_findings=self.known_printed,
                undecided=self.undecided, errors=self.errors,
                not_decided_clauses=cfg.get('not_decided', []),
                status=status,
            ),
            assumptions=cfg.get('assumptions', []),
            wall_s=round(time.time() - self.t0, 2),
            violations=len(self.violations),
        )
        ev['coverage'].update(self.evidence_extra)
        if ev['level'] == 'exploration':
            # exploration-level evidence: the counts of the bounded stand-ins are the coverage
            tot_e, tot_d, samples2, rules = 0, 0, [], []
            for name, b in (bounded or {}).items():
                tot_e += b.get('evaluations', 0)
                tot_d += b.get('distinct_nontrivial', 0)
                samples2 += b.get('samples', [])[:3]
                rules.append('%s: %s' % (name, b.get('rule', '')))
            ev['coverage']['evaluations'] = tot_e
            ev['coverage']['distinct_nontrivial'] = tot_d
            ev['coverage']['rule'] = ' | '.join(rules)
            ev['coverage']['samples'] = samples2 or ev['coverage'].get('samples', [])
        os.makedirs(os.path.join(OUT, 'evidence'), exist_ok=True)
        with open(os.path.join(OUT, 'evidence', '%s.json' % self.prop), 'w') as f:
            json.dump(ev, f, indent=1, default=str)

    def by_kind(self, obligations, results):
        d = {}
        for ob, r in zip(obligations, results):
            e = d.setdefault(ob.kind, dict(total=0, proved=0))
            e['total'] += 1
            e['proved'] += r['status'] == 'proved'
        return d

    # ------------------------------------------------------------------ replay files
    def write_replay(self, obname, payload):
        d = os.path.join(OUT, 'replays', self.prop)
        os.makedirs(d, exist_ok=True)
        payload = dict(payload)
        payload.setdefault('seed', self.seed)
        payload.setdefault('tier', self.tier)
        path = os.path.join(d, sanitize(obname) + '.json')
        with open(path, 'w') as f:
            json.dump(payload, f, indent=1, default=str)
        return os.path.relpath(path, HERE)


def _psi4(case):
    p = case.get('psi') if isinstance(case, dict) else None
    if p is None:
        return (0, 0, 0, 0)
    if isinstance(p, int):
        return (p,) * 4
    return tuple(p)


def load_known():
    p = os.path.join(HERE, 'known_findings.json')
    if not os.path.exists(p):
        return []
    return json.load(open(p)).get('findings', [])


def witness_search(run, cname, cfg, candidate_text, limit):
    """Search a concrete input on which the real function violates its contract.
    Returns (jargs, outcome, violated) or None."""
    c = CONTRACTS[cname]
    if c.lang != 'py':
        from dvc import creplay
        return creplay.witness_search(run, cname, cfg, candidate_text, limit)
    chk = replay.ConcreteChecker(run.program, cname)
    bound = 3 if run.tier == 'quick' else 4
    seen = 0
    want = set(getattr(run, 'failing_cases', {}).get(cname, ()))
    cases = list(c.cases or [dict(label='')])
    cases.sort(key=lambda k: 0 if k.get('label') in want else 1)      # the cases of the failed obligations first
    model = _model_values(candidate_text)
    for case in cases:
        batch = []
        gen = replay.enumerate_inputs(c, case, run.rng, bound, limit)
        if case.get('label') in want and model:
            gen = _seeded(c, case, model, gen)
        for jargs in gen:
            try:
                if not chk.check_requires(jargs, case):
                    continue
            except Unsupported:
                continue
            batch.append(jargs)
        for i in range(0, len(batch), 400):
            part = batch[i:i + 400]
            outs = replay.native_calls(run.program.native_root(), [dict(func=cname, args=a) for a in part])
            for jargs, out in zip(part, outs):
                seen += 1
                bad = replay.definite(chk.check_ensures(jargs, out, case))
                if bad:
                    run.witness_case = case.get('label')
                    return jargs, out, bad, seen
    return None, None, None, seen


def _model_values(text):
    """`name = number` lines of a solver model"""
    import re
    from fractions import Fraction
    out = {}
    for line in (text or '').splitlines():
        m = re.match(r'^\s*([A-Za-z_][\w]*)\s*=\s*\(?(-?\s*\d+(?:\.\d+)?\??(?:/\d+)?)\)?\s*$', line)
        if m:
            try:
                out[m.group(1)] = float(Fraction(m.group(2).replace(' ', '').replace('?', '')))
            except (ValueError, ZeroDivisionError):
                pass
    return out


def _seeded(c, case, model, gen):
    """the enumerated inputs, each preceded by a copy whose scalar / pair parameters take the values of the
    solver's counter-model (a hint only: the native run decides)"""
    params = dict(c.params)
    params.update(case.get('params', {}))
    fx = lambda x: {'f': float(x).hex()}      # noqa: E731
    k = 0
    for jargs in gen:
        if k < 50:
            k += 1
            s = dict(jargs)
            for n, d in params.items():
                if d in ('real', 'val', 'val+') and n in model:
                    s[n] = fx(model[n])
                elif d in ('nat', 'int') and n in model:
                    s[n] = int(model[n])
                elif d == 'nonneg_pair' and (n + '_i') in model and (n + '_j') in model:
                    s[n] = {'n': [fx(model[n + '_i']), fx(model[n + '_j'])], 'dtype': 'float64'}
            yield s
        yield jargs


def runtime_contract_sweep(run, cnames, limit):
    """Every run: small concrete inputs through (a) the real function natively, (b) the contract
    evaluated concretely, (c) the dvc executor in run mode (translation validation)."""
    from dvc import tv
    return tv.sweep(run, cnames, limit)


def main(argv=None):
    import argparse
    ap = argparse.ArgumentParser()
    ap.add_argument('prop')
    ap.add_argument('--tier', default=os.environ.get('VERIF_TIER', 'quick'))
    ap.add_argument('--replay')
    a = ap.parse_args(argv)
    seed = int(os.environ.get('VERIF_SEED', '0') or 0)
    import props
    cfg = props.PROPS[a.prop]
    for m in cfg.get('modules', []):
        importlib.import_module(m)
    run = Run(a.prop, a.tier, seed)
    if a.replay:
        from dvc import replay_cmd
        return replay_cmd.main(run, cfg, a.replay)
    obligations, results, reports, bounded, tvres, selftests = [], [], [], {}, {}, []
    try:
        return check(run, cfg)
    except (Unsupported, CannotBind) as e:
        if os.environ.get("DVC_TRACE"):
            traceback.print_exc()
        run.errors.append('%s: %s' % (type(e).__name__, e))
        run.write_evidence(cfg, [], [], [], {}, {}, [], 'checker-error')
        print('CHECKER-ERROR property=%s %s: %s' % (a.prop, type(e).__name__, e))
        return 3
    except Exception as e:      # noqa: a crash of the checker is never a verdict
        traceback.print_exc()
        run.errors.append('crash: %r' % (e,))
        run.write_evidence(cfg, [], [], [], {}, {}, [], 'checker-crash')
        print('CHECKER-ERROR property=%s crash %r' % (a.prop, e))
        return 3


def check(run, cfg):
    prop = run.prop
    quick = run.tier == 'quick'
    import shutil
    shutil.rmtree(os.path.join(OUT, 'replays', prop), ignore_errors=True)
    known = [k for k in load_known() if k.get('property') == prop and not k.get('fixed')]
    # ---- known-finding regions are excluded from the precondition (DESIGN 3.8) and replayed below
    for k in known:
        c = CONTRACTS.get(k.get('function'))
        if c is not None and k.get('region') and k.get('kind') != 'bounded':
            if k.get('cases'):
                # the region is stated for the named contract cases only
                if k['region'] == 'True':
                    # the whole case is the finding: it is not proved, only its witness is replayed
                    c.cases = [case for case in c.cases if case.get('label') not in k['cases']]
                    continue
                for case in (c.cases or []):
                    if case.get('label') in k['cases']:
                        case['requires'] = list(case.get('requires', [])) + ['not (%s)' % k['region']]
            else:
                c.requires.append('not (%s)' % k['region'])
    # ---- generate
    reports, obligations = [], []
    for n in cfg['contracts']:
        run.program.function(n)        # load sources (and C translation units) before forking
    bind_errors = {}
    reports, vac_obs = verify.generate_parallel(run.program, cfg['contracts'], bind_errors=bind_errors)
    for fn_, err_ in bind_errors.items():
        run.errors.append('%s not verified: %s' % (fn_, err_))
    for rep in reports:
        obligations += rep.obligations
        if rep.vacuous:
            raise CannotBind('precondition of %s is unsatisfiable in case(s) %s (vacuous contract)' % (rep.name, rep.vacuous))
    for ln in cfg.get('lemmas', []):
        obligations += LEMMAS[ln].obligations()
    extra = cfg.get('extra_obligations')
    if extra:
        obligations += extra(run)
    verify.merge_names(obligations)
    if not obligations and cfg.get('level') != 'exploration':
        raise CannotBind('zero obligations generated')
    # ---- discharge
    results = solve.discharge(obligations, timeout_ms=10000 if quick else 60000, both=not quick,
                              max_fail=24 if quick else 200)
    # ---- consistency of the axioms (vacuity guard): `false` must not be provable
    from dvc import vacuity
    vac = vacuity.check(run, cfg, reports, vac_obs)
    run.evidence_extra['vacuity'] = vac
    all_proved = all(r['status'] == 'proved' for r in results)
    if vac.get('inconsistent') and all_proved:
        # (after a failed obligation its goal is assumed, which legitimately makes later
        #  hypotheses contradictory; the guard is meaningful only when everything was proved)
        raise CannotBind('axioms/lemmas are inconsistent: %s' % vac['inconsistent'])
    # ---- triage failures
    not_proved = [(ob, r) for ob, r in zip(obligations, results) if r['status'] != 'proved']
    by_func = {}
    for ob, r in not_proved:
        by_func.setdefault(getattr(ob, 'cname', ob.func), []).append((ob, r))
    for func, items in by_func.items():
        hard = [x for x in items if x[1]['status'] in ('failed', 'failed-candidate')]
        soft = [x for x in items if x[1]['status'] not in ('failed', 'failed-candidate')]
        if not hard and soft and not func.startswith('lemma:'):
            # nothing refuted, something undecided: an undecided obligation is never a violation by itself, but a concrete
            # input on which the real function breaks its contract is one; it is reported under the first undecided obligation
            import re as _re
            run.failing_cases = getattr(run, 'failing_cases', {})
            run.failing_cases[func] = set(m.group(1) for ob, r in soft for m in [_re.search(r'\[([^\]]*)\]', ob.name)] if m)
            try:
                jargs, out, bad, seen = witness_search(run, func, cfg, '', 4000 if quick else 40000)
            except Unsupported as e:
                jargs = None
                run.errors.append('witness search: %s' % e)
            if jargs is not None:
                ob, r = soft[0]
                path = run.write_replay(ob.name, dict(
                    property=prop, obligation=ob.name, function=func, what=ob.note, line=ob.line,
                    solver=dict(status=r['status'], backend=r.get('backend'), model=r['info']), inputs_tried=seen,
                    failing_input=jargs, native_outcome=out, violated=bad, case=getattr(run, 'witness_case', None),
                    note='the obligation is undecided by the solvers; the violation is the concrete input below, on which the '
                         'real function breaks the postcondition of its contract',
                    replay_cmd='python3-vt -m dvc.check %s --replay <this file>' % prop))
                run.violations.append((ob.name, path, True))
        for ob, r in soft:
            run.undecided.append(dict(obligation=ob.name, reason=r['info'][:300]))
        if not hard:
            continue
        if func.startswith('lemma:'):
            for ob, r in hard:
                path = run.write_replay(ob.name, dict(property=prop, obligation=ob.name, function=func,
                                                      solver=r, note=ob.note, replay='lemma obligations have no code input'))
                run.violations.append((ob.name, path, False))
            continue
        limit = 4000 if quick else 40000
        import re as _re
        run.failing_cases = getattr(run, 'failing_cases', {})
        run.failing_cases[func] = set(m.group(1) for ob, r in hard for m in [_re.search(r'\[([^\]]*)\]', ob.name)] if m)
        try:
            jargs, out, bad, seen = witness_search(run, func, cfg, hard[0][1]['info'], limit)
        except Unsupported as e:
            jargs, out, bad, seen = None, None, None, 0
            run.errors.append('witness search: %s' % e)
        for ob, r in hard:
            payload = dict(property=prop, obligation=ob.name, function=func, what=ob.note, line=ob.line,
                           solver=dict(status=r['status'], backend=r['backend'], model=r['info']),
                           inputs_tried=seen)
            if jargs is not None:
                payload.update(failing_input=jargs, native_outcome=out, violated=bad, case=getattr(run, 'witness_case', None),
                               replay_cmd='python3-vt -m dvc.check %s --replay <this file>' % prop)
            else:
                payload['no_failing_input_found'] = True
            path = run.write_replay(ob.name, payload)
            run.violations.append((ob.name, path, jargs is not None))
    # ---- runtime contract sweep / translation validation on the real code (every run)
    tvres = runtime_contract_sweep(run, cfg['contracts'], 300 if quick else 3000)
    for v in tvres.pop('violations', []):
        path = run.write_replay('runtime::' + v['function'], dict(property=prop, obligation='runtime-contract::' + v['function'],
                                                                  function=v['function'], failing_input=v['input'],
                                                                  native_outcome=v['outcome'], violated=v['violated']))
        if not any(n.startswith(v['function']) for n, _, _ in run.violations):
            run.violations.append(('runtime-contract::' + v['function'], path, True))
    if tvres.get('mismatches'):
        run.errors.append('translation validation mismatch: %s' % tvres['mismatches'][:3])
    # ---- bounded stand-ins
    bounded = {}
    bounded_known = [k for k in known if k.get('kind') == 'bounded']
    matched_known = {}
    for name, fn in cfg.get('bounded', {}).items():
        run.known_witness_cases = [k['witness_case'] for k in bounded_known if k.get('sweep') == name and 'witness_case' in k]
        res = fn(run)
        if isinstance(res, dict) and prop in res and 'evaluations' not in res:
            res = res[prop]          # sweeps shared between properties return one entry per property
        bounded[name] = res
        nv = 0
        before = dict(matched_known)
        for v in res.pop('violations', []):
            hit = None
            for k in bounded_known:
                try:
                    if eval(k['match'], {'__builtins__': {}}, dict(v=v, case=v.get('case', {}), fn=v.get('function', ''),
                                                                    what=v.get('what', ''), inp=v.get('failing_input', {}),
                                                                    psi4=_psi4(v.get('case', {})), len=len, max=max, min=min,
                                                                    inf=float('inf'), str=str, abs=abs)):
                        hit = k
                        break
                except Exception:       # noqa: a malformed matcher never hides a violation
                    hit = None
            if hit is not None:
                matched_known.setdefault(hit['id'], 0)
                matched_known[hit['id']] += 1
                continue
            nv += 1
            if nv <= 3:
                path = run.write_replay('bounded::%s::%d' % (name, nv), dict(property=prop, obligation='bounded::' + name, **v))
                run.violations.append(('bounded::' + name, path, True))
        res['known_finding_hits'] = {k_: n_ - before.get(k_, 0) for k_, n_ in matched_known.items() if n_ - before.get(k_, 0) > 0}
    run.matched_known = matched_known
    # ---- self-test mutations
    selftests = []
    st_fn = cfg.get('selftest')
    if st_fn:
        selftests = st_fn(run)
        for s in selftests:
            if not s['detected']:
                run.errors.append('self-test mutation survived: %s' % s['name'])
    # ---- known findings: replay witnesses
    for k in known:
        from dvc import findings
        if k.get('kind') == 'bounded':
            still = run.matched_known.get(k['id'], 0) > 0
        else:
            still = findings.replay_witness(run, k)
        if still:
            line = 'KNOWN-FINDING: property=%s %s' % (prop, k['what'])
            print(line)
            run.known_printed.append(dict(id=k.get('id'), what=k['what'], witness=k.get('witness'), region=k.get('region')))
        else:
            run.known_printed.append(dict(id=k.get('id'), what=k['what'], note='witness no longer fails'))
    # ---- verdict
    status = 'held'
    code = 0
    if run.errors:
        status, code = 'checker-error', 3
    if run.undecided and code == 0:
        status, code = 'undecided', 2
    if run.violations:
        status, code = 'violation', 1
    run.write_evidence(cfg, obligations, results, reports, bounded, tvres, selftests, status)
    nproved = sum(1 for r in results if r['status'] == 'proved')
    print('%s: %d/%d obligations discharged, %d functions under contract, %.1fs' % (
        prop, nproved, len(obligations), len(reports), time.time() - run.t0))
    seen_paths = set()
    for name, path, has_input in run.violations:
        if path in seen_paths:
            continue
        seen_paths.add(path)
        print('VIOLATION property=%s replay=%s%s' % (prop, path, '' if has_input else ' no-failing-input-found'))
    for u in run.undecided[:10]:
        print('UNDECIDED %s: %s' % (u['obligation'], u['reason'][:120]))
    for e in run.errors[:10]:
        print('CHECKER-ERROR %s' % e)
    return code


if __name__ == '__main__':
    sys.exit(main())
