"""Replay of failed obligations against the real code, and translation validation.

A concrete input is (i) executed natively -- the real function of /repo under /venv/bin/python --
and (ii) checked against the contract by evaluating `requires` / `ensures` on concrete values
(spec functions have brute-force Python definitions written from the property statement).
The same inputs are also run through the dvc executor in 'run' mode; native result and executor
result must agree (translation validation of the engine, DESIGN 3.2)."""
import json
import math
import os
import subprocess
import itertools
import random
import z3
from .vals import *
from .ops import truth, concrete
from .state import State, Unsupported, PathEnd, CannotBind
from .executor import Exec, Frame
from .contracts import CONTRACTS

VENV_PY = '/venv/bin/python'
RUNNER = os.path.join(os.path.dirname(os.path.abspath(__file__)), 'native_runner.py')


# ------------------------------------------------------------------ value conversion
def to_json(v, heap=None):
    if v is None or isinstance(v, (bool, str)):
        return v
    if isinstance(v, int):
        return v
    if isinstance(v, float):
        return {'f': v.hex()}
    if isinstance(v, tuple):
        return {'t': [to_json(x, heap) for x in v]}
    if isinstance(v, Opt):
        raise Unsupported('optional value in a concrete call')
    if isinstance(v, dict):
        if '__native__' in v:
            return v['__native__']
        return {'d': {k: to_json(x, heap) for k, x in v.items()}}
    if isinstance(v, Ref):
        o = heap[v.oid]
        if isinstance(o, ArrObj):
            if o.items is None:
                raise Unsupported('symbolic array in a concrete result')
            if o.shape is not None:
                return {'n': [[to_json(x) for x in row] for row in o.items], 'dtype': 'float64'}
            items = [to_json(x, heap) for x in o.items]
            if o.pykind == 'array':
                return {'a': items, 'tc': 'd' if o.kind == 'val' else 'l'}
            if o.pykind == 'ndarray':
                return {'n': items, 'dtype': 'float64' if o.kind == 'val' else 'int64'}
            return {'l': items}
    raise Unsupported('cannot pass %r natively' % (v,))


def from_json(v, st, origin='local', name=''):
    """Native (tagged JSON) value -> dvc concrete value; containers go to st.heap."""
    if v is None or isinstance(v, (bool, int, str)):
        return v
    if isinstance(v, float):
        return v
    if isinstance(v, dict):
        if 'f' in v:
            return float.fromhex(v['f'])
        if 't' in v:
            return tuple(from_json(x, st, origin, name) for x in v['t'])
        if 'l' in v or 'a' in v:
            raw = v.get('l', v.get('a'))
            items = [from_json(x, st, origin, name) for x in raw]
            kind = 'any'
            if items and all(isinstance(x, float) for x in items):
                kind = 'val'
            elif items and all(is_cint(x) for x in items):
                kind = 'int'
            elif 'a' in v:
                kind = 'val' if v.get('tc', 'd') in 'df' else 'int'
            oid = st.new_oid('J')
            st.heap[oid] = ArrObj(kind, items=items, length=len(items), origin=origin, name=name,
                                  pykind='array' if 'a' in v else 'list')
            return Ref(oid)
        if 'n' in v:
            shape = v.get('shape')
            dt = 'int' if v.get('dtype', 'float64').startswith('int') else 'float'
            oid = st.new_oid('J')
            if shape is not None and len(shape) == 2 or (shape is None and v['n'] and isinstance(v['n'][0], list)):
                rows = [[from_json(x, st) for x in (row['l'] if isinstance(row, dict) else row)] for row in v['n']]
                st.heap[oid] = ArrObj('val' if dt == 'float' else 'int', items=rows,
                                      shape=(len(rows), len(rows[0]) if rows else (shape[1] if shape else 0)),
                                      origin=origin, name=name, pykind='ndarray', dtype=dt)
            else:
                items = [from_json(x, st) for x in v['n']]
                st.heap[oid] = ArrObj('val' if dt == 'float' else 'int', items=items, length=len(items),
                                      origin=origin, name=name, pykind='ndarray', dtype=dt)
            return Ref(oid)
        if 'd' in v:
            return {k: from_json(x, st, origin, name) for k, x in v['d'].items()}
        if 's' in v:
            return v['s']
        if 'obj' in v:
            o = v['obj']
            fields = dict(DTW_SETTINGS_DEFAULTS) if o['cls'] == 'DTWSettings' else {}
            for k, x in o.get('kwargs', {}).items():
                fields[k] = from_json(x, st, origin, name)
            oid = st.new_oid('J')
            st.heap[oid] = RecObj('%s.%s' % (o['module'], o['cls']), fields, origin=origin, name=name)
            return Ref(oid)
        if 'fnref' in v:
            return FuncV(v['fnref'])
        if 'o' in v:
            oid = st.new_oid('J')
            st.heap[oid] = RecObj(v['o']['cls'], {k: from_json(x, st, origin, name) for k, x in v['o']['fields'].items()},
                                  origin=origin, name=name)
            return Ref(oid)
        if 'repr' in v:
            return {'__repr__': v['repr']}
    raise Unsupported('cannot import native value %r' % (v,))


DTW_SETTINGS_DEFAULTS = dict(window=None, use_pruning=False, max_dist=None, max_step=None, max_length_diff=None,
                             penalty=None, psi=None, inner_dist='squared euclidean', use_ndim=False, use_c=False)


# ------------------------------------------------------------------ native execution
def native_calls(repo, calls, timeout=300):
    calls2 = []
    for c in calls:
        a = dict(c['args'])
        if 'kwargs' in a and isinstance(a['kwargs'], dict) and 'd' in a['kwargs']:
            a['**'] = a.pop('kwargs')      # the function's **kwargs parameter
        calls2.append(dict(func=c['func'].split('#')[0], args=a))
    calls = calls2
    req = json.dumps({'repo': repo, 'calls': calls})
    p = subprocess.run([VENV_PY, RUNNER], input=req, capture_output=True, text=True, timeout=timeout)
    if p.returncode != 0:
        raise RuntimeError('native runner failed: %s' % p.stderr[-2000:])
    out = p.stdout
    i = out.find('[')
    return json.loads(out[i:])


# ------------------------------------------------------------------ concrete contract checking
class ConcreteChecker:
    def __init__(self, program, cname):
        self.program = program
        self.c = CONTRACTS[cname]
        self.finfo = program.function(cname)

    def _exec(self):
        from . import ops as _ops
        _ops.REAL_TOL = 1e-12 if 'reals' in (self.c.theories or ()) else 0.0
        ex = Exec(self.program, 'run')
        ex.concrete_spec = True
        ex.frames = [Frame(self.finfo, self.c)]
        ex.frame.ghost = {}
        ex.forced = []
        ex.taken = []
        ex.dpos = 0
        ex.run_checks = []
        return ex

    def build_state(self, jargs):
        st = State()
        args = {k: from_json(v, st, 'param', k) for k, v in jargs.items()}
        st.vars = dict(args)
        st.old_vars = dict(args)
        st.old_heap = dict(st.heap)
        return st, args

    def quant_range(self, jargs):
        m = 2

        def walk(v):
            nonlocal m
            if isinstance(v, bool):
                return
            if isinstance(v, int):
                m = max(m, abs(v))
            elif isinstance(v, dict):
                for x in v.values():
                    walk(x)
            elif isinstance(v, list):
                m = max(m, len(v))
                for x in v:
                    walk(x)
        walk(jargs)
        return (-1, min(m * (m + 1) // 2 + 2, 40) if m <= 8 else m + 2)

    def check_requires(self, jargs, case=None):
        ex = self._exec()
        st, args = self.build_state(jargs)
        ex.quant_range = self.quant_range(jargs)
        for g, text in dict(self.c.bind or {}, **((case or {}).get('bind', {}))).items():
            ex.frame.ghost[g] = ex.eval_spec(text, st)
        for r in list(self.c.requires) + list((case or {}).get('requires', [])):
            try:
                v = truth(ex.eval_spec(r, st))
            except PathEnd:
                return False
            if v is not True:
                if isinstance(v, bool):
                    return False
                v = z3.simplify(v)
                if not z3.is_true(v):
                    return False
        return True

    def check_ensures(self, jargs, outcome, case=None):
        """Returns list of violated postconditions (text) for a native outcome."""
        ex = self._exec()
        st, args = self.build_state(jargs)
        ex.quant_range = self.quant_range(jargs)
        for g, text in dict(self.c.bind or {}, **((case or {}).get('bind', {}))).items():
            ex.frame.ghost[g] = ex.eval_spec(text, st)
        if not outcome['ok']:
            exc = outcome['exc'].split(':')[0]
            if exc in self.c.raises:
                return []
            return ['raised %s' % outcome['exc']]
        old = State()
        old.vars = dict(st.vars)
        old.heap = dict(st.heap)
        # the state after the call: arguments as the callee left them
        for k, v in outcome.get('args_after', {}).items():
            st.vars[k] = from_json(v, st, 'param', k)
        result = from_json(outcome['result'], st)
        bad = []
        for text in list(self.c.ensures) + list((case or {}).get('ensures', [])):
            try:
                v = truth(ex.eval_spec(text, st, env={'result': result, '__exc__': None}, old_state=old))
            except PathEnd:
                v = False
            except CannotBind as e:
                if 'undefined in the current state' not in str(e):
                    raise
                v = False       # the clause reads something the concrete outcome does not have (e.g. an element of an empty result)
            except Unsupported as e:
                bad.append('cannot evaluate %r concretely: %s' % (text, e))
                continue
            if v is not True:
                if not isinstance(v, bool):
                    v = z3.simplify(v)
                    if z3.is_true(v):
                        continue
                    if not z3.is_false(v):
                        # a spec function without a concrete evaluator: undecided, never a violation
                        bad.append('cannot evaluate %r concretely: residual term' % text)
                        continue
                bad.append(text)
        # frame: arguments must be unchanged unless listed in assigns
        for k, v in outcome.get('args_after', {}).items():
            if k in self.c.assigns:
                continue
            if isinstance(jargs[k], dict) and 'obj' in jargs[k]:
                continue      # opaque object: frame checked by the VC `frame` obligations only
            if _norm(v) != _norm(jargs[k]):
                bad.append('frame: argument %s modified' % k)
        return bad


def definite(bad):
    """the violated clauses among check_ensures' answers (drops the ones that could not be evaluated)"""
    return [b for b in (bad or []) if not b.startswith('cannot evaluate')]


def _norm(v):
    """content of a value, ignoring container flavour tags"""
    if isinstance(v, dict):
        if 'f' in v:
            return ('f', float.fromhex(v['f']).hex() if isinstance(v['f'], str) else float(v['f']).hex())
        for k in ('l', 'a', 'n', 't'):
            if k in v:
                return (k if k == 't' else 'seq', tuple(_norm(x) for x in v[k]))
        if 'd' in v:
            return ('d', tuple(sorted((k, _norm(x)) for k, x in v['d'].items())))
        return ('o', json.dumps(v, sort_keys=True))
    if isinstance(v, list):
        return ('seq', tuple(_norm(x) for x in v))
    return v


# ------------------------------------------------------------------ input enumeration
def small_values(desc, rng, bound):
    """Concrete candidates (tagged JSON) for a type descriptor."""
    if desc == 'none':
        return [None]
    if isinstance(desc, tuple) and desc[0] == 'const':
        return [desc[1]]
    if isinstance(desc, tuple) and desc[0] == 'funcref':
        return [{'fnref': desc[1]}]
    if isinstance(desc, tuple) and desc[0] == 'specfn':
        raise Unsupported('an abstract callback has no concrete domain')
    if desc in ('nat',):
        return list(range(0, bound + 1))
    if desc == 'int':
        return list(range(-1, bound + 1))
    if desc == 'bool':
        return [False, True]
    if desc == 'val':
        return [{'f': float(x).hex()} for x in (0.0, 1.0, -1.5, 2.25)]
    if desc == 'matrix':
        # small cost-matrix-like arrays: non-negative entries and inf, no -1 marks
        out = []
        for _ in range(60):
            r, cc = rng.randint(2, bound + 2), rng.randint(2, bound + 2)
            rows = [[{'f': float(rng.choice([0, 0.5, 1, 1, 2, 3, 4.5, float('inf')])).hex()} for _ in range(cc)] for _ in range(r)]
            out.append({'n': rows, 'dtype': 'float64', 'shape': [r, cc]})
        return out
    if desc == 'val+':
        return [{'f': float(x).hex()} for x in (0.3, 0.75, 1.0, 1.5, 2.0, 2.6, 3.2, 4.5, 6.0, 9.0)]
    if desc == 'block':
        out = []
        for rb, re, cb, ce in itertools.product(range(0, bound + 1), repeat=4):
            out.append({'t': [{'t': [rb, re]}, {'t': [cb, ce]}]})
        return out
    if desc == 'block3':
        out = []
        for b in small_values('block', rng, bound):
            for f in (False, True):
                out.append({'t': b['t'] + [f]})
        return out
    if desc == 'series_collection':
        out = []
        for n in range(1, bound + 2):
            for _ in range(2):
                out.append({'l': [{'a': [{'f': float(rng.choice([0, 1, -1, 2, 0.5, 3])).hex()}
                                         for _ in range(rng.randint(1, 3))]} for _ in range(n)]})
        return out
    if isinstance(desc, tuple) and desc[0] == 'rec' and desc[1] == 'dtw.DTWSettings':
        inner = desc[2].get('inner_dist', ('const', 'squared euclidean'))[1]
        psi4 = isinstance(desc[2].get('psi'), tuple)
        base = [dict(), dict(window=2), dict(penalty={'f': (0.5).hex()}), dict(max_step={'f': (1.5).hex()}),
                dict(window=1, max_dist={'f': (2.0).hex()})]
        out = []
        for kw in base:
            kw = dict(kw, inner_dist=inner)
            kw['psi'] = {'t': [0, 1, 1, 0]} if psi4 else rng.choice([None, 0, 1])
            out.append({'obj': {'module': 'dtw', 'cls': 'DTWSettings', 'kwargs': kw}})
        return out
    if isinstance(desc, dict):
        keys = list(desc)
        doms = [small_values(desc[k], rng, bound) for k in keys]
        total = 1
        for d in doms:
            total *= len(d)
        out = []
        if total <= 200:
            for combo in itertools.product(*doms):
                out.append({'d': dict(zip(keys, combo))})
        else:
            # all-defaults first, then random combinations (a lexicographic prefix would pin the first keys)
            out.append({'d': {k: d[0] for k, d in zip(keys, doms)}})
            for _ in range(200):
                out.append({'d': {k: rng.choice(d) for k, d in zip(keys, doms)}})
        return out
    if isinstance(desc, tuple) and desc[0] == 'tuple':
        doms = [small_values(d, rng, bound) for d in desc[1:]]
        total = 1
        for d in doms:
            total *= len(d)
        if total <= 300:
            return [{'t': list(combo)} for combo in itertools.product(*doms)]
        return [{'t': [rng.choice(d) for d in doms]} for _ in range(300)]
    if desc == 'nonneg_pair':
        vals = [0.0, 0.5, 1.0, 2.0, 3.0, 4.0]
        return [{'n': [{'f': float(a).hex()}, {'f': float(b).hex()}], 'dtype': 'float64'} for a in vals for b in vals]
    if desc == 'real':
        return [{'f': float(x).hex()} for x in (0.5, 1.0, 2.0, 3.0, 0.25, -1.0)]
    if desc == 'series_nd':
        out = []
        for n in range(1, bound + 2):
            for nd in (1, 2, 3):
                out.append({'n': [[{'f': float(rng.choice([0, 1, -1, 2, 0.5, 3, -2.5])).hex()} for _ in range(nd)]
                                  for _ in range(n)], 'dtype': 'float64', 'shape': [n, nd]})
        return out
    if desc == 'array:val':
        return [{'a': [{'f': float(k + 1).hex()} for k in range(n)]} for n in range(0, bound + 4)]
    if desc == 'series':
        out = []
        for n in range(0, bound + 2):
            for _ in range(2):
                out.append({'a': [{'f': float(rng.choice([0, 1, -1, 2, 0.5, 3, -2.5])).hex()} for _ in range(n)]})
        return out
    if isinstance(desc, str) and desc.startswith('opt:'):
        return [None] + small_values(desc[4:], rng, bound)
    raise Unsupported('no concrete domain for descriptor %r' % (desc,))


def enumerate_inputs(c, case, rng, bound, limit):
    params = dict(c.params)
    params.update(case.get('params', {}))
    names = list(params)
    doms = [small_values(params[n], rng, bound) for n in names]
    total = 1
    for d in doms:
        total *= len(d)
    if total <= limit:
        for combo in itertools.product(*doms):
            yield dict(zip(names, combo))
    else:
        for _ in range(limit):
            yield {n: rng.choice(d) for n, d in zip(names, doms)}
