"""Discharge proof obligations: z3 first (in-process per worker, from SMT-LIB text), cvc5 on z3's
`unknown`; thorough tier asks both to confirm every `unsat` (A7)."""
import os
import subprocess
import tempfile
import time
import multiprocessing as mp
import z3

CVC5 = '/usr/bin/cvc5'


def to_smt2(hyps, goal, axioms=()):
    s = z3.Solver()
    for a in axioms:
        s.add(a)
    for h in hyps:
        s.add(h)
    s.add(z3.Not(goal))
    return s.to_smt2()


def _z3_check(text, timeout_ms, want_model, ematch=False):
    t0 = time.time()
    ctx = z3.Context()
    s = z3.SimpleSolver(ctx=ctx) if ematch else z3.Solver(ctx=ctx)
    s.set('timeout', timeout_ms)
    if ematch:
        s.set('mbqi', False)
        s.set('auto_config', False)
    try:
        s.from_string(text)
        r = s.check()
    except z3.Z3Exception as e:
        return 'error', str(e), time.time() - t0
    dt = time.time() - t0
    if r == z3.unsat:
        return 'unsat', '', dt
    if r == z3.sat or (r == z3.unknown and ematch and 'incomplete' in s.reason_unknown()):
        m = ''
        if want_model:
            try:
                mod = s.model()
                m = '\n'.join('%s = %s' % (d.name(), mod[d]) for d in mod.decls()
                              if d.arity() == 0 and '!' not in d.name() or d.name().startswith('hv_'))
            except Exception as e:      # model extraction is best effort
                m = 'model unavailable: %s' % e
        if r == z3.sat:
            return 'sat', m, dt
        return 'candidate', m, dt
    return 'unknown', s.reason_unknown(), dt


def _cvc5_check(text, timeout_s):
    t0 = time.time()
    with tempfile.NamedTemporaryFile('w', suffix='.smt2', delete=False) as f:
        f.write('(set-logic ALL)\n' + text.replace('(set-info :status unknown)', ''))
        path = f.name
    try:
        p = subprocess.run([CVC5, '--tlimit=%d' % int(timeout_s * 1000), '--full-saturate-quant', path],
                           capture_output=True, text=True, timeout=timeout_s + 5)
        out = (p.stdout or '').strip().splitlines()
        r = out[0] if out else 'unknown'
    except subprocess.TimeoutExpired:
        r = 'unknown'
    finally:
        os.unlink(path)
    if r not in ('sat', 'unsat'):
        r = 'unknown'
    return r, '', time.time() - t0


def _work(job):
    """ematch-only z3 (fast, deterministic) -> cvc5 -> z3 default.  `candidate` = E-matching saturated
    without a refutation and returned a candidate model: the obligation is not provable with the
    given triggers (reported as failed when nobody else proves it)."""
    idx, text, timeout_ms, both = job
    r, info, dt = _z3_check(text, timeout_ms, True, ematch=True)
    backend = 'z3-ematch'
    if both == 'fast':
        return idx, r, info, dt, backend
    if r == 'unsat':
        if both:
            r2, _, dt2 = _cvc5_check(text, timeout_ms / 1000.0)
            backend = 'z3+cvc5' if r2 == 'unsat' else 'z3 (cvc5: %s)' % r2
            dt += dt2
        return idx, r, info, dt, backend
    if r == 'sat':
        return idx, r, info, dt, backend
    candidate = info if r == 'candidate' else None
    r2, info2, dt2 = _cvc5_check(text, min(timeout_ms / 1000.0, 5.0 if not both else 30.0))
    dt += dt2
    if r2 == 'unsat':
        return idx, 'unsat', '', dt, 'cvc5'
    r1, info1, dt1 = _z3_check(text, timeout_ms if both else min(timeout_ms, 4000), True)
    dt += dt1
    if r1 in ('unsat', 'sat'):
        return idx, r1, info1, dt, 'z3'
    if candidate is not None:
        return idx, 'candidate', candidate, dt, 'z3-ematch'
    return idx, 'unknown', 'z3-ematch: %s; cvc5: %s; z3: %s' % (info, r2, info1), dt, 'none'


def discharge(obligations, timeout_ms=10000, both=False, procs=None, fast=False, max_fail=None):
    if fast:
        both = 'fast'
    """Returns list of dict(name, status, info, time, backend) aligned with obligations."""
    jobs = []
    for i, ob in enumerate(obligations):
        text = getattr(ob, 'smt2', None) or to_smt2(ob.hyps, ob.goal, ob.axioms)
        jobs.append((i, text, timeout_ms, both))
    procs = procs or min(16, max(1, os.cpu_count() or 1))
    results = [None] * len(jobs)
    if not jobs:
        return results
    if procs == 1 or len(jobs) == 1:
        outs = map(_work, jobs)
    else:
        pool = mp.get_context('fork').Pool(procs)
        outs = []
        nfail = 0
        try:
            for o in pool.imap_unordered(_work, jobs, chunksize=1):
                outs.append(o)
                if o[1] in ('sat', 'candidate'):
                    nfail += 1
                    if max_fail and nfail >= max_fail:
                        # enough failed obligations to report a violation: the rest is not solved
                        pool.terminate()
                        break
        finally:
            pool.close()
            pool.join()
        done = {o[0] for o in outs}
        for j in jobs:
            if j[0] not in done:
                outs.append((j[0], 'unknown', 'not attempted: the run already has %d failed obligations' % nfail, 0.0, 'skipped'))
    for idx, r, info, dt, backend in outs:
        status = {'unsat': 'proved', 'sat': 'failed', 'candidate': 'failed-candidate', 'unknown': 'unknown', 'error': 'error'}[r]
        results[idx] = dict(name=obligations[idx].name, status=status, info=info, time=dt, backend=backend)
    return results
