"""Frame analysis over many functions in parallel (C20, C07-F4): for each function every store is
resolved to the heap object it targets on every path (loops cut with the trivial invariant); a
store into a caller-owned object that is not a designated output, or into a file-scope variable,
is a failed `frame` / `static-write` obligation."""
import multiprocessing as mp
import time
from .state import Unsupported, CannotBind
from . import verify

_P = None
C_OUTPUTS = {'wps', 'full', 'output', 'i1', 'i2', 'from_i', 'to_i', 'length_i', 'c', 'cbs', 'rls', 'length', 'r', 'cb', 'ce',
             'block.re', 'block.ce'}


def c_params(program, finfo):
    params = {}
    for a in finfo.node.args.args:
        t = finfo.node.ctypes[a.arg].replace('const ', '').strip()
        if t.endswith('**'):
            d = 'cptrs' if t.startswith('seq_t') else 'cbox:ptr'
        elif t.endswith('*'):
            b = t[:-1].strip()
            if b in ('seq_t', 'double'):
                d = 'cptr:val'
            elif b in ('idx_t', 'ba_t', 'unsigned char', 'int'):
                d = 'cptr:int'
            elif b in program.structs:
                d = ('cstruct', b)
            else:
                return None
        elif t in ('seq_t', 'double'):
            d = 'val'
        elif t in ('bool', '_Bool'):
            d = 'bool'
        else:
            d = 'int'
        params[a.arg] = d
    return params


def _job(job):
    name, params, assigns = job
    t0 = time.time()
    try:
        obs, st = verify.frame_only(_P, name, params, assigns=assigns)
        return dict(name=name, ok=True, obligations=[verify.ObText(o) for o in obs], paths=st['paths'],
                    stores=st['stores_examined'], seconds=round(time.time() - t0, 1), notes=st['notes'])
    except (Unsupported, CannotBind) as e:
        return dict(name=name, ok=False, error='%s: %s' % (type(e).__name__, str(e)[:200]), seconds=round(time.time() - t0, 1))


def run(program, jobs, procs=16, timeout=600):
    global _P
    _P = program
    pool = mp.get_context('fork').Pool(min(procs, max(1, len(jobs))))
    res = []
    try:
        asyncs = [(j, pool.apply_async(_job, (j,))) for j in jobs]
        deadline = time.time() + timeout
        for j, a in asyncs:
            try:
                res.append(a.get(max(1, deadline - time.time())))
            except mp.TimeoutError:
                res.append(dict(name=j[0], ok=False, error='frame analysis exceeded the time budget (path explosion)', seconds=timeout))
    finally:
        pool.terminate()
        pool.join()
    return res
