"""Lean lemmas: a check may cite a theorem only if its file was accepted by `lean` with the hash the
file has now (setup_cmd records hashes in build/lean_status.json; a missing or stale record makes the
check run `lean` itself)."""
import hashlib
import json
import os
import subprocess
import time

HERE = os.path.dirname(os.path.dirname(os.path.abspath(__file__)))


def ensure(files):
    """files: list of names under specs/lean; returns dict name -> status dict; raises on rejection."""
    spath = os.path.join(HERE, 'build', 'lean_status.json')
    status = {}
    if os.path.exists(spath):
        try:
            status = json.load(open(spath))
        except ValueError:
            status = {}
    out = {}
    changed = False
    for f in files:
        path = os.path.join(HERE, 'specs', 'lean', f)
        src = open(path, 'rb').read()
        h = hashlib.sha256(src).hexdigest()
        rec = status.get(f)
        if not rec or rec.get('sha256') != h or not rec.get('accepted'):
            t0 = time.time()
            p = subprocess.run(['lean', path], capture_output=True, text=True, timeout=3600, cwd=os.path.dirname(path))
            ok = p.returncode == 0 and 'error' not in p.stdout and b'sorry' not in src
            rec = dict(sha256=h, accepted=ok, seconds=round(time.time() - t0, 1), output=(p.stdout + p.stderr)[-1000:])
            status[f] = rec
            changed = True
        out[f] = dict(sha256=rec['sha256'], accepted=rec['accepted'], seconds=rec.get('seconds'))
    if changed:
        os.makedirs(os.path.dirname(spath), exist_ok=True)
        json.dump(status, open(spath, 'w'), indent=1)
    return out
