"""Vacuity guards (DESIGN 3.9): the axioms and lemmas handed to the solver must not prove `false`,
and every contract case must have a satisfiable precondition (checked in verify.generate)."""
import z3
from .contracts import CONTRACTS
from .state import Obligation
from . import verify, solve


def check(run, cfg, reports, sampled=()):
    obs = []
    for n in cfg['contracts']:
        c = CONTRACTS[n]
        ax = verify.contract_axioms(c)
        if ax:
            obs.append(Obligation('vacuity::%s::axioms-do-not-prove-false' % n, 'vacuity', [], z3.BoolVal(False), n, axioms=ax))
    # hypotheses of a sample of obligations (path condition + invariants + axioms) must not prove false
    obs += list(sampled)
    res = solve.discharge(obs, timeout_ms=2000, fast=True) if obs else []
    bad = [o.name for o, r in zip(obs, res) if r['status'] == 'proved']
    covers = {}
    for rep in reports:
        covers[rep.name] = dict(cases=dict(rep.cases), branches_reached=len(rep.covers), paths=rep.paths)
    return dict(axiom_sets_checked=len(obs), inconsistent=bad, covers=covers)
