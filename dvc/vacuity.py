"""Vacuity guards (DESIGN 3.9): the axioms and lemmas handed to the solver must not prove `false`,
and every contract case must have a satisfiable precondition (checked in verify.generate)."""
import z3
from .contracts import CONTRACTS
from .state import Obligation
from . import verify, solve


def check(run, cfg, reports, sampled=()):
    obs = []
    for n in cfg['contracts']:
        c = CONTRACTS[n]
        ax = verify.contract_axioms(c)
        if ax:
            obs.append(Obligation('vacuity::%s::axioms-do-not-prove-false' % n, 'vacuity', [], z3.BoolVal(False), n, axioms=ax))
    # hypotheses of a sample of obligations (path condition + invariants + axioms) must not prove false
    obs += list(sampled)
    res = solve.discharge(obs, timeout_ms=2000, fast=True) if obs else []
    # Paths that are infeasible only because of the float-order axioms (e.g. `x > inf`) are explored
    # (branch pruning does not use axioms) and have contradictory hypotheses: that is legitimate.
    # A contract is vacuous when the axioms alone, or *every* sampled path of a function and case,
    # prove false.
    bad = [o.name for o, r in zip(obs, res) if r['status'] == 'proved' and 'axioms-do-not-prove-false' in o.name]
    groups = {}
    for o, r in zip(obs, res):
        if 'hyps-of' in o.name:
            import re
            m = re.search(r'\[([^\]]*)\]', o.name)
            key = (o.func, '[%s]' % m.group(1) if m else '')
            g = groups.setdefault(key, [0, 0])
            g[0] += 1
            g[1] += r['status'] == 'proved'
    for key, (n, refuted) in groups.items():
        if n and refuted == n:
            bad.append('every sampled path of %s%s has contradictory hypotheses' % key)
    covers = {}
    for rep in reports:
        covers[rep.name] = dict(cases=dict(rep.cases), branches_reached=len(rep.covers), paths=rep.paths)
    return dict(axiom_sets_checked=len(obs), inconsistent=bad, covers=covers)
