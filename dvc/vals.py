"""Value domain of the dvc verifier: sorts, the abstract float sort `Val`, heap objects.

A value is one of
  * Python int / z3 Int term              -- mathematical integer
  * Python bool / z3 Bool term
  * Python float / z3 term of sort Val    -- IEEE double, abstracted (DESIGN 3.4)
  * None, str, tuple, dict (concrete structure, symbolic leaves)
  * Opt(isnone, v)                        -- "None or v"
  * Ref(oid)                              -- reference to a heap object (ArrObj / RecObj)
  * Ptr(oid, off)                         -- C pointer into a heap ArrObj
  * Seq(get, length, kind)                -- immutable sequence snapshot (slices, views)
  * FuncV(name) / ModuleV(name)           -- callables and modules
"""
import z3

IntS = z3.IntSort()
BoolS = z3.BoolSort()
RealS = z3.RealSort()
Val = z3.DeclareSort('Val')

vadd = z3.Function('vadd', Val, Val, Val)
vsub = z3.Function('vsub', Val, Val, Val)
vmul = z3.Function('vmul', Val, Val, Val)
vdiv = z3.Function('vdiv', Val, Val, Val)
vneg = z3.Function('vneg', Val, Val)
vlt = z3.Function('vlt', Val, Val, BoolS)
vofreal = z3.Function('vofreal', RealS, Val)
vsqrt = z3.Function('vsqrt', Val, Val)
vabs = z3.Function('vabs', Val, Val)
vexp = z3.Function('vexp', Val, Val)
vpow = z3.Function('vpow', Val, Val, Val)
vinf = z3.Const('vinf', Val)
vninf = z3.Const('vninf', Val)
vzero = vofreal(z3.RealVal(0))


def order_axioms():
    """Level O (DESIGN 3.4): strict total order on non-NaN doubles, +inf top, -inf bottom,
    monotone addition, x + inf = inf.  True of IEEE-754 round-to-nearest on non-NaN values."""
    x, y, z = z3.Consts('ox oy oz', Val)
    ax = [
        z3.ForAll([x], z3.Not(vlt(x, x))),
        z3.ForAll([x, y, z], z3.Implies(z3.And(vlt(x, y), vlt(y, z)), vlt(x, z))),
        z3.ForAll([x, y], z3.Or(vlt(x, y), x == y, vlt(y, x))),
        z3.ForAll([x], z3.Not(vlt(vinf, x))),
        z3.ForAll([x], z3.Not(vlt(x, vninf))),
        vlt(vninf, vzero), vlt(vzero, vinf),
    ]
    return ax


def arith_axioms():
    """Facts about rounded addition used by the pruning / monotonicity arguments."""
    x, y, z = z3.Consts('ax ay az', Val)
    return [
        z3.ForAll([x, y, z], z3.Implies(z3.Not(vlt(y, x)), z3.Not(vlt(vadd(z, y), vadd(z, x))))),
        z3.ForAll([x, y, z], z3.Implies(z3.Not(vlt(y, x)), z3.Not(vlt(vadd(y, z), vadd(x, z))))),
        z3.ForAll([x], z3.Implies(x != vninf, vadd(x, vinf) == vinf)),
        z3.ForAll([x], z3.Implies(x != vninf, vadd(vinf, x) == vinf)),
        z3.ForAll([x], vadd(x, vzero) == x),
        z3.ForAll([x], vadd(vzero, x) == x),
    ]


class Opt:
    __slots__ = ('isnone', 'v')

    def __init__(self, isnone, v):
        self.isnone = isnone
        self.v = v

    def __repr__(self):
        return 'Opt(%s,%s)' % (self.isnone, self.v)


class Ref:
    __slots__ = ('oid',)

    def __init__(self, oid):
        self.oid = oid

    def __repr__(self):
        return 'Ref(%s)' % self.oid

    def __eq__(self, o):
        return isinstance(o, Ref) and o.oid == self.oid

    def __hash__(self):
        return hash(('Ref', self.oid))


class Ptr:
    """C pointer: heap object + element offset.  oid None = NULL."""
    __slots__ = ('oid', 'off')

    def __init__(self, oid, off=0):
        self.oid = oid
        self.off = off

    def __repr__(self):
        return 'Ptr(%s,%s)' % (self.oid, self.off)


class Seq:
    """Immutable sequence snapshot: element k is get(k), 0 <= k < length."""
    __slots__ = ('get', 'length', 'kind', 'items', 'win', 'pos', 'nd')

    def __init__(self, get, length, kind, items=None, win=None, pos=None, nd=False):
        self.get = get
        self.length = length
        self.kind = kind
        self.items = items   # concrete python list when known
        self.win = win       # (array term, lo, hi) when the sequence is a contiguous window
        self.pos = pos       # (elem_at(p), p_lo, p_hi, start, step): element k sits at position start + k*step, p_lo <= p < p_hi
        self.nd = nd         # a view of a NumPy array (isinstance(..., np.ndarray), element-wise arithmetic)


class PoolV:
    """a multiprocessing.Pool object (assumed library contract: see exec_call.me_pool_map)"""

    def __repr__(self):
        return 'PoolV'


class Uninit:
    """value of an uninitialised C object"""
    __slots__ = ('name',)

    def __init__(self, name):
        self.name = name

    def __repr__(self):
        return 'Uninit(%s)' % self.name


class TView:
    """m.T of a 2-D array object"""
    __slots__ = ('ref',)

    def __init__(self, ref):
        self.ref = ref


class FuncV:
    __slots__ = ('name', 'bound')

    def __init__(self, name, bound=None):
        self.name = name
        self.bound = bound

    def __repr__(self):
        return 'FuncV(%s)' % self.name


class ModuleV:
    __slots__ = ('name',)

    def __init__(self, name):
        self.name = name

    def __repr__(self):
        return 'ModuleV(%s)' % self.name


class ArrObj:
    """Mutable array-like heap object.
    1-D: element k is arr[k]; 2-D: arr[i, j] with shape (d0, d1).
    `items` (python list) is used instead of `arr` when the length is concrete and the
    executor runs in run/unroll mode."""

    def __init__(self, kind, arr=None, length=None, shape=None, items=None, origin='local',
                 name='', dtype=None, pykind='list'):
        self.kind = kind        # 'int' | 'val' | 'bool' | 'any'
        self.arr = arr
        self.length = length
        self.shape = shape
        self.items = items
        self.origin = origin    # 'param' | 'local'
        self.name = name
        self.dtype = dtype      # numpy dtype tag where it matters ('int' | 'float')
        self.pykind = pykind    # 'list' | 'array' | 'ndarray' | 'cblock'

    def clone(self, **kw):
        o = ArrObj(self.kind, self.arr, self.length, self.shape,
                   None if self.items is None else list(self.items), self.origin, self.name,
                   self.dtype, self.pykind)
        for k, v in self.__dict__.items():
            if k not in o.__dict__:
                setattr(o, k, v)          # extra tags (nd, nonneg, ...)
        for k, v in kw.items():
            setattr(o, k, v)
        return o


class RecObj:
    def __init__(self, cls, fields=None, origin='local', name=''):
        self.cls = cls
        self.fields = dict(fields or {})
        self.origin = origin
        self.name = name

    def clone(self):
        return RecObj(self.cls, dict(self.fields), self.origin, self.name)


def is_z3(x):
    return isinstance(x, z3.ExprRef)


def is_cint(x):
    return isinstance(x, int) and not isinstance(x, bool)


def is_int(x):
    return is_cint(x) or (is_z3(x) and x.sort() == IntS)


def is_bool(x):
    return isinstance(x, bool) or (is_z3(x) and x.sort() == BoolS)


def is_val(x):
    return isinstance(x, float) or (is_z3(x) and x.sort() == Val)


def is_real(x):
    return is_z3(x) and x.sort() == RealS


def vlit(x):
    """Lift a concrete number to a Val term."""
    if is_z3(x):
        if x.sort() == Val:
            return x
        if x.sort() == IntS:
            return vofreal(z3.ToReal(x))
        if x.sort() == RealS:
            return vofreal(x)
        if x.sort() == BoolS:
            return vofreal(z3.If(x, z3.RealVal(1), z3.RealVal(0)))
    if isinstance(x, bool):
        return vofreal(z3.RealVal(int(x)))
    if isinstance(x, int):
        return vofreal(z3.RealVal(x))
    if isinstance(x, float):
        if x == float('inf'):
            return vinf
        if x == float('-inf'):
            return vninf
        if x != x:
            raise ValueError('NaN literal')
        return vofreal(z3.RealVal(repr(x)))
    raise TypeError('cannot lift %r to Val' % (x,))


def zint(x):
    if isinstance(x, Opt):
        # only reached from specification terms, under a guard that excludes None
        x = x.v
    return z3.IntVal(x) if is_cint(x) else (z3.If(x, 1, 0) if is_bool(x) and is_z3(x) else
                                            (z3.IntVal(int(x)) if isinstance(x, bool) else x))


def zbool(x):
    return z3.BoolVal(x) if isinstance(x, bool) else x


def arr2sort(es):
    return z3.ArraySort(IntS, z3.ArraySort(IntS, es))


def sel2(a, i, j):
    return z3.Select(z3.Select(a, i), j)


def sto2(a, i, j, v):
    return z3.Store(a, i, z3.Store(z3.Select(a, i), j, v))


# pairs of integers (elements of Python lists of index pairs, e.g. warping paths): an uninterpreted sort with a
# constructor and two projections, axiomatised by ipair_axioms (no SMT datatypes: every back end reads the same text)
IPairS = z3.DeclareSort('IPair')
ip_mk = z3.Function('ip_mk', IntS, IntS, IPairS)
ip_fst = z3.Function('ip_fst', IPairS, IntS)
ip_snd = z3.Function('ip_snd', IPairS, IntS)


def ipair_axioms():
    a, b = z3.Ints('ipx_a ipx_b')
    return [z3.ForAll([a, b], z3.And(ip_fst(ip_mk(a, b)) == a, ip_snd(ip_mk(a, b)) == b), patterns=[ip_mk(a, b)])]


def kind_sort(kind):
    return {'int': IntS, 'val': Val, 'bool': BoolS, 'cset': CSetS, 'ipair': IPairS}[kind]


# ---------------------------------------------------------------------------------------------
# Trigger markers: uninterpreted predicates that are axiomatically true everywhere.  A contract
# writes  forall(lambda r, c: implies(T2(r, c) and ..., ...))  to give the quantifier an
# arithmetic-free E-matching pattern; because T2 is always true this does not change its meaning.
T1f = z3.Function('T1', IntS, BoolS)
T2f = z3.Function('T2', IntS, IntS, BoolS)


def trigger_axioms():
    a, b = z3.Ints('tg_a tg_b')
    return [z3.ForAll([a], T1f(a), patterns=[T1f(a)]), z3.ForAll([a, b], T2f(a, b), patterns=[T2f(a, b)])]


def find_triggers(body, vs):
    found = []
    ids = {v.get_id() for v in vs}

    visited = set()

    def walk(t, depth):
        # markers are written in the antecedent of the quantified implication: a shallow search
        tid = t.get_id()
        if tid in visited or depth > 5:
            return
        visited.add(tid)
        if z3.is_app(t):
            n = t.decl().name()
            if n in ('T1', 'T2') and any(c.get_id() in ids for c in t.children()):
                if not any(t.eq(f) for f in found):
                    found.append(t)
                return
            if n in ('and', 'or', '=>', 'not', 'if'):
                for c in t.children():
                    walk(c, depth + 1)
        elif z3.is_quantifier(t):
            return
    walk(body, 0)
    covered = set()
    for f in found:
        covered |= {c.get_id() for c in f.children() if c.get_id() in ids}
    if found and covered >= ids:
        return [found[0]] if len(found) == 1 else [z3.MultiPattern(*found)]
    return []


_HASQ = {}


def has_quantifier(t):
    """DAG search with memo: does the formula contain a quantifier?"""
    tid = t.get_id()
    r = _HASQ.get(tid)
    if r is not None:
        return r
    stack = [t]
    seen = set()
    found = False
    while stack:
        x = stack.pop()
        xid = x.get_id()
        if xid in seen:
            continue
        seen.add(xid)
        if z3.is_quantifier(x):
            found = True
            break
        if _HASQ.get(xid) is True:
            found = True
            break
        if z3.is_app(x) and x.num_args() > 0:
            stack.extend(x.children())
    if len(_HASQ) > 200000:
        _HASQ.clear()
    _HASQ[tid] = found
    return found


class EnumMember:
    """member of an enum.Enum class of /repo: only .name / .value are modelled"""
    def __init__(self, cls, name, value):
        self.cls, self.name, self.value = cls, name, value

    def __eq__(self, o):
        return isinstance(o, EnumMember) and (self.cls, self.name) == (o.cls, o.name)

    def __hash__(self):
        return hash((self.cls, self.name))

    def __repr__(self):
        return '<%s.%s>' % (self.cls, self.name)


# A string cell that is observed only through `ch in cell` (NumPy '<U' arrays of arrow marks in dp.py): an
# abstract "set of characters".  cs_has(t, code) <=> chr(code) in t.
CSetS = z3.DeclareSort('CSetS')
cs_has = z3.Function('cs_has', CSetS, IntS, BoolS)
cs_add = z3.Function('cs_add', CSetS, IntS, CSetS)
cs_empty = z3.Const('cs_empty', CSetS)


def cset_axioms():
    t = z3.Const('cs_t', CSetS)
    c, d = z3.Ints('cs_c cs_d')
    return [z3.ForAll([c], z3.Not(cs_has(cs_empty, c)), patterns=[cs_has(cs_empty, c)]),
            z3.ForAll([t, c, d], cs_has(cs_add(t, c), d) == z3.Or(d == c, cs_has(t, d)), patterns=[cs_has(cs_add(t, c), d)])]


def cs_of(s):
    t = cs_empty
    for ch in s:
        t = cs_add(t, z3.IntVal(ord(ch)))
    return t


def is_cset(x):
    return isinstance(x, z3.ExprRef) and x.sort() == CSetS
