"""Arithmetic, comparison and truthiness on the unified (concrete | z3) value domain."""
import math
import z3
from .vals import (Opt, Ref, Ptr, Seq, FuncV, ModuleV, ArrObj, RecObj, is_z3, is_cint, is_int,
                   is_bool, is_val, is_real, vlit, zint, zbool, Val, IntS, BoolS, RealS,
                   vadd, vsub, vmul, vdiv, vneg, vlt, vsqrt, vabs, vexp, vpow, vinf, vninf, vzero)
from .state import Unsupported


def concrete(x):
    return not is_z3(x) and isinstance(x, (int, float, bool))


def b_and(*xs):
    xs = [x for x in xs if x is not True]
    if any(x is False for x in xs):
        return False
    if not xs:
        return True
    if len(xs) == 1:
        return xs[0]
    return z3.And(*[zbool(x) for x in xs])


def b_or(*xs):
    xs = [x for x in xs if x is not False]
    if any(x is True for x in xs):
        return True
    if not xs:
        return False
    if len(xs) == 1:
        return xs[0]
    return z3.Or(*[zbool(x) for x in xs])


def b_not(x):
    if isinstance(x, bool):
        return not x
    return z3.Not(x)


def b_implies(a, b):
    if a is False or b is True:
        return True
    if a is True:
        return b
    return z3.Implies(zbool(a), zbool(b))


def ite(c, a, b):
    if c is True:
        return a
    if c is False:
        return b
    if a is b:
        return a
    if isinstance(a, Opt) or isinstance(b, Opt):
        a = a if isinstance(a, Opt) else Opt(a is None, a)
        b = b if isinstance(b, Opt) else Opt(b is None, b)
        av, bv = a.v, b.v
        if av is None:
            av = bv
        if bv is None:
            bv = av
        return Opt(ite(c, a.isnone, b.isnone), None if av is None else ite(c, av, bv))
    if a is None and b is None:
        return None
    if a is None:
        return Opt(zbool(c), b)
    if b is None:
        return Opt(z3.Not(zbool(c)), a)
    if isinstance(a, tuple) and isinstance(b, tuple) and len(a) == len(b):
        return tuple(ite(c, x, y) for x, y in zip(a, b))
    if isinstance(a, (Ref, FuncV, str)) or isinstance(b, (Ref, FuncV, str)):
        if a == b:
            return a
        raise Unsupported('ite over distinct references/strings')
    if is_val(a) or is_val(b):
        return z3.If(c, vlit(a), vlit(b))
    if is_bool(a) and is_bool(b):
        return z3.If(c, zbool(a), zbool(b))
    if is_int(a) or is_int(b) or is_bool(a) or is_bool(b):
        return z3.If(c, zint(a), zint(b))
    if is_real(a) or is_real(b):
        return z3.If(c, a, b)
    raise Unsupported('ite over %r / %r' % (type(a), type(b)))


def truth(v):
    """Python truthiness as a Bool value."""
    if v is None:
        return False
    if isinstance(v, bool):
        return v
    if is_z3(v):
        if v.sort() == BoolS:
            return v
        if v.sort() == IntS:
            return v != 0
        if v.sort() == Val:
            return v != vzero
        if v.sort() == RealS:
            return v != 0
    if isinstance(v, (int, float)):
        return bool(v)
    if isinstance(v, Opt):
        return b_and(b_not(v.isnone), truth(v.v) if v.v is not None else False)
    if isinstance(v, (tuple, list, dict, str)):
        return len(v) > 0
    if isinstance(v, (Ref, FuncV, ModuleV, Ptr)):
        if isinstance(v, Ptr):
            return v.oid is not None
        return True
    if isinstance(v, Seq):
        return b_not(v.length == 0) if is_z3(v.length) else v.length != 0
    raise Unsupported('truthiness of %r' % (type(v),))


REAL_TOL = 0.0      # set by the concrete checker for contracts over the reals (level R)


def val_lt(a, b):
    if concrete(a) and concrete(b):
        return a < b
    return vlt(vlit(a), vlit(b))


def compare(op, a, b):
    """op in '<','<=','>','>=','==','!='; returns a Bool value."""
    if concrete(a) and concrete(b):
        if REAL_TOL and isinstance(a, float) or REAL_TOL and isinstance(b, float):
            # level R (mathematical reals): concrete replays compare doubles up to rounding
            import math
            if not (math.isnan(a) or math.isnan(b) or math.isinf(a) or math.isinf(b)):
                tol = REAL_TOL * max(1.0, abs(a), abs(b))
                eq = abs(a - b) <= tol
                return {'<': a < b and not eq, '<=': a <= b or eq, '>': a > b and not eq, '>=': a >= b or eq,
                        '==': eq, '!=': not eq}[op]
        return {'<': a < b, '<=': a <= b, '>': a > b, '>=': a >= b, '==': a == b, '!=': a != b}[op]
    if isinstance(a, Opt) or isinstance(b, Opt):
        if op in ('==', '!='):
            if not isinstance(a, Opt):
                a, b = b, a
            if isinstance(b, Opt):
                e = b_or(b_and(a.isnone, b.isnone),
                         b_and(b_not(a.isnone), b_not(b.isnone), compare('==', a.v, b.v)))
            elif b is None:
                e = a.isnone
            else:
                e = b_and(b_not(a.isnone), compare('==', a.v, b))
            return e if op == '==' else b_not(e)
        raise Unsupported('ordering comparison on Optional value (must be guarded)')
    if a is None or b is None:
        if op == '==':
            return a is None and b is None
        if op == '!=':
            return not (a is None and b is None)
        raise Unsupported('ordering comparison with None')
    if isinstance(a, (tuple, str, Ref, FuncV)) or isinstance(b, (tuple, str, Ref, FuncV)):
        if op in ('==', '!='):
            if type(a) is not type(b) and not (isinstance(a, tuple) and isinstance(b, tuple)):
                # e.g. tuple == 0
                return op == '!='
            if isinstance(a, tuple):
                if len(a) != len(b):
                    return op == '!='
                e = b_and(*[compare('==', x, y) for x, y in zip(a, b)])
                return e if op == '==' else b_not(e)
            return (a == b) if op == '==' else (a != b)
        raise Unsupported('ordering on non-numeric')
    if is_val(a) or is_val(b):
        x, y = vlit(a), vlit(b)
        if op == '<':
            return vlt(x, y)
        if op == '>':
            return vlt(y, x)
        if op == '<=':
            return z3.Not(vlt(y, x))
        if op == '>=':
            return z3.Not(vlt(x, y))
        if op == '==':
            return x == y
        return x != y
    if is_real(a) or is_real(b):
        x = z3.ToReal(zint(a)) if is_int(a) else a
        y = z3.ToReal(zint(b)) if is_int(b) else b
    elif is_bool(a) and is_bool(b) and op in ('==', '!='):
        x, y = zbool(a), zbool(b)
    else:
        x, y = zint(a), zint(b)
    return {'<': lambda: x < y, '<=': lambda: x <= y, '>': lambda: x > y, '>=': lambda: x >= y,
            '==': lambda: x == y, '!=': lambda: x != y}[op]()


def vmin2(a, b):
    """Python min(a, b) / C 'm=a; if (b<m) m=b': the first argument wins ties."""
    if concrete(a) and concrete(b):
        return b if b < a else a
    if is_val(a) or is_val(b):
        x, y = vlit(a), vlit(b)
        return z3.If(vlt(y, x), y, x)
    x, y = zint(a), zint(b)
    return z3.If(y < x, y, x)


def vmax2(a, b):
    if concrete(a) and concrete(b):
        return b if b > a else a
    if is_val(a) or is_val(b):
        x, y = vlit(a), vlit(b)
        return z3.If(vlt(x, y), y, x)
    x, y = zint(a), zint(b)
    return z3.If(y > x, y, x)


def num_neg(a):
    if concrete(a):
        return -a
    if is_val(a):
        return vneg(a)
    return -zint(a)


def num_abs(a):
    if concrete(a):
        return abs(a)
    if is_val(a):
        return vabs(a)
    x = zint(a)
    return z3.If(x < 0, -x, x)


def py_floordiv(a, b):
    # caller guarantees b > 0 by obligation
    return zint(a) / zint(b)


def c_div(a, b):
    """C99 integer division (truncation toward zero)."""
    a, b = zint(a), zint(b)
    aa = z3.If(a < 0, -a, a)
    ab = z3.If(b < 0, -b, b)
    q = aa / ab
    return z3.If((a < 0) == (b < 0), q, -q)


def c_mod(a, b):
    a, b = zint(a), zint(b)
    return a - c_div(a, b) * b
