"""Runtime contract sweep + translation validation on small concrete inputs (every run).

For each Python function under contract: inputs from a small exhaustive/random domain that satisfy
`requires` are (a) executed natively on the real code, (b) checked against `ensures` concretely,
(c) executed by the dvc executor in run mode; (a) and (c) must agree exactly."""
import json
import z3
from .contracts import CONTRACTS
from .state import State, Unsupported, PathEnd
from .executor import Exec
from . import replay


def run_concrete(program, cname, jargs):
    c = CONTRACTS[cname]
    finfo = program.function(cname)
    ex = Exec(program, 'run')

    def make_entry(ex):
        st = State()
        args = {k: replay.from_json(v, st, 'param', k) for k, v in jargs.items()}
        return st, args
    res = ex.explore(finfo, None, make_entry)
    if len(res) != 1:
        return ('paths', len(res))
    st, result, exc, checks = res[0]
    failed = [n for (n, kind, hyps, g, note, line) in checks if z3.is_false(z3.simplify(g))]
    if exc is not None or failed:
        return ('exc', exc or failed[0])
    try:
        return ('ok', replay.to_json(result, st.heap))
    except Unsupported as e:
        return ('unsupported', str(e))


def same(a, b):
    return json.dumps(a, sort_keys=True) == json.dumps(b, sort_keys=True)


def strip_kinds(v):
    """Container kind (list vs ndarray vs array) is compared loosely: content must be equal."""
    if isinstance(v, dict):
        for k in ('l', 'a', 'n'):
            if k in v:
                return {'seq': [strip_kinds(x) for x in v[k]]}
        if 't' in v:
            return {'t': [strip_kinds(x) for x in v['t']]}
        if 'f' in v:
            return v
        return {k: strip_kinds(x) for k, x in v.items()}
    if isinstance(v, list):
        return {'seq': [strip_kinds(x) for x in v]}
    return v


def run_concrete_c(program, cname, jargs):
    from . import creplay
    finfo, params, ret = creplay.signature(program, cname)
    ex = Exec(program, 'run', max_iter=100000)
    ex.check_overflow = True

    def make_entry(ex):
        st = State()
        args = {n: creplay.c_from_json(jargs[n], t, st, n) for n, t in params}
        return st, args
    res = ex.explore(finfo, None, make_entry)
    if len(res) != 1:
        if not res and getattr(ex, 'last_false', None):
            return ('exc', ex.last_false)
        return ('paths', len(res))
    st, result, exc, checks = res[0]
    failed = [n for (n, kind, hyps, g, note, line) in checks if z3.is_false(z3.simplify(g))]
    if failed:
        return ('exc', failed[0])
    after = {}
    for n, t in params:
        v = st.vars.get(n)
        j = jargs[n]
        if isinstance(j, dict) and 'buf' in j and hasattr(v, 'oid') and v.oid is not None:
            o = st.heap[v.oid]
            after[n] = [x.hex() if isinstance(x, float) else x for x in o.items]
    if isinstance(result, float):
        result = {'f': result.hex()}
    elif isinstance(result, bool):
        result = bool(result)
    elif hasattr(result, 'oid') and result.oid in st.heap and hasattr(st.heap[result.oid], 'fields'):
        # a struct returned by value, in the encoding of the native runner
        result = {'struct': {f: v for f, v in st.heap[result.oid].fields.items()}}
    return ('ok', result, after)


def sweep_c(run, cname, limit, out):
    from . import creplay
    c = CONTRACTS[cname]
    if c.replay is None:
        out['functions'][cname] = 'no input generator'
        return
    chk = creplay.CChecker(run.program, cname)
    batch = [a for a in c.replay(run.rng, limit) if chk.check_requires(a)]
    outs = creplay.native_c_calls(run.program, cname, batch)
    n_ok, tv_n = 0, 0
    for jargs, o in zip(batch, outs):
        out['evaluations'] += 1
        raw = chk.check_ensures(jargs, o)
        bad = replay.definite(raw)
        if len(raw) != len(bad):
            out['unevaluated'] = out.get('unevaluated', 0) + 1
        if bad:
            out['violations'].append(dict(function=cname, input=jargs, outcome=o, violated=bad))
            if len(out['violations']) > 5:
                break
            continue
        n_ok += 1
        if tv_n < 25:
            tv_n += 1
            try:
                r = run_concrete_c(run.program, cname, jargs)
            except (Unsupported, PathEnd) as e:
                r = ('unsupported', str(e))
            out['executor_runs'] += 1
            if r[0] == 'ok':
                nat = o['result']
                if isinstance(nat, dict) and 'f' in nat:
                    nat = {'f': float.fromhex(nat['f']).hex()}
                if json.dumps(r[1], sort_keys=True) != json.dumps(nat, sort_keys=True):
                    out['mismatches'].append(dict(function=cname, input=jargs, native=nat, executor=r[1]))
                for n, items in r[2].items():
                    natb = [(float.fromhex(x['f']).hex() if isinstance(x, dict) else x) for x in o['args_after'][n]['buf']]
                    if natb != items:
                        out['mismatches'].append(dict(function=cname, input=jargs, buffer=n, native=natb, executor=items))
            elif r[0] == 'exc':
                out['mismatches'].append(dict(function=cname, input=jargs, native='ok', executor=str(r[1])))
            else:
                out.setdefault('executor_unsupported', []).append('%s: %s' % (cname, r[1]))
    out['functions'][cname] = dict(inputs=len(batch), contract_held=n_ok)


def sweep(run, cnames, limit):
    out = dict(evaluations=0, functions={}, mismatches=[], violations=[], executor_runs=0)
    for cname in cnames:
        c = CONTRACTS[cname]
        if c.lang == 'c':
            sweep_c(run, cname, max(20, limit // 6), out)
            continue
        if c.lang != 'py' or getattr(c, 'no_sweep', False):
            continue
        chk = replay.ConcreteChecker(run.program, cname)
        n_ok = 0
        batch = []
        batch_cases = []
        per_case = max(20, limit // max(1, len(c.cases or [1])))
        for case in (c.cases or [dict(label='')]):
            k = 0
            try:
                for jargs in replay.enumerate_inputs(c, case, run.rng, 3, per_case * 6):
                    try:
                        if not chk.check_requires(jargs, case):
                            continue
                    except Unsupported:
                        continue
                    batch.append(jargs)
                    batch_cases.append(case)
                    k += 1
                    if k >= per_case:
                        break
            except Unsupported as e:
                out['functions'][cname] = 'no concrete domain: %s' % e
                batch = []
                break
        if not batch:
            continue
        outs = replay.native_calls(run.program.native_root(), [dict(func=cname, args=a) for a in batch])
        tv_n = 0
        for jargs, o, case in zip(batch, outs, batch_cases):
            out['evaluations'] += 1
            raw = chk.check_ensures(jargs, o, case)
            bad = replay.definite(raw)
            if len(raw) != len(bad):
                out['unevaluated'] = out.get('unevaluated', 0) + 1
            if bad:
                out['violations'].append(dict(function=cname, input=jargs, outcome=o, violated=bad, case=case.get('label')))
                if len(out['violations']) > 5:
                    break
                continue
            n_ok += 1
            if tv_n < 60:
                tv_n += 1
                try:
                    r = run_concrete(run.program, cname, jargs)
                except (Unsupported, PathEnd) as e:
                    r = ('unsupported', str(e))
                out['executor_runs'] += 1
                if r[0] == 'ok' and o['ok']:
                    if not same(strip_kinds(r[1]), strip_kinds(o['result'])):
                        out['mismatches'].append(dict(function=cname, input=jargs, native=o['result'], executor=r[1]))
                elif r[0] == 'ok' and not o['ok']:
                    out['mismatches'].append(dict(function=cname, input=jargs, native=o['exc'], executor='no exception'))
                elif r[0] == 'exc' and o['ok']:
                    out['mismatches'].append(dict(function=cname, input=jargs, native='ok', executor=str(r[1])))
        out['functions'][cname] = dict(inputs=len(batch), contract_held=n_ok)
    return out
