"""Data-race freedom obligations for `#pragma omp parallel for` (C07).

The sequential semantics of the loop is what the functional contract is proved for.  OpenMP's
memory model makes a data-race-free parallel loop equivalent to *some* sequential order of its
iterations, and because iterations neither read nor write what another iteration writes, every
order gives the same final state.  What is proved here, for two arbitrary distinct iterations I, J
of the annotated loop (all paths through the body, all inner-loop iterations):

  omp-private      every scalar assigned in the body is in private(...) or declared inside it
  omp-shared-write no struct field / dereferenced cell shared between iterations is assigned
  omp-race         a write of iteration I and any access (read or write) of iteration J to the same
                   shared object hit different elements
  (callee effects enter through the callee's `assigns`: an assigned shared object is a write to
   all of it)

Assumed (A3): the OpenMP runtime executes each iteration exactly once, for every thread count and
schedule clause."""
import z3
from .state import Obligation


def consts_of(terms):
    seen = {}
    todo = list(terms)
    visited = set()
    while todo:
        t = todo.pop()
        if not z3.is_expr(t):
            continue
        tid = t.get_id()
        if tid in visited:
            continue
        visited.add(tid)
        if z3.is_quantifier(t):
            todo.append(t.body())
            continue
        if z3.is_app(t):
            if t.num_args() == 0 and t.decl().kind() == z3.Z3_OP_UNINTERPRETED:
                seen[t.decl().name()] = t
            else:
                todo.extend(t.children())
    return seen


def rename(terms, mapping):
    subs = list(mapping.items())
    return [z3.substitute(t, *subs) for t in terms]


def race_obligations(ex, fname, props):
    out = []
    recs = getattr(ex, 'omp_paths', [])
    if not recs:
        return out
    # dedupe accesses
    accesses = []
    seen = set()
    for rec in recs:
        for (oid, pos, kind, pclen, line) in rec['log']:
            key = (oid, None if pos is None else pos.get_id() if z3.is_expr(pos) else pos, kind, pclen,
                   tuple(f.get_id() for f in rec['pc'][rec['mark']:pclen]))
            if key in seen:
                continue
            seen.add(key)
            accesses.append(dict(oid=oid, pos=pos, kind=kind, rec=rec, pclen=pclen, line=line))
    writes = [a for a in accesses if a['kind'] == 'w']
    n = 0
    for w in writes:
        for a in accesses:
            if a['oid'] != w['oid']:
                continue
            ra, rb = w['rec'], a['rec']
            pre = ra['pc'][:ra['mark']]
            s0 = consts_of(pre)
            post_a = ra['pc'][ra['mark']:w['pclen']]
            post_b = rb['pc'][rb['mark']:a['pclen']]
            ta = post_a + ([w['pos']] if z3.is_expr(w['pos']) else []) + [ra['loopvar']]
            tb = post_b + ([a['pos']] if z3.is_expr(a['pos']) else []) + [rb['loopvar']]
            ma = {c: z3.Const(nm + '@I', c.sort()) for nm, c in consts_of(ta).items() if nm not in s0}
            mb = {c: z3.Const(nm + '@J', c.sort()) for nm, c in consts_of(tb).items() if nm not in s0}
            hyps = list(pre) + rename(post_a, ma) + rename(post_b, mb)
            li = rename([ra['loopvar']], ma)[0]
            lj = rename([rb['loopvar']], mb)[0]
            hyps.append(li != lj)
            if w['pos'] is None or a['pos'] is None:
                goal = z3.BoolVal(False)
            else:
                pi = rename([z3.IntVal(w['pos']) if isinstance(w['pos'], int) else w['pos']], ma)[0]
                pj = rename([z3.IntVal(a['pos']) if isinstance(a['pos'], int) else a['pos']], mb)[0]
                goal = pi != pj
            n += 1
            out.append(Obligation('%s::omp-race@%s-L%s.vs.%s-L%s#%d' % (fname, 'w', w['line'], a['kind'], a['line'], n),
                                  'omp-race', hyps, goal, fname, w['line'], props,
                                  'iterations I != J of the parallel loop: the write at line %s and the %s at line %s '
                                  'touch different elements of the same buffer' % (
                                      w['line'], 'write' if a['kind'] == 'w' else 'read', a['line'])))
    return out
